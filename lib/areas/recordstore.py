"""C01 / C02 / C10 -- record store (specs/recordstore, driver drv_store, hooks H1 H2)."""
import os
import re
from vcheck import *
from areas.replfetcher import scenarios_from, sim_states

PROPS = ["C01", "C02", "C10"]
PACKAGES = ["drv_net"]
_common_note = ("trusted: TLC; the driver's id mapping (own SHA-256/XOR ranking, value table); schedules are imposed through the cfg-guarded gates on a "
                "current-thread runtime (bodies touching one file run in spawn order, I1); fs::write/remove_file take effect when they return")
META = {
    "C01": {
        "engine": "recordstore", "level": "model_checking",
        "technique": "TLA+ state machine of the disk-backed store with its spawned write/delete bodies and completion notes; TLC exhaustive (bounded) + simulation; behaviours replayed into the real NodeRecordStore through task gates; every real step validated by TLC against the clause operators and the model",
        "text": "C01's clauses (GetSound on every read-back, SettledReadback in every settled state, NoCrash on every store call, ListedViewsAgree -- contains / RecordStoreHasKey, "
                "record_addresses / GetAllLocalRecordAddresses and the quote's already-stored flag equal the index -- on every step, ListedType -- the listed record type is that of the value served, "
                "values being chunks, scratchpads, transactions and registers -- in every settled state and after every restart) are evaluated by TLC on all bounded behaviours of the implementation-shaped model "
                "(every order of the background bodies of different keys and of the completion notes) and on every step recorded from the real store driven through the same behaviours "
                "plus random ones; byte-exactness is checked by the driver's value table (unknown bytes map to an id no clause accepts).",
        "note": _common_note, "design_ref": "5 Area RecordStore",
    },
    "C10": {
        "engine": "recordstore", "level": "model_checking",
        "technique": "same model and traces as C01; clauses Capacity, Admission, BelowCapacityAccepts, NoSpuriousLoss, ViewsAgree, CleanupOnlyOutside, QuoteExact, PaySurvivesRestart",
        "text": "NoSpuriousLoss: the index loses a key only by remove, a failed-write report, an effective clean-up (keys outside the range) or a put at capacity (the farthest record); "
                "BelowCapacityAccepts: below capacity even counting every write in flight a put is accepted and nothing is lost; ranges are set exactly ON a key's distance, strictly between two keys, "
                "beyond every key, and set again (also after a restart). Capacity/admission/eviction/clean-up/quote clauses are step predicates over the index, the distance index, the cached farthest record and the quote figures; TLC checks them on the model "
                "and on every real step (bursts of unacknowledged writes are ordinary behaviours because notes are delivered only when the behaviour says so).",
        "note": _common_note + "; the real clean-up threshold (1638 records) is reached in the padded runs with 1636 / 1635 acknowledged filler records closer than every model key; "
                                "the padded clean-up is followed by its deletes / a restart, new range and second clean-up / a crash after the first delete / a put; "
                                "a put at capacity of a key ALREADY held may evict the farthest record (not covered by C10's statement; counted in coverage.held_key_put_evicted_farthest); "
                                "C01_ListedType does not judge keys whose completion notes overtook each other unless VERIF_ENABLE_STALETYPE=1 (coverage.stale_type_not_judged)", "design_ref": "5 Area RecordStore",
    },
}
META["C02"] = {
    "engine": "recordstore", "level": "model_checking",
    "technique": "same store model extended with Crash/Restart (pending bodies and notes lost, optionally one torn file); TLC places the crash after every prefix of every bounded behaviour; replayed on the real store by dropping the parked bodies and reopening the directory with the same identity; torn files are byte prefixes of the real ciphertext",
    "text": "C02's clauses (NoCorruptAfterRestart, CompletedWritesDurable, RemovalsStay) are evaluated on the Restart step of every behaviour: TLC enumerates all crash points of the bounded model "
            "(every subset of released bodies) and simulates deeper ones; the driver realises each on the real store (parked bodies are never released, the directory is reopened with the same "
            "peer id and encryption seed) (also in the padded clean-up runs) and cuts the files of the writes in progress (one or several) at 0,1,2,15,16,17,len/2,len-17,len-16,len-1 bytes (thorough: every prefix length, round-robin over runs).",
    "note": _common_note + "; a completed fs::write is durable and a torn write leaves a byte prefix (no block-level reordering); crash points are driven on a store built with with_config and a fixed seed; a further run restarts a node built by build_node (seed re-derived from the peer id, driver.rs)",
    "design_ref": "5 Area RecordStore",
}
CLAUSES = {
    "C01": ("C01_",),
    "C10": ("C10_",),
    "C02": ("C02_",),
}


def model_phase(v, w, thorough, scn_path, crash=False):
    if crash:
        mc = tlc("recordstore", "MCRecordStore", "MCRecordStore_crash_thorough.cfg" if thorough else "MCRecordStore_crash.cfg", w, workers=12, timeout=3400)
    else:
        mc = tlc("recordstore", "MCRecordStore", "MCRecordStore_thorough.cfg" if thorough else "MCRecordStore.cfg", w, workers=12, timeout=3400)
    v.add_model(mc)
    if mc.violated:
        v.violation("model:" + mc.violated, "the model of the store falsifies a clause beyond the listed known findings (design-level counterexample)",
                    {"area": "recordstore", "tlc": mc.error_text[:8000]})
    never = [a for a in mc.actions_never_taken() if a.startswith("Do") and a not in (("DoGet", "DoQuote") if crash else ("DoRestart", "DoGet", "DoQuote"))]
    if never:
        raise ToolError("actions never taken in MCRecordStore: %s" % never)
    sim = tlc("recordstore", "MCRecordStore", "MCRecordStore_crash_sim.cfg" if crash else "MCRecordStore_sim.cfg", w, workers=1, simulate="num=%d" % (4000 if thorough else 400), depth=16,
              coverage=False, timeout=3000, extra=["-seed", str(seed())])
    if sim.violated:
        v.violation("model:" + sim.violated, "clause falsified on a simulated model behaviour beyond the listed known findings",
                    {"area": "recordstore", "tlc": sim.error_text[-8000:]})
    v.cov["states"] += sim_states(sim)
    v.cov["transitions"] += sim_states(sim)
    write_ndjson(scn_path, scenarios_from(sim))


def run(prop, tier, replay=None):
    v = Verdict(prop, tier, replaying=replay is not None)
    w = workdir(prop)
    thorough = tier == "thorough"
    scn_path = os.path.join(w, "scenarios.ndjson")
    if replay:
        write_ndjson(scn_path, [replay["scenario"]])
    else:
        cache = os.path.join(WORK, "cache-recordstore-scenarios%s.ndjson" % ("-crash" if prop == "C02" else ""))
        if os.environ.get("VERIF_SKIP_MODEL") == "1" and os.path.exists(cache):
            shutil.copy(cache, scn_path)
            v.cov["states"] = v.cov["transitions"] = 1
        else:
            model_phase(v, w, thorough, scn_path, crash=(prop == "C02"))
            shutil.copy(scn_path, cache)
    build(PACKAGES)
    runs = []
    t1 = os.path.join(w, "trace.ndjson")
    args = ["--scenarios", scn_path, "--out", t1, "--work", os.path.join(w, "runs"), "--nk", 4, "--nv", 2, "--max", 2, "--cache", 1]
    if not replay:
        args += ["--random", 1500 if thorough else 120, "--steps", 60]
    if prop == "C02":
        args += ["--crash", 100, "--cuts", 400 if thorough else 10, "--tear-metrics"]
    run_driver("drv_store", args, w)
    runs.append((t1, "RecordStoreTrace.cfg"))
    if not replay:
        t2 = os.path.join(w, "trace_big.ndjson")
        run_driver("drv_store", ["--out", t2, "--work", os.path.join(w, "runs_big"), "--nk", 6, "--nv", 3, "--max", 3, "--cache", 2,
                                 "--random", 1500 if thorough else 120, "--steps", 80] + (["--crash", 100, "--cuts", 400 if thorough else 10, "--tear-metrics"] if prop == "C02" else []), w)
        runs.append((t2, "RecordStoreTrace_big.cfg"))
    if not replay:
        # the same behaviours through the REAL SwarmDriver command handlers (PutLocalRecord with its kind -> type
        # mapping, AddLocalRecordAsStored, RemoveFailedLocalRecord, GetLocalRecord, quoting, clean-up trigger) on a
        # node built by NetworkBuilder::build_node; restarts re-derive the encryption seed from the peer id
        nsim = tlc("recordstore", "MCRecordStore", "MCRecordStore_node_sim.cfg", w, workers=1, simulate="num=%d" % (2000 if thorough else 150),
                   depth=16, coverage=False, timeout=3000, extra=["-seed", str(seed() + 17)])
        if nsim.violated:
            v.violation("model:" + nsim.violated, "clause falsified on a simulated model behaviour (node constants)", {"area": "recordstore", "tlc": nsim.error_text[-6000:]})
        nscn = os.path.join(w, "scenarios_node.ndjson")
        write_ndjson(nscn, scenarios_from(nsim))
        t4 = os.path.join(w, "trace_node.ndjson")
        run_driver("drv_store", ["--scenarios", nscn, "--out", t4, "--work", os.path.join(w, "runs_node"), "--nk", 4, "--nv", 2, "--max", 99, "--cache", 25,
                                 "--via-node", "--random", 600 if thorough else 40, "--steps", 60, "--crash", 100 if prop == "C02" else 30, "--cuts", 400 if thorough else 10] + (["--tear-metrics"] if prop == "C02" else []), w, timeout=3000)
        runs.append((t4, "RecordStoreTrace_node.cfg"))
    if prop in ("C10", "C02") and not replay:
        # clean-up at the REAL threshold: 1636 (1635) filler records + model keys; what follows an effective clean-up
        # (its deletes, a restart, a second range and clean-up, a put) is varied -- C02 judges the restarts of these runs
        t3 = os.path.join(w, "trace_padded.ndjson")
        npad = (400 if thorough else 40) if prop == "C10" else (160 if thorough else 16)
        run_driver("drv_store", ["--out", t3, "--work", os.path.join(w, "runs_pad"), "--padded", npad], w, timeout=3000)
        runs.append((t3, "RecordStoreTrace_padded.cfg"))
    kfs = {k["id"]: k for k in kf_for(prop)}
    all_steps = 0
    distinct = set()
    nruns = 0
    samples = []
    for trace, cfg in runs:
        rep = validate_trace("recordstore", "RecordStoreTrace", cfg, trace, w, timeout=3400, heap="6g")
        events = read_ndjson(trace)
        starts = {}
        cur = 0
        for i, e in enumerate(events):
            if e["ev"] == "Reset":
                cur = i
            starts[i] = cur

        def scenario_of(line):
            s = starts[line - 1]
            steps = []
            for e in events[s + 1:line]:
                if e["ev"] != "Skipped":
                    steps.append({k: e.get(k, 0) for k in ("ev", "k", "v", "rg", "rv", "t", "n", "tks")})
            return steps

        for x in rep["violations"]:
            e = events[x["line"] - 1]
            if x["clause"] == "Malformed":
                raise ToolError("malformed trace line %d in %s: %s" % (x["line"], trace, json.dumps(e)[:600]))
            if not x["clause"].startswith(CLAUSES[prop]):
                continue
            v.violation(x["clause"], "witness key %s at step %s(k=%s,v=%s) line %d of %s (src=%s): res=%s idx=%s byDist=%s far=%s rb=%s tasks=%s notes=%s" % (
                x["w"], e["ev"], e["k"], e["v"], x["line"], os.path.basename(trace), e.get("src"), e["res"], e["idx"], e["byDist"], e["far"], e["rb"], e["tasks"], e["notes"]),
                {"area": "recordstore", "scenario": scenario_of(x["line"]), "event": e})
        for x in rep.get("known", []):
            if x["clause"].startswith(CLAUSES[prop]):
                kf = kfs.get(x["kf"])
                if kf is None:
                    e = events[x["line"] - 1]
                    v.violation(x["clause"], "matched finding %s is not listed as known in known_findings.json" % x["kf"],
                                {"area": "recordstore", "scenario": scenario_of(x["line"]), "event": e})
                else:
                    v.known_finding(kf, "line %d" % x["line"])
        for ln in rep.get("drift", []):
            e = events[ln - 1]
            v.drift.append({"trace": os.path.basename(trace), "line": ln, "ev": e["ev"], "k": e.get("k"), "res": e["res"], "idx": e.get("idx"), "rb": e.get("rb"), "exp": e.get("exp"), "what": e.get("what")})
        steps = [e for e in events if e["ev"] not in ("Reset", "Skipped")]
        all_steps += len(steps)
        nruns += sum(1 for e in events if e["ev"] == "Reset")
        for e in steps:
            if e["ev"] in ("PutVerified", "Remove", "RunTask", "HandleNote", "Cleanup", "Quote", "PaymentReceived", "Restart", "SetRange"):
                distinct.add(json.dumps([cfg, e["ev"], e["k"], e["v"], e["t"], e["n"], e["res"], e["idx"], e["rb"], e["tasks"], e["notes"], e.get("ty"), e.get("range"), e.get("rv")], sort_keys=True))
        if not samples:
            samples = [scenario_of(len(events))[:8]] + [{k: e[k] for k in ("ev", "k", "v", "t", "n", "res", "idx", "byDist", "far", "cache", "files", "rb", "tasks", "notes", "src")} for e in steps[:3]]
        v.cov.setdefault("impl_stats", []).append(rep.get("stats"))
        st = rep.get("stats") or {}
        # allowed by C10 as stated ("a record it does not yet hold"), counted: a put at capacity of a key ALREADY held evicted the farthest record
        v.cov["held_key_put_evicted_farthest"] = v.cov.get("held_key_put_evicted_farthest", 0) + st.get("heldEvict", 0)
        v.cov["listed_types_judged"] = {k: v.cov.get("listed_types_judged", {}).get(k, 0) + st.get(k, 0) for k in ("listedC", "listedS", "listedN", "scratchAsN")}
        v.cov["stale_type_not_judged"] = v.cov.get("stale_type_not_judged", 0) + st.get("staleType", 0)
    v.cov["evaluations"] = all_steps
    v.cov["distinct_nontrivial"] = len(distinct)
    v.cov["traces_validated_against_impl"] = nruns
    v.cov["rule"] = ("a case is one step on the real store inside a run (TLC-simulated behaviour over 4 keys, or driver-random behaviour over 4 and 6 keys): a public call, the release of "
                     "one parked background body, or the delivery of one completion command; non-trivial = state-changing call/body/note or quote; distinct = distinct "
                     "(step, arguments, result, resulting index, read-back, parked bodies, undelivered notes)")
    v.cov["samples"] = samples
    v.cov["exhaustive"] = False
    v.assumptions = ["bodies that touch the same file run in spawn order (I1); bodies of different files and all completion notes in any order",
                     "no disk I/O error is injected (write failures are outside C01/C10's quantifier)",
                     "exhaustive model run: 3 keys x 2 values, capacity 2, cache 1, depth-bounded from every settled pre-filled state; deeper behaviours sampled by TLC simulation (4 keys)"]
    return v.finish()
