"""C18 -- bootstrap cache (specs/bootcache, driver drv_bootcache)."""
import hashlib
import os
import random
from vcheck import *

PROPS = ["C18"]
META = {
    "C18": {
        "engine": "bootcache",
        "level": "model_checking",
        "technique": "TLA+ state machine of several cache stores flushing to one file (load, merge, clean-up, temp file, rename, clear "
                     "interleaved per store); TLC checks the C18 clauses on every interleaving of the bounded model and emits one replay "
                     "scenario per reachable quiescent state; real BootstrapCacheStore objects are driven with those scenarios, crafted "
                     "files, random sequences, a torn write and concurrent writer processes; TLC judges the recorded trace",
        "text": "TLC explores exhaustively (2 stores, 3 peers x 2 addresses, limits 2/1, counters 0..2, fresh/expired, operation budgets) every "
                "interleaving of flush steps, API calls and file corruption/removal/ageing, checking bounds, cleanliness, merge monotonicity, "
                "save/load and file loadability in each state and step; a non-atomic-write variant of the model must violate file loadability. "
                "Each distinct reachable quiescent model state yields a scenario that is replayed on real stores sharing a real file; the "
                "same clause operators are evaluated by TLC on the projected real states (memory of each store, raw file read by the driver, "
                "result of load_cache_data) after every call. Unbounded parts (all operation sequences, all file contents, real schedulers) "
                "are sampled: seeded random runs with random limits (some with different limits per store), every corrupt-content class, "
                "counter boundaries, parseable but abnormal files (future-dated, duplicate, empty-peer entries), every multiaddress "
                "presentation judged by identity (crafted = the canonical address of the presented peer; entries stored under the peer id "
                "they carry), many ports of one known peer, stores made by new_from_peers_args (first / local / bootstrap_cache_dir) "
                "and with cache writing disabled, a flush that cannot write, a writer killed mid-write by a file-size limit, 2-4 writer "
                "processes racing a reader, and 2-8 owners whose flush tasks run inside ONE process (clone + spawn, as the node does).",
        "note": "trusted: rename(2) atomicity of the file system used for /verif/work, the driver's serde mirror of the cache file, TLC. "
                "Flush steps of one store cannot be interleaved with another store's inside one process (the code offers whole "
                "sync_and_flush_to_disk calls); fine-grained interleavings are explored in the model and by free-running processes only.",
        "design_ref": "5 Area BootCache",
    }
}
PACKAGES = ["drv_light"]

FLUSH_STEPS = {"FLoad", "FMerge", "FClean", "FWriteTemp", "FRename", "FTruncate", "FClear"}


def api_scenario(hist):
    """Collapse the model's step history to the granularity the code offers: each flush becomes one
    Flush call placed where it replaced the file (FRename)."""
    ops = []
    inflight = {}
    serial = True
    for st in hist:
        if isinstance(st, list):
            st = {"op": st[0], "p": st[1], "k": st[2], "a": st[3], "x": st[4]}
        op = st["op"]
        if op == "FLoad":
            inflight[st["p"]] = len(ops)
        elif op == "FRename":
            ops.append({"op": "Flush", "p": st["p"], "k": 0, "a": 0, "x": bool(st["x"])})
        elif op == "FClear":
            inflight.pop(st["p"], None)
        elif op in FLUSH_STEPS:
            pass
        else:
            if inflight:
                serial = False
            ops.append({"op": op, "p": st["p"], "k": st["k"], "a": st["a"], "x": bool(st["x"])})
    return ops, serial


def scenarios_from(printed, limit, rnd):
    seen = {}
    for ln in printed:
        try:
            hist = json.loads(json.loads(ln))
        except Exception:
            continue
        ops, serial = api_scenario(hist)
        if not ops:
            continue
        key = json.dumps(ops, sort_keys=True)
        if key not in seen:
            seen[key] = {"ops": ops, "serial": serial}
    # drop scenarios that are a proper prefix of another one
    keys = sorted(seen)
    prefixes = set()
    for k in keys:
        ops = seen[k]["ops"]
        for n in range(1, len(ops)):
            prefixes.add(json.dumps(ops[:n], sort_keys=True))
    out = [seen[k] for k in keys if k not in prefixes]
    total = len(out)
    if limit and len(out) > limit:
        out = rnd.sample(out, limit)
    for i, s in enumerate(out):
        s["id"] = i + 1
        s["src"] = "tlc"
    return out, len(seen), total


def scenario_of_run(events, upto):
    """Rebuild a replayable scenario from the events of one run (up to and including index upto)."""
    run = events[upto]["run"]
    ops = []
    cfg = None
    for e in events[:upto + 1]:
        if e["run"] != run:
            continue
        if e["ev"] in ("Stress", "Torn", "Craft"):
            continue
        if e["ev"] == "New":
            cfg = cfg or e["cfg"]
            continue
        op = {"op": e["ev"], "p": e["p"], "k": e["k"], "a": e["a"], "x": e["x"]}
        if "v" in e:
            op["v"] = e["v"]
        if e["ev"] == "Corrupt":
            op["i"] = e.get("i", 0)
        if e["ev"] == "SetFile":
            op["entries"] = e.get("entries", [])
        ops.append(op)
    return {"ops": ops, "cfg": cfg or events[upto]["cfg"], "src": "replay", "id": 1}


def run(prop, tier, replay=None):
    v = Verdict(prop, tier, replaying=replay is not None)
    w = workdir(prop)
    thorough = tier == "thorough"
    rnd = random.Random(seed())
    scen_path = os.path.join(w, "scenarios.ndjson")
    scen = []
    mc = None
    if replay is None:
        # 1. exhaustive model check; scenarios = history of each distinct quiescent state
        mc = tlc("bootcache", "MCBootCache", "MCBootCache_thorough.cfg" if thorough else "MCBootCache.cfg", w, workers=8,
                 timeout=3000)
        if mc.violated:
            raise ToolError("the model of C18 violates %s (a design-level counterexample has to be confirmed on the code first):\n%s"
                            % (mc.violated, mc.error_text[:3000]))
        never = [a for a in mc.actions_never_taken() if a.startswith("Do") and a != "DoFTruncate"]
        if never:
            raise ToolError("actions of BootCache.tla never taken in MCBootCache: %s" % never)
        v.add_model(mc)
        # anti-vacuity of the file clause: writing in place must break it in the model
        neg = tlc("bootcache", "MCBootCache", "MCBootCache_nonatomic.cfg", w, workers=4, coverage=False, timeout=600)
        if neg.violated != "InvFileLoadable":
            raise ToolError("the non-atomic variant of the model does not violate InvFileLoadable (got %s)" % neg.violated)
        scen, n_api, n_max = scenarios_from(mc.printed, 60000 if thorough else 0, rnd)
        log("%s model: %d distinct states, %d transitions, depth %d (%.1fs); %d API-level scenarios, %d maximal, %d replayed"
            % (prop, mc.distinct, mc.generated, mc.depth, mc.wall, n_api, n_max, len(scen)))
        mc.output = ""
        mc.printed = []
        write_ndjson(scen_path, scen)
    else:
        if replay.get("mode") == "scenario":
            scen = [replay["scenario"]]
            write_ndjson(scen_path, scen)
    # 2. the real code
    build(PACKAGES)
    trace = os.path.join(w, "trace.ndjson")
    scratch = os.path.join(w, "scratch")
    args = ["run", "--out", trace, "--dir", scratch]
    if replay is None:
        args += ["--scenarios", scen_path, "--random", 400 if thorough else 60, "--stress", 400 if thorough else 60]
    elif replay.get("mode") == "scenario":
        args += ["--scenarios", scen_path, "--only-scenarios"]
    else:
        args += ["--random", 0, "--stress", 60]
    t1 = time.time()
    p = run_driver("drv_bootcache", args, w, timeout=3000)
    log("%s driver: %s (%.1fs)" % (prop, p.stdout.strip()[-200:], time.time() - t1))
    shutil.rmtree(scratch, ignore_errors=True)
    # 3. TLC judges the trace
    rep = validate_trace("bootcache", "BootCacheTrace", "BootCacheTrace.cfg", trace, w, timeout=3000, heap="8g")
    events = read_ndjson(trace)
    log("%s trace validation: %d events (%.1fs)" % (prop, len(events), rep["tlc_wall"]))
    bad = [x for x in rep["violations"] if x["clause"] == "Malformed"]
    if bad:
        raise ToolError("trace has events the trace specification does not know: line %s" % bad[0]["line"])
    if replay is None:
        # every action of the model has to occur in the implementation traces too (a clause whose step never happens is not exercised)
        kinds = {(e["ev"], e["x"]) if e["ev"] == "Flush" else e["ev"] for e in events}
        need = {"New", "Add", "AddBad", "Upd", "Rem", "Cleanup", ("Flush", True), ("Flush", False), "Write", "Craft", "Corrupt", "SetFile",
                "Delete", "ExpireFile", "Stress", "Torn"}
        if need - kinds:
            raise ToolError("event kinds missing from the implementation trace: %s" % sorted(map(str, need - kinds)))
        # the generator classes added for the blind spots have to be there, with the outcomes that make their clauses bite
        srcs = {e["src"] for e in events}
        need_src = {"shapes", "corrupt", "counters", "ports", "abnormal", "args", "unwritable", "random", "torn", "stress"}
        if need_src - srcs:
            raise ToolError("generator classes missing from the implementation trace: %s" % sorted(need_src - srcs))
        facts = {
            "a flush that failed": any(e["ev"] == "Flush" and e["res"] == "Err" for e in events),
            "a flush of a store that must not write": any(e["ev"] == "Flush" and e.get("dis") for e in events),
            "a store made by new_from_peers_args": any(e["ev"] == "New" and "args" in e and e["res"] == "Ok" for e in events),
            "a first-node store": any(e["ev"] == "New" and e.get("first") for e in events),
            "a file with a future-dated address": any(e["ev"] == "SetFile" and any(x.get("fut") for x in e["raw"].get("c", [])) for e in events),
            "a file with a peer without address": any(e["ev"] == "SetFile" and e["raw"].get("kind") == "cache" and
                                                      e["raw"]["np"] > len({x["k"] for x in e["raw"]["c"]}) for e in events),
            "a file with the same address twice": any(e["ev"] == "SetFile" and e["raw"].get("kind") == "cache" and
                                                      len({(x["k"], x["a"]) for x in e["raw"]["c"]}) < len(e["raw"]["c"]) for e in events),
            "an addition to a known peer at its address limit": any(
                e["ev"] == "Add" and e["res"] == "Ok" and e["obs"]["mp"] == e["cfg"]["maxA"] and
                sum(1 for x in e["obs"]["mem"] if x["k"] == e["k"]) == e["cfg"]["maxA"] for e in events),
            "a dialable presentation crafted": any(e["ev"] == "Craft" and e.get("ok") and e.get("same") for e in events),
            "tasks of one process flushing": any(e["ev"] == "Stress" and e.get("mode") == "tasks" and e.get("flush_ok", 0) > 0 for e in events),
        }
        missing = sorted(k for k, ok in facts.items() if not ok)
        if missing:
            raise ToolError("situations the C18 generators must produce did not occur: %s" % missing)
    reported = set()
    for x in sorted(rep["violations"], key=lambda x: x["line"]):
        e = events[x["line"] - 1]
        key = (x["clause"], e["run"])
        if key in reported:
            continue
        reported.add(key)
        if e["ev"] in ("Stress", "Torn"):
            payload = {"area": "bootcache", "mode": "processes", "event": e}
        else:
            payload = {"area": "bootcache", "mode": "scenario", "scenario": scenario_of_run(events, x["line"] - 1),
                       "event": {k: e[k] for k in e if k not in ("pre", "rawpre")}}
        detail = "%s(p=%s k=%s a=%s x=%s %s) res=%s load=%s raw=%s src=%s" % (
            e["ev"], e["p"], e["k"], e["a"], e["x"], e.get("label", ""), e["res"], e["load"]["kind"] + ":" + str(e["load"].get("msg", e["load"].get("err", ""))),
            e["raw"]["kind"], e["src"])
        v.violation(x["clause"], detail, payload)
    for d in rep.get("drift", []):
        e = events[d["line"] - 1]
        v.drift.append({"what": d["what"], "event": {k: e[k] for k in ("ev", "p", "k", "a", "x", "cfg", "src") if k in e}})
    # 4. evidence
    runs = {}
    for e in events:
        runs.setdefault(e["run"], []).append(e)
    nontrivial = set()
    for r, es in runs.items():
        if any(e["ev"] in ("Flush", "Write", "Stress", "Torn", "Cleanup") or e["raw"]["kind"] == "corrupt" for e in es):
            nontrivial.add(hashlib.sha1(json.dumps([[e["ev"], e["p"], e["k"], e["a"], e["x"], e.get("label")] for e in es]).encode()).hexdigest())
    v.cov["evaluations"] = len(events)
    v.cov["distinct_nontrivial"] = len(nontrivial)
    v.cov["traces_validated_against_impl"] = len(runs)
    v.cov["events_validated"] = len(events)
    by_src = {}
    for e in events:
        by_src[e["src"]] = by_src.get(e["src"], 0) + 1
    v.cov["by_source"] = by_src
    stress = [e for e in events if e["ev"] == "Stress"]
    v.cov["stress"] = [{k: e.get(k) for k in ("mode", "writers", "flushes", "loads", "data", "io_err", "parse_err", "panics", "flush_ok", "flush_err")}
                       for e in stress]
    v.cov["optional_classes"] = {n: bool(os.environ.get(n)) and os.environ.get(n) != "0" for n in ("VERIF_ENABLE_PLAINUDP", "VERIF_ENABLE_DIRTYFILE")}
    if mc is not None:
        v.cov["scenarios_replayed"] = len(scen)
        v.cov["scenarios_distinct_api_level"] = n_api
        v.cov["scenarios_maximal"] = n_max
        v.cov["exhaustive"] = len(scen) == n_max
        v.cov["model_actions"] = {a[2:]: t for a, (d, t) in mc.coverage.items() if a.startswith("Do")}
    v.cov["rule"] = ("model: every interleaving of flush steps / API calls / file faults of 2 stores within the operation budgets; one scenario per "
                     "distinct quiescent model state (API-level duplicates and proper prefixes removed%s); a trace = one run of real stores on "
                     "one real file; non-trivial = it contains a flush, write, clean-up, process race or a corrupt file"
                     % (", seeded sample" if mc is not None and len(scen) < n_max else ""))
    v.cov["samples"] = ([{"scenario": s["ops"]} for s in scen[:2]] +
                        [{k: e[k] for k in ("ev", "p", "k", "a", "x", "res", "obs", "src") if k in e} for e in events[len(events) // 2: len(events) // 2 + 2]])
    v.assumptions = ["rename(2) within one directory is atomic on the file system holding /verif/work",
                     "an address is expired / fresh only at >= 1800 s from the expiry edge (I11); in-memory entries are always fresh unless the expiry is zero",
                     "the on-disk side of a merge is what load_cache_data returns (load applies the clean-up the statement excepts)",
                     "limits >= 1; processes do not die except the one writer that hits the file-size limit",
                     "dialable = ip4 + (udp/quic-v1 | tcp [/ws]) + p2p; udp without quic-v1 is generated only with VERIF_ENABLE_PLAINUDP, files "
                     "holding ill-formed addresses or addresses under another peer's key only with VERIF_ENABLE_DIRTYFILE (both off by default)",
                     "an address last seen in the future may be kept or dropped (the statement does not say whether it is expired)"]
    return v.finish()
