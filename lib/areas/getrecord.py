"""C05 -- quorum reads (specs/getrecord, driver drv_getrecord, hooks H4 + H4b)."""
import os
import re
from vcheck import *
from areas.replfetcher import scenarios_from, sim_states
from areas import putrecord_stage as putstage

PROPS = ["C05"]
PACKAGES = ["drv_net"]
META = {
    "C05": {
        "engine": "getrecord", "more_engines": ["putrecord"],
        "level": "model_checking",
        "technique": "TLA+ state machine of the pending-read bookkeeping (GetNetworkRecord de-duplication, reply accumulation, the four terminating events) "
                     "and of the client-side split merge; TLC exhaustive (bounded) + simulation; TLC behaviours and driver-random ones executed on the real SwarmDriver "
                     "with synthetic kad events, the client-side cases on the real Network::get_record_from_network with the harness answering its commands; every "
                     "recorded step judged by TLC with the clause operators, the model run alongside as drift predicate",
        "text": "C05's clauses (QuorumSound, SplitComplete, ExactlyOne, MergeDeterministic) are witness-set operators over the event, the ghost history (who asked for what, which "
                "peer returned which content under which key) and the observed deliveries. TLC evaluates them on every behaviour of the implementation-shaped model within the bounds "
                "(1-2 callers, the second joining at any point with the same or a different cfg or key; replies by up to 5 interchangeable peers in every order with repeats, three content "
                "versions, a foreign key; the four terminating events, late events) and on every small set of versions of the client-side merge under every iteration order of the result "
                "map; the same operators judge each step of the real code: what each caller's oneshot channel delivered after each handled command / kad event, and what "
                "get_record_from_network returned for each split (every iteration order of a real HashMap is presented; the order actually presented is logged). "
                "A second engine (specs/putrecord, lib/areas/putrecord_stage.py) follows the read into its main client: every TLC-simulated call of the put model is run on the real "
                "Network::put_record (commands answered by the harness, or handled by the real SwarmDriver of a node with kad events injected) and clause C05_PutVerifyTarget -- a put verified "
                "against an expected value succeeds only if a value equal to it was read back with the configured quorum -- is the part of it that is a verdict of C05 (the Put_* clauses are reported as SPEC-DEVIATION only).",
        "note": "trusted: TLC; the harness's decoding of returned records back to ids (byte comparison with its universe of real records, own deserialisation); libp2p's kad behaviour "
                "is replaced by synthetic OutboundQueryProgressed events (the SwarmDriver is never polled); retries: the code under test really sleeps its back-off (about 2 s, all retry "
                "cases concurrently), the harness itself never sleeps",
        "design_ref": "5 Area GetRecord",
    }
}

KAD_FIELDS = ("ev", "caller", "key", "quorum", "target", "isreg", "eh", "q", "p", "c", "k")
KAD_EV = ("Call", "Cancel", "Found", "Finished", "NotFound", "QuorumFailed", "Timeout")

# Scenario classes that can be switched OFF by setting the variable to 0 (each failed on the tree before the repairs
# e7b3363 / 72698cf in /repo; they are on by default since).
#   VERIF_ENABLE_C05_CANCEL    callers that drop their receiver while other callers share the query
#   VERIF_ENABLE_C05_FOREIGN   client-side split cases with a register of another base / a foreign owner's scratchpad
#   VERIF_ENABLE_C05_TXNBYTES  byte comparison (not only value comparison) of merged transaction records across runs
def enabled(name):
    return os.environ.get("VERIF_ENABLE_C05_" + name, "1") != "0"



def extra_kf():
    """dev/override: additional known-finding entries (same format as known_findings.json) merged in from
    the file named by VERIF_KF_EXTRA, for testing before the committed list is updated."""
    p = os.environ.get("VERIF_KF_EXTRA")
    if not p:
        return []
    with open(p) as f:
        d = json.load(f)
    items = d.get("findings", d) if isinstance(d, dict) else d
    return [k for k in items if k.get("property") == "C05" and k.get("status") == "known"]


def model_phase(v, w, thorough, scn_path, cases_path):
    mc = tlc("getrecord", "MCGetRecord", "MCGetRecord_thorough.cfg" if thorough else "MCGetRecord.cfg", w,
             env={"CASES": cases_path}, workers=8, timeout=3400)
    v.add_model(mc)
    if mc.violated:
        v.violation("model:" + mc.violated, "the model of the pending-read bookkeeping / split merge falsifies a clause beyond the listed known findings (design-level counterexample)",
                    {"area": "getrecord", "tlc": mc.error_text[:8000]})
    never = [a for a in mc.actions_never_taken() if a.startswith("Do") and a != "DoEnd"]   # (DoCancel is always explored exhaustively)
    if never and not mc.violated:   # (a counterexample stops the exploration early)
        raise ToolError("actions never taken in MCGetRecord: %s" % never)
    sim = tlc("getrecord", "MCGetRecord", "MCGetRecord_sim.cfg", w, workers=1, simulate="num=%d" % (6000 if thorough else 600), depth=16,
              coverage=False, timeout=3000, extra=["-seed", str(seed())])
    if sim.violated:
        v.violation("model:" + sim.violated, "clause falsified on a simulated model behaviour beyond the listed known findings",
                    {"area": "getrecord", "tlc": sim.error_text[-8000:]})
    v.cov["states"] += sim_states(sim)
    v.cov["transitions"] += sim_states(sim)
    write_ndjson(scn_path, scenarios_from(sim))


def run(prop, tier, replay=None):
    v = Verdict(prop, tier, replaying=replay is not None)
    w = workdir(prop)
    thorough = tier == "thorough"
    scn_path = os.path.join(w, "scenarios.ndjson")
    cases_path = os.path.join(w, "cases.ndjson")
    if replay and replay.get("area") == "putrecord":
        build(PACKAGES)
        putstage.putrecord_stage(v, w, thorough, replay)
        return v.finish()
    if replay:
        write_ndjson(scn_path, [replay["scenario"]] if replay.get("scenario") else [])
        write_ndjson(cases_path, [replay["case"]] if replay.get("case") else [])
    else:
        cache = os.path.join(WORK, "cache-C05-scenarios.ndjson")
        ccache = os.path.join(WORK, "cache-C05-cases.ndjson")
        if os.environ.get("VERIF_SKIP_MODEL") == "1" and os.path.exists(cache) and os.path.exists(ccache):   # dev only
            shutil.copy(cache, scn_path)
            shutil.copy(ccache, cases_path)
            v.cov["states"] = v.cov["transitions"] = 1
        else:
            model_phase(v, w, thorough, scn_path, cases_path)
            shutil.copy(scn_path, cache)
            shutil.copy(cases_path, ccache)
    build(PACKAGES)
    trace = os.path.join(w, "trace.ndjson")
    args = ["--scenarios", scn_path, "--cases", cases_path, "--out", trace, "--orders", 24 if thorough else 6,
            "--txnbytes", 1 if enabled("TXNBYTES") else 0]
    if not replay:
        args += ["--random", 3000 if thorough else 300, "--directed", 1, "--cancel", 1 if enabled("CANCEL") else 0]
    run_driver("drv_getrecord", args, w)
    rep = validate_trace("getrecord", "GetRecordTrace", "GetRecordTrace.cfg", trace, w, timeout=3400, heap="6g")
    events = read_ndjson(trace)
    starts = {}
    cur = 0
    for i, e in enumerate(events):
        if e["ev"] == "Reset":
            cur = i
        starts[i] = cur

    def payload_of(line):
        e = events[line - 1]
        if e["ev"] == "SplitCase":
            return {"area": "getrecord", "case": {"kind": "split", "vs": e["vs"], "target": e["target"]}, "event": e}
        if e["ev"] == "ClientRetry":
            return {"area": "getrecord", "case": {"kind": "retry", "ans": e["ans"], "natt": e["natt"]}, "event": e}
        steps = []
        for x in events[starts[line - 1] + 1:line]:
            if x["ev"] not in KAD_EV:
                continue
            steps.append({k: x.get(k, 0) for k in KAD_FIELDS})
        return {"area": "getrecord", "scenario": steps, "event": e}

    def describe(x):
        e = events[x["line"] - 1]
        if e["ev"] == "SplitCase":
            return "client-side split of versions %s (target %s), witness run %s at trace line %d: runs=%s" % (
                e["vs"], e["target"], x["w"], x["line"], [(r["it"], r["o"]["kind"], r["o"]["vk"], r["o"]["vb"], r["o"]["vm"], r["o"]["h"]) for r in e["runs"]][:8])
        if e["ev"] == "ClientRetry":
            return "read with retries at trace line %d: answers=%s natt=%s used=%s outcome=%s" % (x["line"], e["ans"], e["natt"], e["used"], e["o"])
        return "witness caller %s at step %s(q=%s,p=%s,c=%s,k=%s) line %d (src=%s): delivered=%s pending=%s" % (
            x["w"], e["ev"], e["q"], e["p"], e["c"], e["k"], x["line"], e.get("src"),
            [(d["caller"], d["o"]["kind"], d["o"]["e"], d["o"]["cid"], d["o"]["k"], d["o"]["vm"]) for d in e["dl"]], e["pend"])

    for x in rep["violations"]:
        e = events[x["line"] - 1]
        if x["clause"] == "Malformed":
            raise ToolError("malformed trace line %d: %s" % (x["line"], json.dumps(e)[:600]))
        v.violation(x["clause"], describe(x), payload_of(x["line"]))
    kfs = {k["id"]: k for k in kf_for(prop) + extra_kf()}
    for x in rep.get("known", []):
        kf = kfs.get(x["kf"])
        if kf is None:
            v.violation(x["clause"], "matched finding %s is not listed as known in known_findings.json; %s" % (x["kf"], describe(x)), payload_of(x["line"]))
        else:
            v.known_finding(kf, "line %d" % x["line"])
    for ln in rep.get("drift", []):
        e = events[ln - 1]
        v.drift.append({"line": ln, "ev": e["ev"], "what": e.get("what"), "q": e.get("q"), "dl": e.get("dl"), "pend": e.get("pend"),
                        "vs": e.get("vs"), "runs": e.get("runs"), "o": e.get("o")})
    kad = [e for e in events if e["ev"] in KAD_EV]
    client = [e for e in events if e["ev"] in ("SplitCase", "ClientRetry")]
    distinct = set()
    for e in kad:
        if e["dl"] or e["ev"] == "Call":
            distinct.add(json.dumps([e.get(k, 0) for k in KAD_FIELDS] + [e["att"], e["dl"], e["pend"]], sort_keys=True))
    for e in client:
        distinct.add(json.dumps([e.get("vs"), e.get("target"), e.get("ans"), e.get("natt"), e.get("runs"), e.get("o")], sort_keys=True))
    v.cov["evaluations"] = len(kad) + len(client)
    v.cov["distinct_nontrivial"] = len(distinct)
    v.cov["traces_validated_against_impl"] = sum(1 for e in events if e["ev"] == "Reset")
    v.cov["rule"] = ("a case is one step on the real code: a GetNetworkRecord command or synthetic kad event handled by the real SwarmDriver (TLC-simulated behaviour, or driver-random "
                     "behaviour over 23 contents x 8 peers x up to 4 callers), or one get_record_from_network call group (a split presented under every iteration order of the result map, "
                     "or a read with retries); non-trivial = a Call, a step that delivered an outcome, or a client-side case; distinct = distinct (step, arguments, attachment, "
                     "delivered outcomes, pending view) resp. (versions, target, answers, results)")
    first_run = [{k: e.get(k, 0) for k in KAD_FIELDS + ("att", "dl", "pq")} for e in events[1:starts.get(1, 0) + 12] if e["ev"] in KAD_EV][:8]
    v.cov["samples"] = [first_run] + [{k: e[k] for k in ("ev", "vs", "target", "runs")} for e in client if e["ev"] == "SplitCase" and len(e["vs"]) == 3][:2] + \
                       [{k: e[k] for k in ("ev", "ans", "natt", "used", "o")} for e in client if e["ev"] == "ClientRetry" and e["used"] == 2][:1]
    v.cov["impl_stats"] = rep.get("stats")
    v.cov["exhaustive"] = False
    v.assumptions = ["replies reach the handlers as libp2p OutboundQueryProgressed events; libp2p itself (which peers are asked, when it reports Finished / Timeout) is not exercised",
                     ("callers that give up (drop their receiver) while others share their query: scenario class %s (VERIF_ENABLE_C05_CANCEL); the model always explores it" % ("ON" if enabled("CANCEL") else "OFF: callers keep their receiving end until they got an outcome")),
                     ("client-side split cases with a valid register of another base / a validly signed scratchpad of a foreign owner: scenario class %s (VERIF_ENABLE_C05_FOREIGN); "
                      "byte comparison of merged transaction records across runs: %s (VERIF_ENABLE_C05_TXNBYTES); merged registers / scratchpads are always compared byte-wise"
                      % ("ON" if enabled("FOREIGN") else "OFF", "ON" if enabled("TXNBYTES") else "OFF")),
                     "contents: 3 chunks, 6 registers (one unverifiable, R1 in two serialisations, one of another base), 6 scratchpads (equal counters, one forged, one of a foreign owner), 5 transaction records (one undecodable), junk; "
                     "GetRecordCfg.is_register (both values, targets R1 / R1' / R3 / other base / chunk) and expected_holders (none / containing / not containing the replying peers) are varied in simulation, "
                     "in the driver's register_runs and random runs; the exhaustive model run varies is_register of the second caller only",
                     "exhaustive model run: quick = 1 caller with <= 5 replies or 2 callers with <= 3 replies (<= 2 replies and no repeated / foreign-key / late event once a caller has given up), 5 interchangeable peers, 3 contents, <= 1 foreign-key reply, <= 1 repeated reply, <= 1 late event; "
                     "client-side: every version set of size 2-3 (thorough 2-4) under every iteration order; deeper behaviours by TLC simulation and the driver's random generator"]
    # second engine: the put path (put_record's verification read-back against an expected value is a C05 read); VERIF_ENABLE_PUTRECORD=0 switches it off
    if not replay and putstage.enabled():
        putstage.putrecord_stage(v, w, thorough, None)
    return v.finish()
