"""C16 -- token amounts (specs/amount, driver drv_amount)."""
import os
from vcheck import *

PROPS = ["C16"]
META = {
    "C16": {
        "engine": "amount",
        "level": "model_checking",
        "technique": "executable TLA+ specification of decimal amounts (digit-sequence arithmetic); TLC enumerates all short strings/boundary amounts and is the oracle over recorded real calls (trace validation)",
        "text": "TLC checks the laws of the executable specification (Parse(Display(a)) = a, Add/Sub inverse, value bounds) on a bounded-exhaustive "
                "domain and emits that domain as test cases; every real call of Display/FromStr/checked_add/checked_sub on those cases, on boundary "
                "classes around 2^256 and 18 fraction digits and on seeded random 256-bit amounts is judged by the TLA+ operators. All inputs of a "
                "256-bit domain cannot be enumerated; the bounded domain is exhaustive, the rest is sampled per class.",
        "note": "trusted: ruint U256 arithmetic used to convert digit sequences; TLC; the partition of long strings into classes",
        "design_ref": "5 Area Amount",
    }
}
PACKAGES = ["drv_light"]


def run(prop, tier, replay=None):
    v = Verdict(prop, tier, replaying=replay is not None)
    w = workdir(prop)
    thorough = tier == "thorough"
    cases = os.path.join(w, "cases.ndjson")
    # 1. TLC: bounded-exhaustive enumeration + laws of the executable specification itself
    mc = tlc("amount", "MCAmount", "MCAmount_thorough.cfg" if thorough else "MCAmount.cfg", w, env={"CASES": cases},
             workers=8, timeout=3000)
    if mc.violated:
        raise ToolError("the executable specification of C16 is inconsistent (%s):\n%s" % (mc.violated, mc.error_text[:2000]))
    v.add_model(mc)
    # 2. build + drive the real code
    build(PACKAGES)
    trace = os.path.join(w, "trace.ndjson")
    if replay:
        write_ndjson(cases, [replay["case"]])
        run_driver("drv_amount", ["--cases", cases, "--out", trace, "--random", 0, "--only-cases"], w)
    else:
        run_driver("drv_amount", ["--cases", cases, "--out", trace, "--random", 20000 if thorough else 400], w)
    # 3. TLC as the oracle over the recorded calls
    rep = validate_trace("amount", "AmountTrace", "AmountTrace.cfg", trace, w, timeout=3000)
    events = read_ndjson(trace)
    for x in rep["violations"]:
        e = events[x["line"] - 1]
        case = ({"kind": "str", "s": e["s"]} if e["ev"] == "Parse" else
                {"kind": "amt", "d": e["d"]} if e["ev"] in ("Display", "RoundTrip") else
                {"kind": "pair", "a": e["a"], "b": e["b"]})
        v.violation(x["clause"], "%s(%s) -> %s" % (e["ev"], e.get("text", e.get("d", e.get("a"))), json.dumps(e["res"])[:200]),
                    {"area": "amount", "case": case, "event": e})
    seen = set()
    for e in events:
        key = (e["ev"], json.dumps(e.get("s", e.get("d", [e.get("a"), e.get("b")]))))
        seen.add(key)
    v.cov["evaluations"] = len(events)
    v.cov["distinct_nontrivial"] = len(seen)
    v.cov["traces_validated_against_impl"] = 1
    v.cov["events_validated"] = len(events)
    v.cov["rule"] = ("TLC enumerates every string of length <= %d over {0,1,9,'.','_','+','x',' ',LF}, amounts m*10^k for short mantissas "
                     "and boundary exponents, and boundary pairs; the driver adds length/value classes around 2^256 and 18 fraction "
                     "digits, integer parts of up to 378 characters through leading zeros, foreign characters (line ends included) at "
                     "every position, and seeded random 256-bit amounts/pairs/presentations. The printed form must have exactly 18 "
                     "fraction digits. "
                     "A case is one real call (Display, Parse(Display), Parse, checked_add, checked_sub); distinct = distinct (call, argument)."
                     % (5 if thorough else 4))
    v.cov["samples"] = [{k: e[k] for k in e if k in ("ev", "text", "d", "a", "b", "res", "src")} for e in
                        (events[:2] + events[len(events) // 2: len(events) // 2 + 2] + events[-2:])]
    v.cov["exhaustive"] = False
    v.cov["by_source"] = {}
    for e in events:
        v.cov["by_source"][e["src"]] = v.cov["by_source"].get(e["src"], 0) + 1
    v.assumptions = ["ruint U256 mul/add/div used by the driver to convert between digit sequences and Amount are correct",
                     "all strings is decided on: every string <= 4 (thorough 5) chars over an 8-letter alphabet, plus sampled members of the stated classes"]
    return v.finish()
