"""C06 -- register replicas converge and accept only authorised writes
(specs/register, driver drv_register)."""
import hashlib
import os
import random
from vcheck import *

PROPS = ["C06"]
META = {
    "C06": {
        "engine": "register",
        "level": "model_checking",
        "technique": "TLA+ state machine of replicated signed registers (op pool with abstract attributes, add_op / merge / "
                     "verified_merge / verify / read over a Merkle DAG); TLC explores all delivery and merge orders of a bounded "
                     "model and is the oracle (trace validation) over executions of the real SignedRegister/RegisterCrdt with real "
                     "BLS keys",
        "text": "TLC checks the clause operators (merge laws, convergence, authorised entry, closure under verify / verified merge) on every state and "
                "step of a bounded model (3 replicas + hand-made replicas, 7-8 operations of every class, every permission setting, "
                "entry limit scaled to 3) and emits behaviours of the model as scenarios. The driver replays them, and seeded random "
                "histories (3-5 replicas, forged/oversized/foreign-address operations, duplicated and reordered deliveries, "
                "anti-entropy rounds, histories that reach and cross the real limit of 1024 entries with filler operations), on the real "
                "code; TLC evaluates the same clause operators on every recorded call. Replayed scenarios are a sample of the model's "
                "behaviours, not all of them. Every scenario is also probed with tampered copies of authorised operations (content or "
                "parents rewritten, or re-addressed from another register / another owner's register, signature kept) and with the "
                "replica's base register altered (permissions, meta or owner swapped) under the owner's signature over the genuine base; "
                "addresses vary in both halves (meta and owner); the merge laws are evaluated through merge and through verified_merge.",
        "note": "trusted: BLS signatures (an invalid signature is produced by signing other bytes / by another key / by flipping a byte), "
                "the 64-bit DefaultHasher digest that register operations sign is not attacked, TLC, the abstraction of fillers as a count",
        "design_ref": "5 Area Register",
    }
}
PACKAGES = ["drv_light"]

REAL_LIMIT = 1024

# ---------------------------------------------------------------------------------------------
# Known findings: the listed-known set is read from /verif/known_findings.json (status "known" only);
# each has a matcher here that recognises ONE failing pattern on the facts the trace specification
# attaches to a falsified clause. Any other way of falsifying the same clause -- and any recurrence
# of a finding that is listed as fixed (C06-verify-rejects-full-register, C06-foreign-address-op-accepted)
# -- is a VIOLATION.
MATCHERS = {
    # merge / verified_merge never check the entry count of the result: a replica that came to hold MORE than
    # the limit, through an accepted merge, is refused by verify() with TooManyEntries
    "C06-merge-exceeds-entry-limit":
        lambda x: x["clause"] == "C06_Closure" and x["f"]["res"] == "Err:TooManyEntries"
                  and x["f"]["count"] > x["f"]["limit"] and x["f"]["merged"],
}


def known_for(x, listed=None):
    listed = {k["id"]: k for k in kf_for("C06")} if listed is None else listed
    for kid, match in MATCHERS.items():
        if kid not in listed:
            continue
        try:
            if match(x):
                return {"id": kid, "description": listed[kid]["description"]}
        except (KeyError, TypeError):
            pass
    return None


# ---------------------------------------------------------------------------------------------
def load_tlc_scenarios(scn_txt, pool_file, first_id=1):
    """Scenarios written by MCRegister (one TLA+ string literal holding JSON per line) -> driver format."""
    hdr = read_ndjson(pool_file)[0]
    pool = []
    for o in hdr["pool"]:
        o = dict(o)
        o["vlen"] = 1025 if o["big"] else 8
        o["forge"] = 1
        pool.append(o)
    limit = hdr["limit"]
    out, seen = [], set()
    with open(scn_txt) as f:
        for ln in f:
            ln = ln.strip()
            if not ln:
                continue
            s = json.loads(json.loads(ln))
            key = json.dumps(s, sort_keys=True)
            if key in seen:
                continue
            seen.add(key)
            n = len(s["bases"])
            out.append({"id": first_id + len(out), "src": "tlc", "pool": pool, "bases": s["bases"],
                        "nf": [REAL_LIMIT - limit if s["pad"] else 0] * n, "steps": s["steps"], "pad": s["pad"]})
    return out, limit


def finalise(sc):
    """Append the standard closing block to a TLC scenario: value and verification of every replica,
    the merge laws on the final states."""
    n = len(sc["bases"])
    steps = list(sc["steps"])
    for r in range(1, n + 1):
        steps.append({"a": "Read", "r": r})
        # verify() of a padded replica that is not open checks ~1021 signatures (~1.6 s): left to the
        # scenario's own Verify steps
        if not (sc["nf"][r - 1] > 0 and not sc["bases"][r - 1]["open"]):
            steps.append({"a": "Verify", "r": r})
    padded = sc["nf"][0] > 0       # every law instance clones and projects ~1021 fillers: fewer instances
    for (a, b) in ((1, 2),) if padded else ((1, 2), (1, 3), (2, 3)):
        steps.append({"a": "Law", "k": "comm", "p": a, "q": b, "t": 1, "vm": False})
    for (a, b, c) in ((3, 1, 2),) if padded else ((1, 2, 3), (3, 1, 2)):
        steps.append({"a": "Law", "k": "assoc", "p": a, "q": b, "t": c, "vm": False})
    for a in (n,) if padded else range(1, n + 1):
        steps.append({"a": "Law", "k": "idem", "p": a, "q": 1, "t": 1, "vm": False})
    # the same laws through verified_merge (not on padded replicas that are not open: each verified merge there
    # checks ~1021 signatures)
    # (every second scenario: a verified merge checks one signature per operation of its source)
    if not is_heavy(sc) and sc["id"] % 2 == 0:
        steps.append({"a": "Law", "k": "comm", "p": 1, "q": 2, "t": 1, "vm": True})
        if not padded:
            steps.append({"a": "Law", "k": "assoc", "p": 3, "q": 1, "t": 2, "vm": True})
        steps.append({"a": "Law", "k": "idem", "p": 2 if padded else n, "q": 1, "t": 1, "vm": True})
    sc = dict(sc)
    sc["steps"] = steps
    return sc


def scn_hash(sc):
    return hashlib.sha256(json.dumps({k: sc[k] for k in ("pool", "bases", "nf", "steps")}, sort_keys=True).encode()).hexdigest()[:16]


def is_heavy(sc):
    """padded and not open: verify() checks ~1021 BLS signatures (~1.6 s)"""
    return any(nf > 0 and not b["open"] for nf, b in zip(sc["nf"], sc["bases"]))


def heavy_cost(sc):
    return sum(1 for st in sc["steps"] if st["a"] in ("Verify", "VerifiedMerge", "VerifiedMergeCrafted"))


def select(scs, rnd, n_plain, n_padded, n_heavy):
    plain = [s for s in scs if not s["pad"]]
    padded = [s for s in scs if s["pad"] and not is_heavy(s)]
    heavy = sorted([s for s in scs if s["pad"] and is_heavy(s) and heavy_cost(s) <= 3], key=heavy_cost)
    for x in (plain, padded):
        rnd.shuffle(x)
    # heavy: cheapest first, but a mix of base settings
    return plain[:n_plain] + padded[:n_padded] + heavy[:n_heavy]


def action_coverage(r):
    cov = {}
    for m in re.finditer(r"^<(\w+) line \d+, col \d+ to line \d+, col \d+ of module Register[^>]*>: (\d+):(\d+)", r.output, re.M):
        cov[m.group(1)] = (int(m.group(2)), int(m.group(3)))
    return cov


MODEL_ACTIONS = ["AddOp", "Merge", "VerifiedMerge", "VerifiedMergeCrafted", "Verify", "Read"]


def validate_one(trace_path, work, timeout=3000):
    """Run RegisterTrace over one trace file. The specification appends its findings to IOEnv.OUT as
    it goes (TLA+ string literals holding JSON) and ends with a summary line."""
    out_path = os.path.join(work, "verdict.txt")
    if os.path.exists(out_path):
        os.remove(out_path)
    r = tlc("register", "RegisterTrace", "RegisterTrace.cfg", work, env={"TRACE": trace_path, "OUT": out_path},
            workers=1, dfs=True, coverage=False, timeout=timeout, heap="6g")
    if r.violated:
        raise ToolError("trace specification reported %s (it must never fail):\n%s" % (r.violated, r.error_text[:3000]))
    if not os.path.exists(out_path):
        raise ToolError("trace specification wrote no report for %s\n%s" % (trace_path, r.output[-3000:]))
    rep = {"violations": [], "drift": [], "ntruns": [], "lines": None, "stat": {}}
    with open(out_path) as f:
        for ln in f:
            ln = ln.strip()
            if not ln:
                continue
            x = json.loads(json.loads(ln))
            if x["k"] == "viol":
                rep["violations"].append({"clause": x["clause"], "line": x["line"], "f": x["f"]})
            elif x["k"] == "drift":
                rep["drift"].append({"what": x["what"], "line": x["line"]})
            elif x["k"] == "nt":
                rep["ntruns"].append(x["run"])
            elif x["k"] == "end":
                rep["lines"], rep["stat"] = x["lines"], x["stat"]
                if x["nviol"] != len(rep["violations"]) or x["ndrift"] != len(rep["drift"]):
                    raise ToolError("trace specification report is inconsistent: %s violations counted, %s written"
                                    % (x["nviol"], len(rep["violations"])))
    n = sum(1 for ln in open(trace_path) if ln.strip())
    if rep["lines"] != n:
        raise ToolError("trace specification consumed %s of %s lines of %s" % (rep["lines"], n, trace_path))
    return rep


def validate_chunks(trace, w, jobs=4):
    """Split the trace at scenario boundaries and validate the chunks in parallel JVMs; line numbers of
    the reports are mapped back to the whole trace."""
    from concurrent.futures import ThreadPoolExecutor
    lines = [ln for ln in open(trace) if ln.strip()]
    starts = [i for i, ln in enumerate(lines) if '"ev":"Reset"' in ln]
    if not starts:
        raise ToolError("trace has no Reset event")
    per = max(1, (len(lines) + jobs - 1) // jobs)
    cuts, nxt = [0], per
    for s in starts:
        if s >= nxt:
            cuts.append(s)
            nxt = s + per
    cuts.append(len(lines))
    parts = []
    for i in range(len(cuts) - 1):
        p = os.path.join(w, "trace-part%d.ndjson" % i)
        with open(p, "w") as f:
            f.writelines(lines[cuts[i]:cuts[i + 1]])
        parts.append((p, cuts[i]))

    def one(a):
        p, off = a
        d = os.path.join(w, "val-" + os.path.basename(p))
        os.makedirs(d, exist_ok=True)
        rep = validate_one(p, d)
        for x in rep["violations"] + rep["drift"]:
            x["line"] += off
        return rep
    with ThreadPoolExecutor(max_workers=jobs) as ex:
        reps = list(ex.map(one, parts))
    out = {"lines": sum(r["lines"] for r in reps), "violations": [], "drift": [], "ntruns": [], "stat": {}}
    for r in reps:
        out["violations"] += r["violations"]
        out["drift"] += r["drift"]
        out["ntruns"] += r["ntruns"]
        for c, s in r["stat"].items():
            t = out["stat"].setdefault(c, {"n": 0, "nt": 0})
            t["n"] += s["n"]
            t["nt"] += s["nt"]
    out["violations"].sort(key=lambda x: x["line"])
    out["drift"].sort(key=lambda x: x["line"])
    return out


def describe(e):
    a = {k: e[k] for k in ("r", "s", "o", "cs", "sig", "k", "a", "b", "c", "vm", "kind") if k in e}
    return "%s(%s) -> %s" % (e["ev"], ",".join("%s=%s" % kv for kv in a.items()), e.get("res", ""))


def compact(sc):
    return {"src": sc["src"], "bases": sc["bases"], "nf": sc["nf"], "pool_size": len(sc["pool"]),
            "steps": [{k: v for k, v in st.items()} for st in sc["steps"][:12]], "n_steps": len(sc["steps"])}


def run(prop, tier, replay=None):
    v = Verdict(prop, tier, replaying=replay is not None)
    w = workdir(prop)
    thorough = tier == "thorough"
    rnd = random.Random(seed())
    scen_file = os.path.join(w, "scenarios.ndjson")
    trace = os.path.join(w, "trace.ndjson")
    act_cov = {}
    phases = {}
    t_ph = [time.time()]

    def phase(name):
        phases[name] = round(time.time() - t_ph[0], 1)
        t_ph[0] = time.time()
        if thorough:
            log("%s   %s done in %.0fs" % (prop, name, phases[name]))
    if replay:
        scs = [replay["scenario"]]
    else:
        # 1. TLC: every state / step of the bounded model against the clauses (modulo the known findings)
        #    quick: 3 replicas, 7 operations, 5 calls deep; thorough: 3 replicas / 8 operations / more hand-made replicas,
        #    and 4 replicas / 8 operations, one call deeper each
        for cfg in (("MCRegister_thorough.cfg", "MCRegister_thorough4.cfg") if thorough else ("MCRegister.cfg",)):
            mc = tlc("register", "MCRegister", cfg, w, workers=8, coverage=False, timeout=3000, heap="16g" if thorough else "8g")
            if mc.violated:
                raise ToolError("a C06 clause (modulo known findings) is false in the model itself (%s, %s) -- the model no longer "
                                "describes the design that was confirmed on the code; model counterexample:\n%s"
                                % (cfg, mc.violated, mc.error_text[:3000]))
            v.add_model(mc)
            v.cov.setdefault("model_runs", []).append({"cfg": cfg, "distinct": mc.distinct, "generated": mc.generated,
                                                      "depth": mc.depth, "wall_s": round(mc.wall, 1)})
        phase("tlc_model")
        # per-action coverage (TLC's coverage statistics slow the exploration ~20x: separate shallow run)
        cv = tlc("register", "MCRegister", "MCRegister_cov.cfg", w, workers=4, coverage=True, timeout=1200)
        act_cov = action_coverage(cv)
        missing = [a for a in MODEL_ACTIONS if act_cov.get(a, (0, 0))[1] == 0]
        if cv.violated or missing:
            raise ToolError("coverage run: violated=%s, actions never taken: %s" % (cv.violated, missing))
        # the unmasked closure clause must fail in the model (the known finding is design-level); the
        # counterexamples are replayed on the code with the other scenarios
        cex_file = os.path.join(w, "cex.txt")
        pool_file = os.path.join(w, "pool.ndjson")
        for cfg, inv in (("MCRegister_raw_closure.cfg", "ClosureRaw"),):
            r = tlc("register", "MCRegister", cfg, w, env={"CEX": cex_file, "POOL": pool_file}, workers=2, coverage=False, timeout=1200)
            if r.violated != inv:
                v.drift.append({"what": "model", "detail": "%s: expected TLC to report %s in the model, got %s" % (cfg, inv, r.violated)})
        phase("tlc_coverage_and_raw")
        cex, _ = load_tlc_scenarios(cex_file, pool_file) if os.path.exists(cex_file) else ([], 3)
        cex = [s for s in cex if not is_heavy(s)][:6] or cex[:2]
        for s in cex:
            s["src"] = "tlc-cex"
        # 2. behaviours of the model as scenarios
        scn_txt = os.path.join(w, "scn.txt")
        sim = tlc("register", "MCRegister", "MCRegister_sim_thorough.cfg" if thorough else "MCRegister_sim.cfg", w,
                  env={"SCN": scn_txt, "POOL": pool_file}, workers=1, coverage=False,
                  simulate="num=%d" % (40000 if thorough else 6000), depth=20, extra=["-seed", str(seed())], timeout=3000)
        if sim.violated or not os.path.exists(scn_txt):
            raise ToolError("scenario generation failed: %s\n%s" % (sim.violated, sim.output[-2000:]))
        phase("tlc_simulate")
        tlc_scs, limit = load_tlc_scenarios(scn_txt, pool_file)
        n_generated = len(tlc_scs)
        chosen = select(tlc_scs, rnd, *((12000, 1800, 60) if thorough else (1100, 160, 4)))
        scs = [finalise(s) for s in cex + chosen]
        # 3. seeded random histories (data only; generated by the driver binary without touching the code under test)
        build(PACKAGES)
        phase("build")
        rnd_file = os.path.join(w, "random.ndjson")
        n_rand, n_limit, n_heavy = (1200, 240, 20) if thorough else (70, 16, 1)
        run_driver("drv_register", ["--gen", n_rand, "--limit-runs", n_limit, "--heavy-runs", n_heavy, "--out", rnd_file], w)
        scs += read_ndjson(rnd_file)
        for i, s in enumerate(scs):
            s["id"] = i + 1
    write_ndjson(scen_file, scs)
    if replay:
        build(PACKAGES)
    # 4. the real code
    p = run_driver("drv_register", ["--run", scen_file, "--out", trace, "--threads", 8], w, timeout=6000)
    phase("driver")
    # 5. TLC as the oracle over the recorded calls
    rep = validate_chunks(trace, w, jobs=1 if replay else (8 if thorough else 4))
    phase("trace_validation")
    events = read_ndjson(trace)
    if rep["lines"] != len(events):
        raise ToolError("trace specification consumed %d of %d lines" % (rep["lines"], len(events)))
    by_run = {s["id"]: s for s in scs}
    run_of = {}
    for e in events:
        if e["ev"] == "Reset":
            run_of[e["run"]] = by_run[e["scn"]]
    malformed = [x for x in rep["violations"] if x["clause"] == "Malformed"]

    def foreign_ops(e):
        """A replica holds an operation the driver cannot identify (op id 0): every operation a replica of this run may hold was
        made by the driver for the run's registers, so an unknown one entered from ANOTHER register (e.g. through a merge that
        should have been refused as DifferentBaseRegister)."""
        obs = [e.get("obs"), e.get("x"), e.get("y")] + (e.get("obs") if isinstance(e.get("obs"), list) else [])
        return any(isinstance(o, dict) and 0 in (o.get("ops") or []) + (o.get("read") or []) for o in obs)
    hard = [x for x in malformed if not foreign_ops(events[x["line"] - 1])]
    if hard:
        raise ToolError("malformed trace event at line %d: %s" % (hard[0]["line"], json.dumps(events[hard[0]["line"] - 1])[:600]))
    if malformed:
        x = malformed[0]
        e = events[x["line"] - 1]
        v.violation("C06_AuthorisedAdd", "a replica holds operations that were never made for its register (they entered from a register of another "
                    "address: 'operations ... against a different base register are rejected') at %s, %d such events" % (describe(e), len(malformed)),
                    {"area": "register", "scenario": run_of[e["run"]], "event": {k: e[k] for k in e if k not in ("x", "y", "obs", "crdt")}})
        rep["violations"] = [y for y in rep["violations"] if y["clause"] != "Malformed"]
    reported = set()
    listed = {k["id"]: k for k in kf_for(prop)}
    for x in rep["violations"]:
        e = events[x["line"] - 1]
        sc = run_of[e["run"]]
        kf = known_for(x, listed)
        what = "%s false at %s (scenario %s/%s, seq %s) facts=%s" % (x["clause"], describe(e), sc["src"], sc["id"], e["seq"],
                                                                   json.dumps({k: x["f"][k] for k in x["f"] if x["f"][k] not in ("", 0, [], False)}))
        # a replay applies the same masks, unless the file is the kept demonstration of a known finding
        if kf and not (replay and replay.get("show_known")):
            v.known_finding(kf, what)
            continue
        if (x["clause"], e["run"]) in reported:
            continue                       # one report per clause and scenario
        reported.add((x["clause"], e["run"]))
        # cut the scenario after the failing call so that the replay is short
        k = e["seq"]
        short = dict(sc)
        short["steps"] = sc["steps"][:k]
        v.violation(x["clause"], what + (" [matches known finding %s]" % kf["id"] if kf else ""),
                    {"area": "register", "scenario": short, "event": e, "facts": x["f"], "line": x["line"]})
    for d in rep["drift"]:
        e = events[d["line"] - 1]
        v.drift.append({"what": d["what"], "event": describe(e), "scenario": run_of[e["run"]]["id"], "src": e["src"]})
    # ---- evidence, measured from the trace
    nt_runs = set(rep["ntruns"])
    hashes = {scn_hash(s) for r, s in run_of.items() if r in nt_runs}
    v.cov["evaluations"] = sum(s["n"] for s in rep["stat"].values())
    v.cov["distinct_nontrivial"] = len(hashes)
    v.cov["traces_validated_against_impl"] = len(run_of)
    v.cov["events_validated"] = len(events)
    v.cov["clause_evaluations"] = rep["stat"]
    v.cov["rule"] = ("an evaluation is one clause operator applied to one recorded call (or pair of replica states); it is non-trivial when "
                     "its antecedent is exercised: an invalid operation was delivered or something entered (Authorised*), a replica was "
                     "verified (Closure), two replicas of the same base had been given the same non-empty operation set (Converge), all "
                     "merges of a law instance succeeded on non-empty replicas (Merge*). distinct_nontrivial = distinct scenarios "
                     "(hash of pool, bases, fillers, steps) with at least one non-trivial evaluation.")
    by_src = {}
    for s in run_of.values():
        by_src[s["src"]] = by_src.get(s["src"], 0) + 1
    v.cov["by_source"] = by_src
    ev_kinds = {}
    for e in events:
        ev_kinds[e["ev"]] = ev_kinds.get(e["ev"], 0) + 1
    v.cov["events_by_kind"] = ev_kinds
    v.cov["limit_reached_runs"] = len({e["run"] for e in events if e.get("res") == "Err:TooManyEntries" or (e["ev"] != "Reset" and e.get("obs", {}).get("ver") == "Err:TooManyEntries")})
    v.cov["samples"] = [compact(s) for s in (scs[:1] + scs[len(scs) // 2: len(scs) // 2 + 1] + scs[-1:])]
    v.cov["exhaustive"] = False
    v.cov["phase_wall_s"] = phases
    log("%s phases: %s" % (prop, phases))
    if not replay:
        v.cov["tlc_action_coverage"] = {a: list(act_cov[a]) for a in MODEL_ACTIONS}
        v.cov["tlc_scenarios_generated"] = n_generated
        missing = [a for a in MODEL_ACTIONS + ["Law", "Tampered", "BaseProbe"] if ev_kinds.get(a, 0) == 0]
        laws_vm = {}
        for e in events:
            if e["ev"] == "Law" and e.get("vm"):
                laws_vm[e["k"]] = laws_vm.get(e["k"], 0) + 1
        v.cov["laws_through_verified_merge"] = laws_vm
        missing += ["Law/%s/vm" % k for k in ("comm", "assoc", "idem") if laws_vm.get(k, 0) == 0]
        probes = {}
        for e in events:
            if e["ev"] in ("Tampered", "BaseProbe"):
                probes["%s/%s" % (e["ev"], e["kind"])] = probes.get("%s/%s" % (e["ev"], e["kind"]), 0) + 1
        v.cov["probes_by_kind"] = probes
        missing += [k for k in ("Tampered/readdress", "Tampered/readdress_owner", "BaseProbe/perms_add", "BaseProbe/meta", "BaseProbe/owner")
                    if probes.get(k, 0) == 0]
        v.cov["foreign_owner_bases"] = sum(1 for s in run_of.values() if any(b["addr"] == 3 for b in s["bases"]))
        if missing:
            raise ToolError("actions never exercised on the real code: %s" % missing)
    v.assumptions = [
        "unverified merge() is only ever given honest replicas as its source (its documentation says it does not verify); "
        "hand-made replicas are only presented through verified_merge()",
        "'received' in the convergence clause = delivered and accepted (an operation refused with TooManyEntries was not received)",
        "a base register is 'owner-signed' only when the signature presented with it is the owner's signature over exactly its bytes (address and "
        "permissions); the altered bases probed are the replica's genuine base with permissions, meta or owner swapped, signature kept",
        "the model is explored exhaustively to a bounded depth; the scenarios replayed on the code are a seeded sample of the "
        "model's behaviours plus seeded random histories (exhaustive=false)",
        "closure: a state must pass verify() and be accepted as the source of a verified_merge by every replica of the register whose "
        "merged result fits the entry-count limit (refusing a merge that would not fit is not a verdict on the source's validity)",
        "fillers (valid root operations of the owner) stand for the 1021 entries that separate the scaled limit 3 from the real limit 1024",
    ]
    return v.finish()
