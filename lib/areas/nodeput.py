"""C03 / C04 / C07 -- acceptance of records by a node (specs/nodeput, driver drv_node, hooks H4 H4b H5)."""
import os
from vcheck import *
from areas.replfetcher import scenarios_from

PROPS = ["C03", "C04", "C07"]
PACKAGES = ["drv_net"]
_note = ("trusted: TLC; the driver's construction of real records from abstract attributes (real ed25519/BLS signatures, real msgpack encodings) and its decoding of stored content; "
         "the payment contract is a local JSON-RPC stub answering verifyPayment with per-quote verdicts (or failing: JSON-RPC error, HTTP 500, empty / short result, closed socket) and recording the calldata it receives, which is compared with the quote hashes (own Keccak-256), metrics words and rewards addresses the driver computes from the proof; every store command is served at once and disk writes are settled before the next delivery (sequential semantics)")
META = {
    "C03": {"engine": "nodeput", "level": "model_checking",
            "technique": "executable TLA+ specification of the admission rules; TLC enumerates every combination of the six payment conditions x kind x key x held and is the oracle over deliveries executed on the real node (trace validation)",
            "text": "TLC enumerates all 4 paid kinds x 2^6 payment-condition vectors x key ok/other x held/not held, all unpaid kinds on both paths, and all parse classes; each case is executed on the real node "
                    "(real quotes signed by real keys, each with its own metrics and rewards address; payee closeness through the real routing table incl. the 19th / 20th / 21st closest peer; expiry through signed timestamps; "
                    "on-chain verdict per quote through the contract stub, incl. a failing contract) and the C03 clauses are evaluated by TLC on result + store delta + the calldata the contract received. "
                    "One-condition-at-a-time variants put the failing quote / this node's quote at every position, list a payee twice, carry two quotes of this node, or 1 / 2 / 4 / 5 quotes; "
                    "a subset also enters through RecordStore::put and is validated from the emitted event.",
            "note": _note, "design_ref": "5 Area NodePut"},
    "C04": {"engine": "nodeput", "level": "model_checking",
            "technique": "same enumeration; clauses StoredUnderDerivedKey / MismatchRejected / NotReadableBeforeValidation (size limit probed at MAX_PACKET_SIZE - 1 and MAX_PACKET_SIZE) / UnparseableRefused / ValidatesPresentedRecord; derived keys recomputed by the driver",
            "text": "Every kind x path (client put, unpaid update, replication, raw kad put) x key ok/other x held x parse class is delivered to the real node; the key under which anything is stored is compared with the key the driver derives from the stored bytes itself.",
            "note": _note, "design_ref": "5 Area NodePut"},
    "C07": {"engine": "nodeput", "level": "model_checking",
            "technique": "TLA+ model of per-address content evolution (Allowed); TLC explores every sequence of deliveries from the pools for one address and checks monotonicity/growth on the model; the sequences are replayed on the real node and judged by the same operators",
            "text": "All sequences (quick: length 2, thorough: length 3) over pools of scratchpad (counters 1..3, valid / foreign-signed / counter-bumped), transaction-set and register variants on the paid, unpaid and replication paths for one address are run on the real node; "
                    "after each delivery the stored content must be one the model allows, pads never regress, sets only grow, nothing invalid is stored. Two deliveries processed concurrently: all interleavings of their read/write sections are model-checked and replayed on the real node (lost updates = listed known finding).",
            "note": _note + "; concurrent processing: every interleaving of the read / write sections of two replicated deliveries for one address (NodePutConc)", "design_ref": "5 Area NodePut"},
}
PREFIX = {"C03": ("C03_",), "C04": ("C04_",), "C07": ("C07_",)}


def plain_pay(d):
    """the delivery's proof has the plain layout (three payees, own quote first, contract all-valid / all-invalid)"""
    p = d.get("pay")
    return not isinstance(p, dict) or (p.get("mode", "ok") in ("ok", "allBad") and p.get("pos", "std") == "std" and p.get("shape", "std") == "std"
                                       and p.get("edge", "std") == "std" and p.get("selfIdx", 0) == 0)


def concurrent_part(v, w):
    """Two deliveries for one address processed concurrently: every interleaving of their read / write sections."""
    scns = []
    for fam in ("pad", "txs", "reg"):
        mc = tlc("nodeput", "NodePutConc", "NodePutConc_%s.cfg" % fam, w, workers=4, timeout=900)
        v.add_model(mc)
        if mc.violated:
            v.violation("model:" + mc.violated, "concurrent processing breaks C07 beyond the listed known finding", {"area": "nodeput", "tlc": mc.error_text[:4000]})
        neg = tlc("nodeput", "NodePutConc", "NodePutConc_%s_neg.cfg" % fam, w, workers=4, timeout=900)
        if not neg.violated:
            raise ToolError("known finding C07-concurrent-read-check-write is no longer present in the model (%s)" % fam)
        scns += scenarios_from(mc)
    sp = os.path.join(w, "conc_scenarios.ndjson")
    write_ndjson(sp, scns)
    trace = os.path.join(w, "conc_trace.ndjson")
    run_driver("drv_node", ["--scenarios", sp, "--out", trace, "--work", os.path.join(w, "node_conc")], w, timeout=1800)
    rep = validate_trace("nodeput", "NodePutConcTrace", "NodePutConcTrace.cfg", trace, w, timeout=1800)
    events = read_ndjson(trace)
    kfs = {k["id"]: k for k in kf_for("C07")}
    conc = [e for e in events if e["ev"] == "Concurrent"]
    for x in rep["violations"]:
        e = events[x["line"] - 1]
        v.violation(x["clause"], "concurrent deliveries %s / %s, sections %s -> %s" % (json.dumps(e["a"])[:120], json.dumps(e["b"])[:120], e["executed"], e["after"]),
                    {"area": "nodeput", "scenario": {"family": e["family"], "a": e["a"], "b": e["b"], "schedule": e["schedule"]}, "event": e})
    for x in rep.get("known", []):
        kf = kfs.get(x["kf"])
        if kf is None:
            e = events[x["line"] - 1]
            v.violation(x["clause"], "matched finding %s is not listed as known" % x["kf"], {"area": "nodeput", "scenario": {"family": e["family"], "a": e["a"], "b": e["b"], "schedule": e["schedule"]}})
        else:
            v.known_finding(kf, "line %d" % x["line"])
    v.cov["concurrent_interleavings_replayed"] = len(conc)


def run(prop, tier, replay=None):
    v = Verdict(prop, tier, replaying=replay is not None)
    w = workdir(prop)
    thorough = tier == "thorough"
    scn_path = os.path.join(w, "scenarios.ndjson")
    if replay and isinstance(replay.get("scenario"), dict):
        sp = os.path.join(w, "conc_scenarios.ndjson")
        write_ndjson(sp, [replay["scenario"]])
        trace = os.path.join(w, "conc_trace.ndjson")
        build(PACKAGES)
        run_driver("drv_node", ["--scenarios", sp, "--out", trace, "--work", os.path.join(w, "node_conc")], w, timeout=1800)
        rep = validate_trace("nodeput", "NodePutConcTrace", "NodePutConcTrace.cfg", trace, w, timeout=1800)
        for x in rep["violations"] + rep.get("known", []):
            v.violation(x["clause"], "replayed concurrent scenario", {})
        return v.finish()
    if replay:
        write_ndjson(scn_path, [replay["scenario"]])
    else:
        cases = os.path.join(w, "cases.ndjson")
        mc = tlc("nodeput", "MCNodePut", "MCNodePut_thorough.cfg" if thorough else "MCNodePut.cfg", w, env={"CASES": cases}, workers=8, timeout=3400)
        v.add_model(mc)
        if mc.violated:
            v.violation("model:" + mc.violated, "the model of content evolution falsifies a C07 statement", {"area": "nodeput", "tlc": mc.error_text[:6000]})
        seqs = scenarios_from(mc)
        singles = read_ndjson(cases)
        if prop == "C07":
            # every sequence twice: disk work settled between deliveries, and parked until the end (lagging index)
            gated = [[dict(d, gated=True) for d in q] for q in seqs]
            scns = seqs + gated + [s for s in singles if s[-1]["kind"].startswith(("Scratchpad", "Transaction", "Register")) and s[-1]["parse"] == "ok" and plain_pay(s[-1])]
        elif prop == "C04":
            # the proof-layout variants (position of the failing quote, contract answers, proof shapes) belong to C03
            scns = [s for s in singles if plain_pay(s[-1])] + seqs[:: (1 if thorough else 7)]
        else:
            scns = singles + seqs[:: (1 if thorough else 7)]
        write_ndjson(scn_path, scns)
    build(PACKAGES)
    trace = os.path.join(w, "trace.ndjson")
    run_driver("drv_node", ["--scenarios", scn_path, "--out", trace, "--work", os.path.join(w, "node")], w, timeout=3400)
    rep = validate_trace("nodeput", "NodePutTrace", "NodePutTrace.cfg", trace, w, timeout=3400, heap="6g")
    events = read_ndjson(trace)
    starts = {}
    cur = 0
    for i, e in enumerate(events):
        if e["ev"] == "Reset":
            cur = i
        starts[i] = cur

    def scenario_of(line):
        return [e["spec"] for e in events[starts[line - 1] + 1:line] if e["ev"] == "Deliver"]

    for x in rep["violations"]:
        e = events[x["line"] - 1]
        if x["clause"] == "Malformed":
            raise ToolError("malformed trace line %d: %s" % (x["line"], json.dumps(e)[:500]))
        if not x["clause"].startswith(PREFIX[prop]):
            continue
        if e["ev"] == "Settled":
            v.violation(x["clause"], "after the parked disk work of the sequence ran, the node holds %s (listed=%s) instead of what it held after the last delivery" % (e["aAfterD"], e["listed"]),
                        {"area": "nodeput", "scenario": scenario_of(x["line"]), "event": e})
            continue
        v.violation(x["clause"], "delivery %s at line %d: res=%s beforeD=%s afterD=%s afterP=%s gained=%s derivedOK=%s contentOK=%s unverified=%s" % (
            json.dumps(e["d"]), x["line"], e["res"], e["aBeforeD"], e["aAfterD"], e["aAfterP"], e["gained"], e["derivedOK"], e["contentOK"], e["unverified"]),
            {"area": "nodeput", "scenario": scenario_of(x["line"]), "event": {k: e[k] for k in e if k != "spec"}})
    if prop == "C07" and not replay:
        concurrent_part(v, w)
    dl = [e for e in events if e["ev"] == "Deliver"]
    for e in dl:
        if e.get("undecodable"):
            raise ToolError("the contract stub could not decode the calldata of %d eth_call(s) as verifyPayment(PaymentVerification[]): %s" % (e["undecodable"], json.dumps(e["d"])[:300]))
    if prop == "C04":
        # not demanded by the statement (it only says what must NOT get in): a record one byte below the store's size
        # limit, or a parseable one for a key not held, is expected to be forwarded for validation exactly once
        for e in dl:
            d = e["d"]
            if (d["path"] == "kadput" or e.get("viaKad")) and not d["heldIdx"] and d["parse"] in ("ok", "maxm1") and e["unverified"] != 1:
                v.drift.append({"what": "RecordStore::put did not forward a record it does not hold for validation", "d": d, "res": e["res"], "unverified": e["unverified"]})
    relevant = [e for e in dl if (prop != "C03" or e["d"]["path"] == "client")]
    v.cov["evaluations"] = len(dl)
    v.cov["distinct_nontrivial"] = len(set(json.dumps([e["d"], e["aBeforeD"]], sort_keys=True) for e in relevant))
    v.cov["traces_validated_against_impl"] = sum(1 for e in events if e["ev"] == "Reset")
    v.cov["rule"] = ("a case is one delivery to the real node inside a scenario (TLC-enumerated single cases with optional set-up upload, and TLC-explored sequences for one address); "
                     "distinct = distinct (delivery attributes, content held before); all are non-trivial (each exercises an admission decision)")
    v.cov["samples"] = [{"d": e["d"], "res": e["res"], "beforeD": e["aBeforeD"], "afterD": e["aAfterD"], "gained": e["gained"]} for e in dl[:2] + dl[len(dl) // 2:len(dl) // 2 + 2]]
    v.cov["impl_stats"] = rep.get("stats")
    v.cov["contract_calls"] = sum(e["contractCalls"] for e in dl)
    v.cov["contract_calls_compared_with_proof"] = sum(len(e.get("calls", [])) for e in dl)
    v.cov["proof_layouts"] = len(set(json.dumps({k: e["d"]["pay"].get(k) for k in ("mode", "pos", "selfIdx", "shape", "edge")}, sort_keys=True) for e in dl if not e["d"]["pay"].get("none")))
    v.cov["via_kad_then_validate"] = sum(1 for e in dl if e.get("viaKad"))
    v.cov["exhaustive"] = not replay and prop in ("C03", "C04")
    v.assumptions = ["abstract attributes are realised by a few concrete constructions each (a forged quote = signed by another key, or another node's self-consistent quote under the claimed name; an expired quote = 3700 s old; "
                     "a far payee = a peer absent from the routing table, a known peer far away, or the 20th / 21st closest known peer), placed at the own / first other / last other quote of the proof",
                     "'confirmed by the payment contract' = every result verifyPayment returns is valid (see NodePut.tla PayBad); cases the statement leaves open (another payee's quote invalid, own quote valid with amount 0, proofs with 1/2/4/5 quotes) accept either outcome",
                     "deliveries are processed one at a time; concurrent validations of the same key are outside this check",
                     "the contract stub answers verifyPayment as prescribed; evmlib's ABI/HTTP client code is exercised for real"]
    return v.finish()
