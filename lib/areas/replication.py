"""C09 -- replication between neighbouring nodes (specs/replication, driver drv_repl, hooks H4 H4b H4c H5)."""
import os
from vcheck import *
from areas.replfetcher import scenarios_from

PROPS = ["C09"]
PACKAGES = ["drv_net", "drv_peers"]
META = {"C09": {
    "engine": "replication", "more_engines": ["network", "peers"], "level": "model_checking",
    "technique": "TLA+ model of periodic replication between 2-3 nodes over the per-address version lattice; TLC explores every divergence pattern and round order; each behaviour is replayed on real nodes wired in-process and validated by TLC (clauses + model as drift predicate)",
    "text": "Every initial divergence of one address (chunk / scratchpad versions / transaction sets / register op sets) between 2 (thorough: 3) neighbours and every order of the nodes' replication rounds is executed on REAL nodes: "
            "TriggerIntervalReplication, the Replicate handler with its closest-peers check, the replication fetcher, GetReplicatedRecord through handle_query and store_replicated_in_record all run unmodified; the harness only carries messages. "
            "AcceptHeld/NoRegress/AdvertiseAll are judged per round, OnlyFromClose on spoofed advertisements (holder = receiver itself / unknown peer), Converge after two full cycles. "
            "Second engine (specs/network): the composed network model -- per node the store content of up to 3 addresses + the fetcher model of C08 (INSTANCE ReplFetcher), between the nodes a BAG of "
            "advertisement / fetch-request / answer messages delivered in ANY order or lost, fetch deadlines passing -- is model-checked exhaustively for 2 nodes and simulated for 3; every simulated "
            "behaviour is replayed message by message on real nodes (drv_netw) and judged by NetworkTrace (AcceptHeld, NoRegress, ServeHeld, AdvertiseAll per step; Converge after Settle + two clean cycles). "
            "Third engine (specs/peers): the bad-node accounting that decides which peers stay among a node's closest (issues within 300 s, 10 s gap, three of a kind, removal from the routing table, "
            "told once, block list after the answer) is model-checked and its simulated behaviours are replayed on a real node (RecordNodeIssue handler, hook H10 for time); for C09 it judges that an "
            "advertisement of a peer considered bad starts no fetch, its other clauses are reported as SPEC-DEVIATION only.",
    "note": "trusted: TLC; the harness transport (delivers every message, in order); replication throttles are reset through hook H4c instead of waiting 30-45 s; nodes have unset responsible range and spare capacity; "
            "the sender of an advertisement is identified by the holder field of the message, as in the code (a spoofed holder field of a close peer cannot be driven without a libp2p response channel)",
    "design_ref": "5 Area Replication"}}


def to_steps(s):
    steps = []
    fam = s["family"]
    for n, c in enumerate(s["initial"], start=1):
        if c["fam"] == "none":
            continue
        rec = {"fam": fam, "slot": 1}
        rec.update({k: v for k, v in c.items() if k != "fam"})
        steps.append({"ev": "Place", "node": n, "rec": rec})
    u = s.get("update", {"node": 0})
    if u.get("node", 0) != 0:
        rec = {"fam": fam, "slot": 1}
        rec.update({k: v for k, v in u["c"].items() if k != "fam"})
        steps.append({"ev": "Place", "node": u["node"], "rec": rec})
    if steps:
        steps.append({"ev": "Spoof", "from": steps[0]["node"], "to": 1 if steps[0]["node"] != 1 else 2, "holder": "self"})
        steps.append({"ev": "Spoof", "from": steps[0]["node"], "to": 1 if steps[0]["node"] != 1 else 2, "holder": "stranger"})
    for r in s["rounds"]:
        steps.append({"ev": "Round", "node": r})
    steps.append({"ev": "Check"})
    return {"nodes": s["nodes"], "steps": steps, "family": fam}


def network_stage(v, w, thorough, replay, prefix="C09_", light=False):
    """Second engine: the composed network model (specs/network) -- message bag, any delivery order, loss, expiry.
    prefix: the clauses that are verdicts of the calling property (C09_* for C09, C08_* when called from C08's check);
    light: no exhaustive / liveness runs, fewer simulated behaviours (the caller only wants the node-level clause)."""
    scn_path = os.path.join(w, "net-scenarios.ndjson")
    if replay:
        write_ndjson(scn_path, [replay["scenario"]])
    elif light:
        scns = []
        for cfg, num in (("MCNetwork_sim.cfg", 120 if thorough else 15), ("MCNetwork_sim2.cfg", 120 if thorough else 15), ("MCNetwork_sim_serve.cfg", 120 if thorough else 10)):
            sim = tlc("network", "MCNetwork", cfg, w, workers=1, simulate="num=%d" % num, depth=90, coverage=False, timeout=3000,
                      extra=["-seed", str(seed())])
            if sim.violated:
                raise ToolError("network model: %s violated in simulation (%s)" % (sim.violated, cfg))
            scns += scenarios_from(sim)
        write_ndjson(scn_path, scns)
    else:
        for cfg in ["MCNetwork.cfg", "MCNetwork_txs.cfg", "MCNetwork_pad.cfg", "MCNetwork_serve.cfg"]:
            mc = tlc("network", "MCNetwork", cfg, w, workers=8, timeout=3000)
            v.add_model(mc)
            if mc.violated:
                v.violation("model:" + mc.violated, "the network model falsifies %s beyond the listed known finding (%s)" % (mc.violated, cfg), {"area": "network", "tlc": mc.error_text[:6000]})
            never = [a for a in mc.actions_never_taken() if a in ("Update", "Interval", "Settle", "CInterval", "CDeliver", "Finish")]
            if never:
                raise ToolError("network model %s: actions never taken: %s" % (cfg, never))
        neg = tlc("network", "MCNetwork", "MCNetwork_padneg.cfg", w, workers=4, timeout=600, coverage=False)
        if neg.violated != "ConvergedWhenDone":
            raise ToolError("the listed known finding C09-scratchpad-versions-indistinguishable is no longer present in the network model")
        # liveness of the network model under its stated fairness assumptions, and the negative control (weaker fairness)
        live = tlc("network", "MCNetwork", "MCNetworkLive.cfg" if thorough else "MCNetworkLive_quick.cfg", w, workers=8, timeout=3000, coverage=False, heap="12g")
        v.add_model(live)
        if live.violated:
            v.violation("model:" + live.violated, "the network model does not converge under its fairness assumptions", {"area": "network", "tlc": live.error_text[:6000]})
        weak = tlc("network", "MCNetwork", "MCNetworkLive_weak_quick.cfg", w, workers=4, timeout=1200, coverage=False)
        if weak.violated != "EventuallyAgree":
            raise ToolError("negative control of the network liveness check did not fail (got %s)" % weak.violated)
        scns = []
        for cfg, num in (("MCNetwork_sim.cfg", 400 if thorough else 35), ("MCNetwork_sim_pad.cfg", 150 if thorough else 10), ("MCNetwork_sim2.cfg", 300 if thorough else 25),
                         ("MCNetwork_sim_serve.cfg", 300 if thorough else 20)):
            sim = tlc("network", "MCNetwork", cfg, w, workers=1, simulate="num=%d" % num, depth=90, coverage=False, timeout=3000,
                      extra=["-seed", str(seed())])
            if sim.violated:
                v.violation("model:" + sim.violated, "clause falsified on a simulated behaviour of the network model (%s)" % cfg, {"area": "network", "tlc": sim.error_text[:6000]})
            scns += scenarios_from(sim)
        write_ndjson(scn_path, scns)
    scn_list = read_ndjson(scn_path)
    trace = os.path.join(w, "net-trace.ndjson")
    run_driver("drv_netw", ["--scenarios", scn_path, "--out", trace, "--work", os.path.join(w, "netnodes")], w, timeout=3400)
    rep = validate_trace("network", "NetworkTrace", "NetworkTrace.cfg", trace, w, timeout=3400, heap="6g")
    events = read_ndjson(trace)
    run_of = {}
    r = 0
    for i, e in enumerate(events):
        if e["ev"] == "Reset":
            r = e["run"]
        run_of[i] = r
    kfs = {k["id"]: k for k in kf_for("C09")}
    for x in rep["violations"]:
        e = events[x["line"] - 1]
        if x["clause"] == "Malformed":
            raise ToolError("malformed network trace line %d" % x["line"])
        if not x["clause"].startswith(prefix):
            # a clause of another property (judged by that property's own check)
            v.cov.setdefault("clauses_of_other_properties", []).append({"clause": x["clause"], "line": x["line"]})
            continue
        v.violation(x["clause"], "network step %s at line %d: %s" % (e["ev"], x["line"], json.dumps({k: e[k] for k in e if k not in ("ev", "state")})[:500]),
                    {"area": "network", "scenario": scn_list[run_of[x["line"] - 1] - 1], "event": {k: e[k] for k in e if k != "state"}})
    for x in rep.get("known", []):
        if not x["clause"].startswith(prefix):
            continue
        kf = kfs.get(x["kf"])
        if kf is None:
            v.violation(x["clause"], "matched finding %s is not listed as known" % x["kf"], {"area": "network", "scenario": scn_list[run_of[x["line"] - 1] - 1]})
        else:
            v.known_finding(kf, "network line %d" % x["line"])
    for ln in rep.get("drift", []):
        e = events[ln - 1]
        v.drift.append({"engine": "network", "line": ln, "ev": e["ev"], "m": e.get("m"), "node": e.get("node")})
    steps = [e for e in events if e["ev"] != "Reset"]
    skipped = sum(1 for e in steps if e["ev"] == "Skipped")
    if not replay and steps and skipped * 5 > len(steps):
        raise ToolError("network driver could not follow %d of %d prescribed steps" % (skipped, len(steps)))
    def sig(e):
        st = e["state"]
        return json.dumps([e["ev"], e.get("node"), (e.get("m") or {}).get("k"), [[[c.get("kind"), c.get("c"), c.get("ids"), c.get("ops")] for c in n] for n in st["content"]],
                           st["fetchers"], sorted([m["k"], m["from"], m["to"], m["a"]] for m in st["msgs"])], sort_keys=True)
    v.cov["evaluations"] += len(steps)
    v.cov["distinct_nontrivial"] += len(set(sig(e) for e in steps if e["ev"] in ("Update", "Interval", "Deliver", "Drop", "Expire", "Settle", "Check")))
    v.cov["traces_validated_against_impl"] += sum(1 for e in events if e["ev"] == "Reset")
    v.cov["network_stats"] = rep.get("stats")
    if scn_list:
        v.cov["samples"].append({"engine": "network", "scenario": scn_list[0]})
    return rep


def peers_stage(v, w, thorough, replay):
    """Third engine: bad-node accounting (specs/peers). Only C09_OnlyFromClose (an advertisement of a peer that was considered
    bad and is out of the routing table causes no fetch) is a verdict of C09; the other clauses describe behaviour no listed
    property speaks about and are reported as SPEC-DEVIATION lines and in the evidence file, never as violations."""
    scn_path = os.path.join(w, "peer-scenarios.ndjson")
    if replay:
        write_ndjson(scn_path, [replay["scenario"]])
    else:
        mc = tlc("peers", "MCBadNode", "MCBadNode.cfg", w, workers=8, timeout=3000, coverage=False)
        v.add_model(mc)
        if mc.violated:
            raise ToolError("the bad-node model falsifies its own clauses: %s\n%s" % (mc.violated, mc.error_text[:3000]))
        for neg, inv in (("MCBadNode_neg_bad.cfg", "CanBecomeBad"), ("MCBadNode_neg_blocked.cfg", "CanBeBlocked")):
            r = tlc("peers", "MCBadNode", neg, w, workers=4, timeout=600, coverage=False)
            if r.violated != inv:
                raise ToolError("bad-node model is vacuous: %s not reachable" % inv)
        scns = []
        for cfg, num, cap in (("MCBadNode_sim_hot.cfg", 200 if thorough else 30, 1500 if thorough else 150), ("MCBadNode_sim.cfg", 100 if thorough else 8, 1000 if thorough else 60)):
            sim = tlc("peers", "MCBadNode", cfg, w, workers=1, simulate="num=%d" % num, depth=20, coverage=False, timeout=3000, extra=["-seed", str(seed())])
            if sim.violated:
                raise ToolError("the bad-node model falsifies its own clauses in simulation: %s" % sim.violated)
            scns += scenarios_from(sim)[:cap]
        write_ndjson(scn_path, scns)
    scn_list = read_ndjson(scn_path)
    trace = os.path.join(w, "peer-trace.ndjson")
    run_driver("drv_peers", ["--scenarios", scn_path, "--out", trace, "--work", os.path.join(w, "peernodes")], w, timeout=3400)
    rep = validate_trace("peers", "BadNodeTrace", "BadNodeTrace.cfg", trace, w, timeout=3400, heap="6g")
    events = read_ndjson(trace)
    run_of, void = {}, set()
    r = 0
    for i, e in enumerate(events):
        if e["ev"] == "Reset":
            r = e["run"]
        if e["ev"] == "Void":
            void.add(e["run"])
        run_of[i] = r
    deviations = []
    for x in rep["violations"]:
        e = events[x["line"] - 1]
        rn = run_of[x["line"] - 1]
        if rn in void:
            continue
        if x["clause"] == "Malformed":
            raise ToolError("malformed peers trace line %d" % x["line"])
        if x["clause"].startswith("C09_"):
            v.violation(x["clause"], "an advertisement of a peer considered bad (out of the routing table) started %s fetch(es), line %d" % (e.get("fetches"), x["line"]),
                        {"area": "peers", "scenario": scn_list[rn - 1], "event": e})
        else:
            deviations.append({"clause": x["clause"], "line": x["line"], "event": e})
    for d in deviations[:5]:
        log("SPEC-DEVIATION (no listed property) clause=%s line=%d %s" % (d["clause"], d["line"], json.dumps(d["event"])[:300]))
    for ln in rep.get("drift", []):
        if run_of[ln - 1] not in void:
            v.drift.append({"engine": "peers", "line": ln, "ev": events[ln - 1]["ev"]})
    steps = [e for e in events if e["ev"] not in ("Reset", "Void")]
    v.cov["evaluations"] += len(steps)
    v.cov["distinct_nontrivial"] += len(set(json.dumps([e["ev"], e.get("k"), e.get("d"), e["state"]], sort_keys=True) for e in steps))
    v.cov["traces_validated_against_impl"] += sum(1 for e in events if e["ev"] == "Reset")
    v.cov["peers_stats"] = rep.get("stats")
    v.cov["peers_spec_deviations"] = len(deviations)
    v.cov["peers_void_runs"] = len(void)
    if scn_list:
        v.cov["samples"].append({"engine": "peers", "scenario": scn_list[0]})


def run(prop, tier, replay=None):
    v = Verdict(prop, tier, replaying=replay is not None)
    w = workdir(prop)
    thorough = tier == "thorough"
    scn_path = os.path.join(w, "scenarios.ndjson")
    if replay and replay.get("area") == "network":
        build(PACKAGES)
        network_stage(v, w, thorough, replay)
        return v.finish()
    if replay and replay.get("area") == "peers":
        build(PACKAGES)
        peers_stage(v, w, thorough, replay)
        return v.finish()
    if replay:
        write_ndjson(scn_path, [replay["scenario"]])
    else:
        scns = []
        for cfg in (["MCReplication.cfg", "MCReplication_thorough.cfg"] if thorough else ["MCReplication.cfg"]):
            mc = tlc("replication", "MCReplication", cfg, w, workers=8, timeout=3000)
            v.add_model(mc)
            if mc.violated:
                v.violation("model:" + mc.violated, "the replication model falsifies a clause beyond the listed known finding", {"area": "replication", "tlc": mc.error_text[:6000]})
            scns += [to_steps(s) for s in scenarios_from(mc)]
        neg = tlc("replication", "MCReplication", "MCReplication_padneg.cfg", w, workers=4, timeout=600)
        if not neg.violated:
            raise ToolError("the listed known finding C09-scratchpad-versions-indistinguishable is no longer present in the model")
        scns = [s for s in scns if any(x["ev"] == "Place" for x in s["steps"])]
        # an advertisement from a peer the receiver knows but that is beyond its K closest (its routing table gets 30 more peers)
        for fam, rec in (("chunk", {}), ("reg", {"ops": [1]}), ("txs", {"ids": [1]}), ("pad", {"c": 1, "content": 1})):
            r = {"fam": fam, "slot": 1}
            r.update(rec)
            scns.append({"nodes": 2, "family": fam, "steps": [{"ev": "Place", "node": 1, "rec": r},
                                                             {"ev": "Spoof", "from": 1, "to": 2, "holder": "far"}]})
        write_ndjson(scn_path, scns)
    build(PACKAGES)
    trace = os.path.join(w, "trace.ndjson")
    run_driver("drv_repl", ["--scenarios", scn_path, "--out", trace, "--work", os.path.join(w, "nodes")], w, timeout=3400)
    rep = validate_trace("replication", "ReplicationTrace", "ReplicationTrace.cfg", trace, w, timeout=3400, heap="6g")
    events = read_ndjson(trace)
    scn_list = read_ndjson(scn_path)
    run_of = {}
    r = 0
    for i, e in enumerate(events):
        if e["ev"] == "Reset":
            r = e["run"]
        run_of[i] = r
    kfs = {k["id"]: k for k in kf_for(prop)}
    for x in rep["violations"]:
        e = events[x["line"] - 1]
        if x["clause"] == "Malformed":
            raise ToolError("malformed trace line %d" % x["line"])
        v.violation(x["clause"], "step %s at line %d: %s" % (e["ev"], x["line"], json.dumps({k: e[k] for k in e if k != "ev"})[:700]),
                    {"area": "replication", "scenario": scn_list[run_of[x["line"] - 1] - 1], "event": e})
    for x in rep.get("known", []):
        kf = kfs.get(x["kf"])
        if kf is None:
            v.violation(x["clause"], "matched finding %s is not listed as known" % x["kf"], {"area": "replication", "scenario": scn_list[run_of[x["line"] - 1] - 1]})
        else:
            v.known_finding(kf, "line %d" % x["line"])
    for ln in rep.get("drift", []):
        e = events[ln - 1]
        v.drift.append({"line": ln, "ev": e["ev"], "node": e.get("node"), "state": e["state"]})
    steps = [e for e in events if e["ev"] != "Reset"]
    v.cov["evaluations"] = len(steps)
    v.cov["distinct_nontrivial"] = len(set(json.dumps([scn_list[run_of[i] - 1]["family"], e["ev"], e.get("node"), [[n.get("kind"), n.get("c"), n.get("ids"), n.get("ops")] for n in e["state"][0]["nodes"]] if e["state"] else []], sort_keys=True)
                                         for i, e in enumerate(events) if e["ev"] in ("Round", "Spoof", "Check")))
    v.cov["traces_validated_against_impl"] = sum(1 for e in events if e["ev"] == "Reset")
    v.cov["rule"] = "a case is one step (placement, spoofed advertisement, replication round, final check) on real nodes inside a TLC-generated scenario; distinct = distinct (family, step, node, resulting contents of all nodes)"
    v.cov["samples"] = [scn_list[0], scn_list[len(scn_list) // 2]] if scn_list else []
    v.cov["impl_stats"] = rep.get("stats")
    if not replay:
        peers_stage(v, w, thorough, None)
        network_stage(v, w, thorough, None)
        v.cov["rule"] += "; network engine: a case is one step (record handed in, periodic replication, ONE message delivered or lost, a fetch deadline passing, settle, check) on real nodes inside a TLC-simulated behaviour of the network model; distinct = distinct (step, resulting contents, fetcher queues and message bag)"
    v.cov["exhaustive"] = False
    v.assumptions = ["2 (thorough also 3) nodes, one address per scenario, version lattices: pad counters 1..2, subsets of 2 transactions / 2 register ops",
                     "network engine: 2 nodes x 2 addresses exhaustively (<= 2 hand-ins, 2 replication runs, 1 loss, 1 expiry in the chaotic phase), 3 nodes x 3 addresses by simulation; convergence is required after the messages in flight are lost, the in-flight fetches have timed out and two clean cycles have run",
                     "every message is delivered (no loss) and the replication throttles are reset between rounds"]
    return v.finish()
