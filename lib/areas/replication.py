"""C09 -- replication between neighbouring nodes (specs/replication, driver drv_repl, hooks H4 H4b H4c H5)."""
import os
from vcheck import *
from areas.replfetcher import scenarios_from

PROPS = ["C09"]
PACKAGES = ["drv_net"]
META = {"C09": {
    "engine": "replication", "level": "model_checking",
    "technique": "TLA+ model of periodic replication between 2-3 nodes over the per-address version lattice; TLC explores every divergence pattern and round order; each behaviour is replayed on real nodes wired in-process and validated by TLC (clauses + model as drift predicate)",
    "text": "Every initial divergence of one address (chunk / scratchpad versions / transaction sets / register op sets) between 2 (thorough: 3) neighbours and every order of the nodes' replication rounds is executed on REAL nodes: "
            "TriggerIntervalReplication, the Replicate handler with its closest-peers check, the replication fetcher, GetReplicatedRecord through handle_query and store_replicated_in_record all run unmodified; the harness only carries messages. "
            "AcceptHeld/NoRegress/AdvertiseAll are judged per round, OnlyFromClose on spoofed advertisements (holder = receiver itself / unknown peer), Converge after two full cycles.",
    "note": "trusted: TLC; the harness transport (delivers every message, in order); replication throttles are reset through hook H4c instead of waiting 30-45 s; nodes have unset responsible range and spare capacity; "
            "the sender of an advertisement is identified by the holder field of the message, as in the code (a spoofed holder field of a close peer cannot be driven without a libp2p response channel)",
    "design_ref": "5 Area Replication"}}


def to_steps(s):
    steps = []
    fam = s["family"]
    for n, c in enumerate(s["initial"], start=1):
        if c["fam"] == "none":
            continue
        rec = {"fam": fam, "slot": 1}
        rec.update({k: v for k, v in c.items() if k != "fam"})
        steps.append({"ev": "Place", "node": n, "rec": rec})
    u = s.get("update", {"node": 0})
    if u.get("node", 0) != 0:
        rec = {"fam": fam, "slot": 1}
        rec.update({k: v for k, v in u["c"].items() if k != "fam"})
        steps.append({"ev": "Place", "node": u["node"], "rec": rec})
    if steps:
        steps.append({"ev": "Spoof", "from": steps[0]["node"], "to": 1 if steps[0]["node"] != 1 else 2, "holder": "self"})
        steps.append({"ev": "Spoof", "from": steps[0]["node"], "to": 1 if steps[0]["node"] != 1 else 2, "holder": "stranger"})
    for r in s["rounds"]:
        steps.append({"ev": "Round", "node": r})
    steps.append({"ev": "Check"})
    return {"nodes": s["nodes"], "steps": steps, "family": fam}


def run(prop, tier, replay=None):
    v = Verdict(prop, tier, replaying=replay is not None)
    w = workdir(prop)
    thorough = tier == "thorough"
    scn_path = os.path.join(w, "scenarios.ndjson")
    if replay:
        write_ndjson(scn_path, [replay["scenario"]])
    else:
        scns = []
        for cfg in (["MCReplication.cfg", "MCReplication_thorough.cfg"] if thorough else ["MCReplication.cfg"]):
            mc = tlc("replication", "MCReplication", cfg, w, workers=8, timeout=3000)
            v.add_model(mc)
            if mc.violated:
                v.violation("model:" + mc.violated, "the replication model falsifies a clause beyond the listed known finding", {"area": "replication", "tlc": mc.error_text[:6000]})
            scns += [to_steps(s) for s in scenarios_from(mc)]
        neg = tlc("replication", "MCReplication", "MCReplication_padneg.cfg", w, workers=4, timeout=600)
        if not neg.violated:
            raise ToolError("the listed known finding C09-scratchpad-versions-indistinguishable is no longer present in the model")
        scns = [s for s in scns if any(x["ev"] == "Place" for x in s["steps"])]
        write_ndjson(scn_path, scns)
    build(PACKAGES)
    trace = os.path.join(w, "trace.ndjson")
    run_driver("drv_repl", ["--scenarios", scn_path, "--out", trace, "--work", os.path.join(w, "nodes")], w, timeout=3400)
    rep = validate_trace("replication", "ReplicationTrace", "ReplicationTrace.cfg", trace, w, timeout=3400, heap="6g")
    events = read_ndjson(trace)
    scn_list = read_ndjson(scn_path)
    run_of = {}
    r = 0
    for i, e in enumerate(events):
        if e["ev"] == "Reset":
            r = e["run"]
        run_of[i] = r
    kfs = {k["id"]: k for k in kf_for(prop)}
    for x in rep["violations"]:
        e = events[x["line"] - 1]
        if x["clause"] == "Malformed":
            raise ToolError("malformed trace line %d" % x["line"])
        v.violation(x["clause"], "step %s at line %d: %s" % (e["ev"], x["line"], json.dumps({k: e[k] for k in e if k != "ev"})[:700]),
                    {"area": "replication", "scenario": scn_list[run_of[x["line"] - 1] - 1], "event": e})
    for x in rep.get("known", []):
        kf = kfs.get(x["kf"])
        if kf is None:
            v.violation(x["clause"], "matched finding %s is not listed as known" % x["kf"], {"area": "replication", "scenario": scn_list[run_of[x["line"] - 1] - 1]})
        else:
            v.known_finding(kf, "line %d" % x["line"])
    for ln in rep.get("drift", []):
        e = events[ln - 1]
        v.drift.append({"line": ln, "ev": e["ev"], "node": e.get("node"), "state": e["state"]})
    steps = [e for e in events if e["ev"] != "Reset"]
    v.cov["evaluations"] = len(steps)
    v.cov["distinct_nontrivial"] = len(set(json.dumps([scn_list[run_of[i] - 1]["family"], e["ev"], e.get("node"), [[n.get("kind"), n.get("c"), n.get("ids"), n.get("ops")] for n in e["state"][0]["nodes"]] if e["state"] else []], sort_keys=True)
                                         for i, e in enumerate(events) if e["ev"] in ("Round", "Spoof", "Check")))
    v.cov["traces_validated_against_impl"] = sum(1 for e in events if e["ev"] == "Reset")
    v.cov["rule"] = "a case is one step (placement, spoofed advertisement, replication round, final check) on real nodes inside a TLC-generated scenario; distinct = distinct (family, step, node, resulting contents of all nodes)"
    v.cov["samples"] = [scn_list[0], scn_list[len(scn_list) // 2]] if scn_list else []
    v.cov["impl_stats"] = rep.get("stats")
    v.cov["exhaustive"] = not replay
    v.assumptions = ["2 (thorough also 3) nodes, one address per scenario, version lattices: pad counters 1..2, subsets of 2 transactions / 2 register ops",
                     "every message is delivered (no loss) and the replication throttles are reset between rounds"]
    return v.finish()
