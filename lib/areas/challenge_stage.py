"""Storage challenge and chunk-existence proofs (specs/challenge, driver drv_challenge, hook H12) -- a stage of the C11 check.

Only the closeness clause C11_ChallengeClosest (which records a node answers with / expects, which of its own chunks can be
the target: ordered and filtered exactly as the XOR metric over SHA-256 digests does) can produce a VIOLATION of C11.  Every
other clause (Chal_*) describes behaviour no listed property covers: a falsified one is printed as SPEC-DEVIATION and counted
in the evidence file, and does not change the exit code.
"""
import os
from vcheck import *

# a deviation of the UNCHANGED tree, kept in findings/CHAL-duplicate-proofs-inflate-score.json: mark_peer counts the
# entries of a reply, not the expected records proved, so one proven record repeated G times scores like a full answer
KNOWN_DUP = "CHAL-duplicate-proofs-inflate-score"


def _dup_keys(answers):
    ks = [a.get("k") for a in answers if a.get("ok", True)]
    return len(ks) != len(set(ks))


def _is_known_dup(clause, e):
    if clause != "Chal_MissingLowersScore":
        return False
    if e["ev"] == "Mark":
        return _dup_keys(e.get("answers", []))
    if e["ev"] == "Challenge":
        return any(_dup_keys(r.get("ans", [])) for r in e.get("resp", []))
    return False


def _pick_cases(cases, thorough):
    """quick tier: every profile at every position would be 225 rounds; take the all-positions plan of every profile and
    one single position per profile (rotating with the seed), and a third of the client cases that cost no waiting"""
    if thorough:
        return cases
    out = []
    s = seed()
    for i, c in enumerate(cases):
        if c["kind"] == "challenge":
            r = c["resp"]
            odd = [j for j, x in enumerate(r) if not (x["beh"] == "node" and not x["lack"] and not x["extra"])]
            if len(odd) != 1 or (odd[0] + i + s) % 2 == 0:
                out.append(c)
        elif c.get("sleepMs", 0) > 0 or (i + s) % 3 == 0:
            out.append(c)
    return out


def challenge_stage(v, w, thorough, replay):
    if os.environ.get("VERIF_DISABLE_CHALLENGE"):
        return
    cases_path = os.path.join(w, "challenge-cases.ndjson")
    t_stage = time.time()
    if replay:
        write_ndjson(cases_path, [replay["scenario"]] if replay.get("scenario") else [])
        only = replay.get("only")
    else:
        only = None
        mc = tlc("challenge", "MCChallenge", "MCChallenge_thorough.cfg" if thorough else "MCChallenge.cfg", w, env={"CASES": cases_path},
                 workers=8, timeout=3000, coverage=False)
        v.add_model(mc)
        if mc.violated:
            raise ToolError("the storage-challenge model falsifies its own clauses: %s\n%s" % (mc.violated, mc.error_text[:3000]))
        negs = [("MCChallenge_neg_reported.cfg", "NeverReported")]
        if thorough:
            negs += [("MCChallenge_neg_passes.cfg", "NeverPasses"), ("MCChallenge_neg_client.cfg", "ClientNeverOk"),
                     # the known hole of the scoring is a hole of the implementation-shaped model too
                     ("MCChallenge_dup.cfg", "ModelKeepsClauses")]
        for neg, inv in negs:
            r = tlc("challenge", "MCChallenge", neg, w, workers=2, timeout=600, coverage=False)
            if r.violated != inv:
                raise ToolError("storage-challenge model is vacuous: %s not violated by %s" % (inv, neg))
        write_ndjson(cases_path, _pick_cases(read_ndjson(cases_path), thorough))
    cases = read_ndjson(cases_path)
    t_model = time.time()
    trace = os.path.join(w, "challenge-trace.ndjson")
    args = ["--cases", cases_path, "--out", trace, "--work", os.path.join(w, "challenge-nodes"),
            "--random", 200 if thorough else 20, "--slow", 6 if thorough else 1, "--client-sleep-ms", 30000 if thorough else 2500]
    if only:
        args += ["--only", only]
    run_driver("drv_challenge", args, w, timeout=3400)
    t_drv = time.time()
    rep = validate_trace("challenge", "ChallengeTrace", "ChallengeTrace.cfg", trace, w, timeout=3400, heap="6g")
    events = read_ndjson(trace)
    v.cov["challenge_wall_s"] = {"model": round(t_model - t_stage, 1), "driver": round(t_drv - t_model, 1), "trace_validation": round(time.time() - t_drv, 1)}
    deviations, known = [], 0
    for x in rep["violations"]:
        e = events[x["line"] - 1]
        if x["clause"] == "Malformed":
            raise ToolError("malformed challenge trace line %d: %s" % (x["line"], json.dumps(e)[:300]))
        slim = {k: e[k] for k in e if k not in ("held", "own", "resp", "scn")}
        if x["clause"].startswith("C11_"):
            what = ("the records answered to a proof query" if e["ev"] == "Answer" else "the target / the expected records of a challenge round")
            payload = {"area": "challenge", "event": e}
            if e["ev"] == "Challenge":
                payload.update(scenario=e.get("scn"), only="challenge")
            else:
                payload.update(scenario=None, only="answer")
            v.violation(x["clause"], "%s are not the closest by the XOR metric, line %d: %s" % (what, x["line"], json.dumps(slim)[:600]), payload)
        elif _is_known_dup(x["clause"], e):
            known += 1
        else:
            deviations.append({"clause": x["clause"], "line": x["line"], "event": slim})
    for d in deviations[:5]:
        log("SPEC-DEVIATION (no listed property) clause=%s line=%d %s" % (d["clause"], d["line"], json.dumps(d["event"])[:400]))
    if known:
        log("SPEC-DEVIATION (known, findings/%s.json) clause=Chal_MissingLowersScore %d steps: a reply that repeats one proven record is scored like a full answer" % (KNOWN_DUP, known))
    for ln in rep.get("drift", []):
        v.drift.append({"engine": "challenge", "line": ln, "ev": events[ln - 1]["ev"]})
    steps = [e for e in events if e["ev"] not in ("Reset", "Keys")]
    v.cov["evaluations"] += len(steps)
    v.cov["distinct_nontrivial"] += len(set(json.dumps({k: e[k] for k in e if k not in ("run", "scn", "src", "msHi", "issues")}, sort_keys=True) for e in steps))
    v.cov["traces_validated_against_impl"] += 1
    v.cov["challenge_stats"] = rep.get("stats")
    v.cov["challenge_by_event"] = {k: sum(1 for e in steps if e["ev"] == k) for k in sorted(set(e["ev"] for e in steps))}
    v.cov["challenge_scenarios_from_tlc"] = len(cases)
    v.cov["challenge_spec_deviations"] = len(deviations)
    v.cov["challenge_known_deviation_steps"] = known
    if deviations:
        v.cov["challenge_spec_deviation_samples"] = deviations[:3]
    ch = [e for e in steps if e["ev"] == "Challenge"]
    v.cov["challenge_max_round_ms"] = max([e.get("msHi", 0) for e in ch if not any(r.get("msLo") for r in e["resp"])] or [0])
    log("challenge stage: %d steps on real nodes (%s), %d clause deviations, walls %s" % (len(steps), v.cov["challenge_by_event"], len(deviations), v.cov["challenge_wall_s"]))
    if ch:
        e = ch[0]
        v.cov["samples"].append({"engine": "challenge", "scenario": e.get("scn"), "target": e["target"], "expected": e["expected"], "asked": e["asked"],
                                 "reported": e["reported"], "replies": [{"peer": r["peer"], "kind": r["kind"], "beh": r["beh"], "ans": r["ans"]} for r in e["resp"]]})
