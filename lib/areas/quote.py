"""C13 -- payment quotes bound to signer and signed fields (specs/quote, driver drv_quote)."""
import os
from vcheck import *
from areas import quoting_stage as quotingstage

PROPS = ["C13"]
META = {
    "C13": {
        "engine": "quote", "more_engines": ["quoting"],
        "level": "model_checking",
        "technique": "executable TLA+ specification of quote / proof verification over an ideal signature, of the expiry window and of the "
                     "history rule; TLC enumerates every subset of altered fields x key x signature x claimed identity, every proof "
                     "composition, timestamps around both expiry edges and metric-pair relations, and is the oracle over recorded real "
                     "verification calls (trace validation)",
        "text": "TLC checks the sanity laws of the specification (honest quotes verify only for their signer, any alteration under a kept "
                "signature fails, a proof needs the verifier among the payees and only intact entries, expiry = outside [now-3600, now], the "
                "history flag is required exactly for lower uptime / payment count) on the bounded-exhaustive case set and emits it with the "
                "expected booleans. The driver realises every case with real ed25519 keys and real signed PaymentQuotes, calls the real "
                "check_is_signed_by_claimed_peer / verify_for / has_expired / historical_verify / hash, and logs the abstract projection of "
                "the concrete quote (table look-up on concrete bytes; signatures by provenance); the TLA+ clause operators judge every call. "
                "All quotes cannot be enumerated: the mutation lattice is exhaustive, concrete values are sampled. The history rule is also followed into a real node "
                "(QuoteHistory.tla): sequences of quotes of up to three peers, TLC-generated, crafted and random, are handed to the real QuoteVerification handler of a SwarmDriver -- singly and as "
                "batches of up to four entries in one command (mixed peers, the same peer twice, a peer the node already considers bad in front) -- and "
                "the retained quote / recorded issue after every command is judged for every entry (inconsistent with the retained quote => issue on record, never retained; the reference never moves back). "
                "ProofOfPayment::has_expired is called on proofs with the expired quote in every position; the expiry edges are also probed at one second's distance from a now taken with nanoseconds. "
                "A further engine (specs/quoting, lib/areas/quoting_stage.py) follows the binding into the client: every TLC-enumerated environment of one real Network::get_store_quote_from_network call "
                "(peers found, ignore set, per peer a good / forged / foreign / wrong-address quote, RecordExists, error, unexpected answer, silence) is run with real keys and real signed quotes, "
                "and every (peer, quote) pair handed to the caller must verify for exactly that peer by the harness's own check (clause C13_ClientQuotesBound; the Quo_* clauses are printed as SPEC-DEVIATION only).",
        "note": "trusted: TLC; ed25519 (ideal-signature assumption: a signature verifies only for the key and message it was made with); the driver's "
                "value tables (abstraction function); the wall clock moving forward by < 2 s during one call",
        "design_ref": "5 Area Quote",
    }
}
PACKAGES = ["drv_light", "drv_net"]
CHUNK = 150000

# genuine defects of the unchanged tree, matched narrowly (none at present)
KNOWN = []


def _describe(e):
    ev = e["ev"]
    if ev == "Verify":
        q = e["q"]
        return ("check_is_signed_by_claimed_peer(claimed=%s) -> %s, hash equals base: %s; quote: content=%s ts=%+ds metrics=%s rewards=%s key=%s "
                "signature by %s over %s" % (e["claimed"], e["res"], e["heq"], q["content"], q["ts"], q["m"], q["rewards"], q["key"], q["sig"]["signer"], q["sig"]["msg"]))
    if ev == "Proof":
        return "verify_for(%s) -> %s on entries %s" % (e["me"], e["res"], [(x["claimed"], x["q"]["key"], x["q"]["sig"]["signer"],
                                                                            "intact" if x["q"]["sig"]["msg"] == [x["q"]["content"], x["q"]["ts"], x["q"]["m"], x["q"]["rewards"]] else "altered")
                                                                           for x in e["entries"]])
    if ev == "Expiry":
        return "has_expired() -> %s for a quote dated now%+ds (+%dns)" % (e["res"], e["d"], e["nanos"])
    if ev == "ProofExpiry":
        return "ProofOfPayment::has_expired() -> %s for a proof whose quotes are dated now%s s" % (e["res"], ["%+d" % d for d in e["ds"]])
    if ev == "ExpiryFine":
        return "has_expired() -> %s for a quote dated exactly %+d ms from a now taken with nanoseconds (call took %d ms)" % (e["res"], e["ms"], e["elapsed_ms"])
    if ev == "History":
        return "historical_verify(self=%s, other=%s, same node=%s) -> %s" % (e["a"], e["b"], e["same"], e["res"])
    if ev == "HashPair":
        return "hash(q1)==hash(q2) -> %s for q1=%s q2=%s" % (e["heq"], e["q1"], e["q2"])
    return json.dumps(e)[:300]


def _key(e):
    x = dict(e)
    for k in ("dnow", "src", "exp", "variant", "elapsed_ms"):
        x.pop(k, None)
    return json.dumps(x, sort_keys=True)


def _scn_lines(r, cap):
    seen, out = set(), []
    for ln in r.output.splitlines():
        if ln.startswith('<<"SCN", "'):
            body = ln[len('<<"SCN", '):]
            txt = json.loads(body[:body.rindex('>>')].strip())
            if txt not in seen:
                seen.add(txt)
                out.append(json.loads(txt))
                if len(out) >= cap:
                    break
    return out


def history_node(v, w, thorough, scenario=None):
    """The history rule as a node applies it: per-peer retained quote in a real SwarmDriver (QuoteVerification handler)."""
    scn_path = os.path.join(w, "hist-scenarios.ndjson")
    if scenario is not None:
        write_ndjson(scn_path, [scenario])
        nrandom = 0
    else:
        mc = tlc("quote", "MCQuoteHistory", "MCQuoteHistory.cfg", w, workers=8, timeout=1800)
        v.add_model(mc)
        if mc.violated:
            v.violation("model:" + mc.violated, "the model of the node-side quote history falsifies a clause", {"area": "quote", "tlc": mc.error_text[:6000]})
        sim = tlc("quote", "MCQuoteHistory", "MCQuoteHistory_sim.cfg", w, workers=1, simulate="num=%d" % (2000 if thorough else 150), depth=8,
                  coverage=False, timeout=1800, extra=["-seed", str(seed())])
        if sim.violated:
            v.violation("model:" + sim.violated, "clause falsified on a simulated behaviour of the quote-history model", {"area": "quote", "tlc": sim.error_text[:6000]})
        # the same model with a third peer that the node comes to consider bad and with steps joined into batches
        simw = tlc("quote", "MCQuoteHistory", "MCQuoteHistory_simwide.cfg", w, workers=1, simulate="num=%d" % (2000 if thorough else 150), depth=8,
                   coverage=False, timeout=1800, extra=["-seed", str(seed())])
        if simw.violated:
            v.violation("model:" + simw.violated, "clause falsified on a simulated behaviour of the quote-history model (batches, bad peer)", {"area": "quote", "tlc": simw.error_text[:6000]})
        write_ndjson(scn_path, _scn_lines(sim, 40000 if thorough else 3000) + _scn_lines(simw, 40000 if thorough else 3000))
        nrandom = 32000 if thorough else 2500
    trace = os.path.join(w, "hist-trace.ndjson")
    run_driver("drv_quotehist", ["--scenarios", scn_path, "--random", nrandom, "--crafted", 0 if scenario is not None else 1, "--out", trace, "--work", w], w, timeout=3000)
    rep = validate_trace("quote", "QuoteHistoryTrace", "QuoteHistoryTrace.cfg", trace, w, timeout=3000, heap="6g")
    events = read_ndjson(trace)
    starts, cur = {}, 0
    for i, e in enumerate(events):
        if e["ev"] == "Reset":
            cur = i
        starts[i] = cur

    def scn_of(line):
        # the scenario of the run (steps with their batch-joining flag j and bad-marking steps), as logged at its start
        return events[starts[line - 1]].get("scn", [])

    for x in rep["violations"]:
        e = events[x["line"] - 1]
        if x["clause"] == "Malformed":
            raise ToolError("malformed quote-history trace line %d: %s" % (x["line"], e))
        if e["ev"] == "NodeQuote":
            v.violation(x["clause"], "a quote created by the node (create_quote_for_storecost) verifies for another identity (%s) or with an altered signed field (%s)" % (
                e["other"], e["altered"]), {"area": "quote", "hist_scenario": [], "event": e})
            continue
        if e["ev"] == "Batch":
            v.violation(x["clause"], "one QuoteVerification command with %d entries on a real node: %s" % (len(e["entries"]), "; ".join(
                "peer %s%s quote %s: retained before %s, after %s, issue on record: %s" % (y["p"], " (considered bad)" if y["bad0"] else "", y["q"], y["before"], y["after"], y["issue"])
                for y in e["entries"])), {"area": "quote", "hist_scenario": scn_of(x["line"]), "event": e})
            continue
        v.violation(x["clause"], "QuoteVerification of %s for peer %s on a real node: retained before %s, after %s, issue on record: %s" % (
            e["q"], e["p"], e["before"], e["after"], e["issue"]), {"area": "quote", "hist_scenario": scn_of(x["line"]), "event": e})
    for ln in rep.get("drift", [])[:20]:
        e = events[ln - 1]
        v.drift.append({"what": "quote-history model and node disagree", "event": json.dumps(e)[:300]})
    batches = [e for e in events if e["ev"] == "Batch"]
    steps = [e for e in events if e["ev"] == "Quote"] + [y for e in batches for y in e["entries"]]
    v.cov["history_node_batches"] = len(batches)
    v.cov["history_node_batch_entries"] = sum(len(e["entries"]) for e in batches)
    v.cov["history_node_batches_same_peer_twice"] = sum(1 for e in batches if len(set(y["p"] for y in e["entries"])) < len(e["entries"]))
    v.cov["history_node_entries_of_bad_peer"] = sum(1 for y in steps if y.get("bad0"))
    v.cov["history_node_bad_markings"] = sum(1 for e in events if e["ev"] == "MarkBad" and e["bad"])
    nq = [e for e in events if e["ev"] == "NodeQuote"]
    v.cov["node_created_quotes_by_kind"] = {k: sum(1 for e in nq if e.get("kind") == k) for k in sorted(set(e.get("kind") for e in nq))}
    v.cov["node_created_quotes"] = sum(1 for e in events if e["ev"] == "NodeQuote")
    v.cov["history_node_steps"] = len(steps)
    v.cov["history_node_runs"] = sum(1 for e in events if e["ev"] == "Reset")
    v.cov["history_node_flagged_steps"] = sum(1 for e in steps if e["issue"])
    v.cov["history_node_replaced_steps"] = sum(1 for e in steps if e["after"] != e["before"] and e["before"]["ts"] >= 0)
    return len(steps)


def run(prop, tier, replay=None):
    v = Verdict(prop, tier, replaying=replay is not None)
    w = workdir(prop)
    thorough = tier == "thorough"
    if replay and replay.get("area") == "quoting":
        build(PACKAGES)
        quotingstage.quoting_stage(v, w, False, replay)
        return v.finish()
    if replay and replay.get("hist_scenario") is not None:
        build(PACKAGES)
        history_node(v, w, False, scenario=replay["hist_scenario"])
        return v.finish()
    env_seed = None
    sections = "cases,class,random"
    if replay:
        thorough = replay.get("tier") == "thorough"
        env_seed = {"VERIF_SEED": str(replay.get("seed", seed()))}
        sections = replay.get("sec", sections)
    cases = os.path.join(w, "cases.ndjson")
    mc = tlc("quote", "MCQuote", "MCQuote_thorough.cfg" if thorough else "MCQuote.cfg", w, env={"CASES": cases}, workers=8, timeout=3000)
    if mc.violated:
        raise ToolError("the executable specification of C13 is inconsistent (%s):\n%s" % (mc.violated, mc.error_text[:2000]))
    v.add_model(mc)
    all_cases = read_ndjson(cases)
    if replay and replay.get("case") is not None:
        write_ndjson(cases, [replay["case"]])
        sections = "cases"
    build(PACKAGES)
    trace = os.path.join(w, "trace.ndjson")
    run_driver("drv_quote", ["--cases", cases, "--out", trace, "--random", 120000 if thorough else 1500, "--sections", sections, "--all-variants"],
               w, env=env_seed, timeout=3000)
    events = read_ndjson(trace)
    # map tlc-sourced events back to their case (for replay files): cases are replayed in file order
    nparts, tstates = 0, 0
    for start in range(0, len(events), CHUNK):
        part = events[start:start + CHUNK]
        p = os.path.join(w, "trace-part%d.ndjson" % nparts)
        write_ndjson(p, part)
        rep = validate_trace("quote", "QuoteTrace", "QuoteTrace.cfg", p, w, timeout=3000, heap="8g")
        nparts += 1
        tstates += rep["tlc_states"]
        first, rest, seen_cl = [], [], set()
        for x in sorted(rep["violations"], key=lambda x: x["line"]):
            (rest if x["clause"] in seen_cl else first).append(x)
            seen_cl.add(x["clause"])
        for x in first + rest:
            e = part[x["line"] - 1]
            if x["clause"] == "Malformed":
                raise ToolError("the driver did not realise a TLC case / malformed event: %s" % json.dumps(e)[:800])
            what = _describe(e)
            payload = {"area": "quote", "tier": tier, "seed": seed(), "sec": {"tlc": "cases", "class": "class", "random": "random"}[e["src"]],
                       "case": _case_of(e, all_cases), "event": e}
            kf = next((k for k in KNOWN if k["match"](x["clause"], e)), None)
            if kf:
                v.known_finding({"id": kf["id"], "description": kf["description"]}, what)
            else:
                v.violation(x["clause"], what, payload)
        for x in rep.get("drift", []):
            v.drift.append({"what": x["what"], "event": _describe(part[x["line"] - 1])[:400]})
        for x in rep.get("notes", []):
            v.cov.setdefault("notes", {})
            v.cov["notes"][x["note"]] = v.cov["notes"].get(x["note"], 0) + 1
    nhist = 0
    if not replay:
        nhist = history_node(v, w, thorough)
    seen = set(_key(e) for e in events)
    v.cov["evaluations"] = len(events) + nhist
    v.cov["distinct_nontrivial"] = len(seen)
    v.cov["traces_validated_against_impl"] = nparts
    v.cov["events_validated"] = len(events)
    v.cov["trace_states"] = tstates
    v.cov["tlc_cases"] = len(all_cases)
    by = {}
    for e in events:
        k = "%s/%s/%s" % (e["ev"], e.get("res", e.get("heq")), e["src"])
        by[k] = by.get(k, 0) + 1
    v.cov["by_event_result_source"] = by
    v.cov["rule"] = ("TLC enumerates: every subset of altered signed fields (content, timestamp +1/-1 s, %s, rewards address) x carried key "
                     "(signer / other node / no key) x signature (kept / garbled / re-made by the signer / made by the other node over the altered "
                     "fields) x claimed identity (3); every proof of <= %d entries over 7 entry kinds x 3 verifying identities; %d timestamps "
                     "around now-3600 and now (>= 2 s from an edge); every proof of <= 3 (thorough: 4) quotes over dates before / inside / after the window for the "
                     "proof-level expiry; the edges at exactly 1 s / 2 s distance in milliseconds; uptime {lower,equal,higher,much higher} x payment count {lower,equal,higher} x "
                     "same/different node x receiver x gap. Garbled signatures / keys are realised in every variant (bit flip, empty, random, "
                     "truncated, zeros). The driver adds sub-second parts, far past/future dates and seeded random quotes, proofs, hash pairs, "
                     "dates and history pairs. A case is one real call; distinct = distinct abstract argument + result."
                     % ("every subset of the six metrics fields" if thorough else "each of the six metrics fields individually",
                        4 if thorough else 3, 17 if thorough else 7))
    pick = [e for e in events if e["ev"] == "Verify" and e["res"] == "true"][:1] + [e for e in events if e["ev"] == "Verify" and e["res"] == "false"][:1] \
        + [e for e in events if e["ev"] == "Proof" and e["res"] == "true"][:1] + [e for e in events if e["ev"] == "Expiry"][:2] \
        + [e for e in events if e["ev"] == "History"][:1]
    v.cov["samples"] = [_describe(e) for e in pick]
    v.cov["exhaustive"] = False
    v.assumptions = [
        "ideal signatures: an ed25519 signature verifies only under the key and for the byte string it was made with; two different abstract "
        "field tuples give different signed byte strings is what the check observes, not assumes",
        "the driver signs exactly like ant-node's create_quote_for_storecost (PaymentQuote::bytes_for_signing + Keypair::sign, key = "
        "encode_protobuf); ant-node itself is not linked into this driver",
        "time has whole-second granularity (I4): a sub-second change of the timestamp is not an alteration; expiry is tested >= 2 s from both edges "
        "on the side the passing of time approaches, each call completes within 1 s of sampling now (retried otherwise); additionally at exactly 1 s beyond / inside the old edge and 2 s "
        "beyond the future edge relative to a now taken with nanoseconds, where a call slower than 0.5 s is voided; a quote 3600.5 s old is an observation only (note ExpiryTruncatesAgeToWholeSeconds)",
        "a proof of payment is expired exactly when one of its quotes is (ProofOfPayment::has_expired is what a node calls)",
        "within one QuoteVerification command only the state before and after the whole command is observable: a second entry of the same peer is judged against the reference that "
        "follows from the observed one and the entries before it (newest consistent quote); entries of a peer the node already considers bad are skipped by the node, its issues stay on record",
        "historical_verify is called on pairs; 'from the same node' is the caller's keying of its history by peer id (SwarmDriver::verify_peer_quote), "
        "reached by the node-level run (drv_quotehist: the real QuoteVerification handler, judged against the retained quote); a node retains only the "
        "newest consistent quote per peer, so a quote is compared with that one and not with every earlier quote; pairs of different nodes and pairs "
        "with equal timestamps are observations only",
        "the statement gives only-if directions for quote and proof verification: an intact quote/proof that is rejected is drift, not a violation",
        "hash(): equal hashes are required exactly for equal (signed fields, key bytes, signature bytes); the concatenation without length prefix "
        "lets a byte move between key and signature without changing the hash (reported as note HashKeySignatureBoundaryAlias; such a quote never verifies)",
    ]
    if not replay and quotingstage.enabled():
        quotingstage.quoting_stage(v, w, thorough, None)
    return v.finish()


def _case_of(e, all_cases):
    """the TLC case an event came from (used to replay just that case)"""
    if e["src"] != "tlc":
        return None
    if e["ev"] == "Expiry":
        return next((c for c in all_cases if c["kind"] == "expiry" and c["d"] == e["d"]), None)
    if e["ev"] == "ProofExpiry":
        return next((c for c in all_cases if c["kind"] == "pexpiry" and list(c["ds"]) == list(e["ds"])), None)
    if e["ev"] == "ExpiryFine":
        return next((c for c in all_cases if c["kind"] == "fine" and c["ms"] == e["ms"]), None)
    if e["ev"] == "History":
        for c in all_cases:
            if c["kind"] == "history" and c["same"] == e["same"]:
                a, b = (c["new"], c["old"]) if c["selfnewer"] else (c["old"], c["new"])
                if a == e["a"] and b == e["b"]:
                    return c
        return None
    if e["ev"] == "Proof":
        kinds = {("A", "A", True): "mine", ("B", "B", True): "valid", ("B", "B", False): "invalid", ("C", "B", True): "foreign",
                 ("A", "B", True): "claimme", ("A", "A", False): "mineinvalid", ("none", "B", True): "badid"}
        shape = []
        for x in e["entries"]:
            q = x["q"]
            intact = q["sig"]["msg"] == [q["content"], q["ts"], q["m"], q["rewards"]]
            shape.append(kinds.get((x["claimed"], q["key"], intact)))
        return next((c for c in all_cases if c["kind"] == "proof" and c["shape"] == shape and c["me"] == e["me"]), None)
    if e["ev"] == "Verify":
        q = e["q"]
        names = ["crs", "max", "rpc", "live", "dens", "size"]
        ms = [names[i] for i in range(6) if q["m"][i] == 2]
        base_msg = [1, 0, [1, 1, 1, 1, 1, 1], 1]
        cur = [q["content"], q["ts"], q["m"], q["rewards"]]
        s = q["sig"]
        modes = []
        if s["signer"] == "none":
            modes = ["garbage"]
        elif s["signer"] == "A":
            modes = (["keep"] if s["msg"] == base_msg else []) + (["byA"] if s["msg"] == cur else [])
        elif s["signer"] == "B":
            modes = ["byB"]
        for c in all_cases:
            if (c["kind"] == "verify" and c["content"] == (q["content"] == 2) and c["tsd"] == q["ts"] and c["ms"] == ms and c["rewards"] == (q["rewards"] == 2)
                    and c["key"] == q["key"] and c["claimed"] == e["claimed"] and c["sigmode"] in modes):
                return c
    return None
