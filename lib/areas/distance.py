"""C11 -- distance metric (specs/distance, driver drv_distance)."""
import os
from vcheck import *

PROPS = ["C11"]
PACKAGES = ["drv_net"]
META = {"C11": {
    "engine": "distance", "more_engines": ["challenge"], "level": "model_checking",
    "technique": "executable TLA+ specification of the XOR metric over SHA-256 digests (byte-wise Bitwise xor, lexicographic order); TLC checks the metric laws on a small digest universe, enumerates the input partition, and is the oracle over recorded real calls",
    "text": "Every recorded call of NetworkAddress::distance / convert_distance_to_u256 (both directions, typed and raw-key forms), sort_peers_by_address, the replication range filter and "
            "Node::calculate_get_closest_peers is compared by TLC with the specification's value computed from digests the driver derives itself (sha2), over the TLC-enumerated partition "
            "(address kind x set size 0,1,4,5,6,21 x count x range class x near/far; plus degenerate sets: the target itself among the peers, a peer occurring twice, counts 1 / all-but-one / more than there are, "
            "sets of exactly one close group and one less) and random mixed-kind pairs. Typed and raw-key forms are compared for every kind, peers included (raw/raw and typed/raw). Every peer handed to "
            "calculate_get_closest_peers carries its own multiaddrs and every returned pair must be one of the entries handed in. convert_distance_to_u256 is also fed crafted real distances "
            "(0, 1, 2^k and 2^k-1 up to 2^255, 2^256-1, 10^k and 10^k-1, leading zero bytes) obtained by XOR-combining real address distances (GF(2) elimination on the driver's own digests). The fetcher's closeness decisions (which queued records are started first, range and fullness filters) are judged on ordering-stress runs of the real fetcher "
            "(dozens of queued entries, the closest not startable) by the fetcher's trace specification against the same independent ranking; the store's range decisions are checked in its own area. "
            "The closeness decisions of the storage challenge (which chunk-type records a real node answers a GetChunkExistenceProof query with, which own chunks a real challenger node expects and "
            "which it may pick as target) are judged on real nodes by the challenge trace specification (specs/challenge, clause C11_ChallengeClosest) against the same independent digests; the other clauses "
            "of that specification (scoring, reporting, proofs, the client's quorum loop) are reported as SPEC-DEVIATION only.",
    "note": "trusted: TLC incl. CommunityModules Bitwise; sha2 crate; all addresses cannot be enumerated: members of each class are seeded random, near pairs are neighbours in digest order among 3000 random addresses (2-3 shared leading bytes)",
    "design_ref": "5 Area Distance"}}


# closeness decisions of the replication fetcher (ordering by distance, range filter, fullness limit), judged by the
# fetcher's trace specification against the driver's independent SHA-256 / XOR ranking
FETCHER_CLOSENESS = {"C08_ClosestFirst": "C11_ClosenessDecision(fetcher order)", "C08_BatchInRange": "C11_ClosenessDecision(fetcher range)",
                     "C08_FullLimit": "C11_ClosenessDecision(fetcher farthest)"}


def fetcher_closeness(v, w, thorough, scn_path=None, stress_index=None, stress_seed=None):
    from areas import replfetcher
    found, nsteps, _drift = replfetcher.wide_run(w, thorough, scn_path, stress_index, stress_seed)
    for clause, msg, payload in found:
        if clause in FETCHER_CLOSENESS:
            payload = dict(payload, area="distance", fetcher=True)
            v.violation(FETCHER_CLOSENESS[clause], msg, payload)
    v.cov["fetcher_closeness_steps"] = nsteps
    return nsteps


def run(prop, tier, replay=None):
    v = Verdict(prop, tier, replaying=replay is not None)
    w = workdir(prop)
    thorough = tier == "thorough"
    if replay and replay.get("area") == "challenge":
        from areas.challenge_stage import challenge_stage
        build(PACKAGES)
        challenge_stage(v, w, False, replay)
        return v.finish()
    if replay and replay.get("fetcher"):
        build(PACKAGES)
        scn = os.path.join(w, "scenarios.ndjson")
        write_ndjson(scn, [replay["scenario"]])
        fetcher_closeness(v, w, False, scn, replay.get("stress_index"), replay.get("seed"))
        return v.finish()
    cases = os.path.join(w, "cases.ndjson")
    mc = tlc("distance", "MCDistance", "MCDistance.cfg", w, env={"CASES": cases}, workers=8, timeout=1200)
    if mc.violated:
        raise ToolError("the executable metric of C11 breaks its own laws (%s)" % mc.violated)
    v.add_model(mc)
    all_cases = read_ndjson(cases)
    if replay:
        all_cases = [replay["case"]]
        write_ndjson(cases, [replay["case"]])
    build(PACKAGES)
    trace = os.path.join(w, "trace.ndjson")
    run_driver("drv_distance", ["--cases", cases, "--out", trace, "--reps", 12 if thorough else 2, "--random", 5000 if thorough else 400,
                                   "--candidates", 300 if thorough else 30, "--crafted", 6 if thorough else 1, "--work", w], w, timeout=3000)
    rep = validate_trace("distance", "DistanceTrace", "DistanceTrace.cfg", trace, w, timeout=3400, heap="6g")
    events = read_ndjson(trace)
    for x in rep["violations"]:
        e = events[x["line"] - 1]
        if x["clause"] == "Malformed":
            raise ToolError("malformed trace line %d" % x["line"])
        v.violation(x["clause"], "%s at line %d: %s" % (e["ev"], x["line"], json.dumps({k: e[k] for k in e if k not in ("peers",)})[:500]),
                    {"area": "distance", "case": (all_cases[e["cid"]] if "cid" in e else None) or {"kind": "chunk", "size": len(e.get("peers", [])), "count": e.get("n", 5), "range": "equal", "near": False, "variant": "plain"},
                     "event": e})
    nfetch = 0 if replay else fetcher_closeness(v, w, thorough)
    v.cov["evaluations"] = len(events) + nfetch
    v.cov["distinct_nontrivial"] = len(set(json.dumps([e["ev"], e.get("a"), e.get("b"), e.get("target"), e.get("n"), e.get("range")]) for e in events))
    v.cov["traces_validated_against_impl"] = 1
    v.cov["by_event"] = {k: sum(1 for e in events if e["ev"] == k) for k in sorted(set(e["ev"] for e in events))}
    v.cov["degenerate_set_calls"] = {k: sum(1 for e in events if "cid" in e and all_cases[e["cid"]].get("variant") == k) for k in ("self", "dup", "selfdup")}
    v.cov["crafted_conversions"] = sorted(set(e["class"] for e in events if e["ev"] == "Conv"))
    v.cov["closest_pairs_returned_with_addrs"] = sum(sum(1 for a in e["oaddr"] if a) for e in events if e["ev"] == "Closest")
    v.cov["rule"] = "a case is one real call with concrete addresses; distinct = distinct (call, digests, count, range); every call compares a real result with the specification's value"
    v.cov["samples"] = [{k: (e[k] if k != "peers" else len(e[k])) for k in e} for e in events[:1] + events[3:5]]
    v.cov["exhaustive"] = False
    if not replay:
        from areas.challenge_stage import challenge_stage
        challenge_stage(v, w, thorough, None)
    v.assumptions = ["the digest of an address is SHA-256 of its address bytes (peer id bytes / 32-byte name / raw key bytes), computed with the sha2 crate; the 32-byte name of a register is "
                     "XorName::from_content(meta ++ owner key), of a scratchpad XorName::from_content(owner key) (xor_name crate), derived by the driver from the parts of the address",
                     "a peer set with a repeated peer is a list of entries: results are compared as digests; whether a list of CLOSE_GROUP_SIZE entries with fewer distinct peers should be reported as "
                     "'too few' is not decided by the statement and not judged",
                     "crafted distances: a real libp2p Distance with a chosen value is obtained as distance(a_0, a_0 xor T) where the key-space point is reached with libp2p's own for_distance from real "
                     "address distances; the event is judged like any other distance (value = XOR of the two digests)"]
    return v.finish()
