"""C08 -- replication fetcher (specs/replfetcher, driver drv_fetcher, hook H3)."""
import os
import re
from vcheck import *

PROPS = ["C08"]
PACKAGES = ["drv_net"]
META = {
    "C08": {
        "engine": "replfetcher", "more_engines": ["network"],
        "level": "model_checking",
        "technique": "TLA+ state machine of the replication fetcher; TLC exhaustive (bounded depth) + simulation; TLC behaviours replayed into the real ReplicationFetcher and every recorded step validated by TLC against the clause operators and the model's step relation",
        "text": "Each clause of C08 is a step predicate of ReplFetcher.tla. TLC checks them on every behaviour of the implementation-shaped model up to the depth bound "
                "(all interleavings of advertisements, completions, early completions, range/fullness updates, per-entry timer expiries) and on random deep behaviours; "
                "those behaviours plus driver-generated random ones over a larger universe are executed on the real fetcher (limit 20 reached by 18 filler fetches) and "
                "each real step is judged by the same operators; the model's step relation is the drift predicate. Progress is checked as liveness on the model and as bounded rounds on the code. "
                "'Leaves the in-flight set when the record arrives' is also judged on 2-3 REAL nodes exchanging real messages in any order (specs/network, drv_netw: clause C08_LeavesInFlight at node level). "
                "The fullness and range limits are also followed into a REAL node (NodeLink.tla): a node built by build_node has its store filled to the shipped 16384-record capacity through the "
                "real PutLocalRecord handler, and advertisements delivered through the real Cmd::Replicate handler before/after a farther record was refused and the range was handed over are judged by the node-level clauses.",
        "note": "trusted: TLC; the driver's id mapping (own SHA-256/XOR ranking); deadlines aged per entry through hook H3 instead of waiting 20 s/900 s; HashMap tie order among same-key entries is modelled as nondeterminism",
        "design_ref": "5 Area ReplFetcher",
    }
}


def scenarios_from(r):
    out = []
    seen = set()
    for ln in r.output.splitlines():
        if ln.startswith('<<"SCN", "'):
            body = ln[len('<<"SCN", '):]
            body = body[:body.rindex('>>')].strip()
            txt = json.loads(body)
            if txt in seen:
                continue
            seen.add(txt)
            out.append(json.loads(txt))
    return out


def sim_states(r):
    m = re.search(r"The number of states generated: (\d+)", r.output)
    return int(m.group(1)) if m else 0


def model_phase(v, w, thorough, scn_path):
    # 1. exhaustive, depth-bounded
    mc = tlc("replfetcher", "MCReplFetcher", "MCReplFetcher_thorough.cfg" if thorough else "MCReplFetcher.cfg", w,
             workers=12, timeout=3400)
    v.add_model(mc)
    if mc.violated:
        v.violation("model:" + mc.violated, "the model of the fetcher falsifies a clause (design-level counterexample)",
                    {"area": "replfetcher", "tlc": mc.error_text[:6000]})
    never = [a for a in mc.actions_never_taken() if a.startswith("Do")]
    if never:
        raise ToolError("actions never taken in MCReplFetcher: %s" % never)
    # 2. liveness on the model (fair responsive holder)
    lv = tlc("replfetcher", "MCReplFetcherLive", "MCReplFetcherLive.cfg", w, workers=8, timeout=1800)
    v.add_model(lv)
    if lv.violated:
        v.violation("C08_Progress(model)", "liveness counterexample on the model", {"area": "replfetcher", "tlc": lv.error_text[:6000]})
    # 3. random deep behaviours, recorded for replay
    sim = tlc("replfetcher", "MCReplFetcher", "MCReplFetcher_sim.cfg", w, workers=1,
              simulate="num=%d" % (3000 if thorough else 300), depth=16, coverage=False, timeout=3000,
              extra=["-seed", str(seed())])
    if sim.violated:
        v.violation("model:" + sim.violated, "clause falsified on a simulated model behaviour", {"area": "replfetcher", "tlc": sim.error_text[:6000]})
    v.cov["states"] += sim_states(sim)
    v.cov["transitions"] += sim_states(sim)
    scns = scenarios_from(sim)
    write_ndjson(scn_path, scns)


def node_link(v, w, seeds, with_model=True):
    """The store / fetcher link of a real node (cmd.rs): full store => fetcher limited; range handed over."""
    if with_model:
        mc = tlc("replfetcher", "NodeLink", "NodeLink.cfg", w, workers=4, timeout=600)
        v.add_model(mc)
        if mc.violated:
            v.violation("model:" + mc.violated, "the model of the store/fetcher link falsifies a clause",
                        {"area": "replfetcher", "tlc": mc.error_text[:6000]})
    adverts = 0
    for sd in seeds:
        trace = os.path.join(w, "nodelink-%d.ndjson" % sd)
        run_driver("drv_nodelink", ["--out", trace, "--work", w], w, env={"VERIF_SEED": str(sd)})
        rep = validate_trace("replfetcher", "NodeLinkTrace", "NodeLinkTrace.cfg", trace, w, timeout=600)
        events = read_ndjson(trace)
        adverts += sum(1 for e in events if e["ev"] == "Advert")
        for x in rep["violations"]:
            e = events[x["line"] - 1]
            if x["clause"] == "Malformed":
                raise ToolError("malformed node-link trace line %d: %s" % (x["line"], e))
            v.violation(x["clause"] + "(node)", "real node with a store at capacity, trace line %d: %s" % (x["line"], json.dumps(e)[:600]),
                        {"area": "replfetcher", "nodelink_seed": sd, "event": e})
    v.cov["node_link_adverts"] = adverts
    v.cov["node_link_runs"] = len(seeds)


def wide_run(w, thorough, scn_path=None, stress_index=None, stress_seed=None):
    if stress_index is not None:
        # the fetcher's queue is a HashMap with a per-process random state: the same run is repeated a few times
        for _ in range(20):
            found, n, drift = _wide_run(w, thorough, scn_path, stress_index, stress_seed)
            if found:
                break
        return found, n, drift
    return _wide_run(w, thorough, scn_path, stress_index, stress_seed)


def _wide_run(w, thorough, scn_path=None, stress_index=None, stress_seed=None):
    """Ordering stress with 5 free slots: queued entries whose closest members cannot be started (another holder's
    fetch of the same record version is in flight), several dozen queued entries. Returns (violations, steps, drift)."""
    trace_w = os.path.join(w, "trace-wide.ndjson")
    if stress_index is not None:
        run_driver("drv_fetcher", ["--free", 5, "--stress", 1, "--stress-from", stress_index, "--steps", 30, "--out", trace_w], w,
                   env={"VERIF_SEED": str(stress_seed if stress_seed is not None else seed())})
    elif scn_path:
        run_driver("drv_fetcher", ["--scenarios", scn_path, "--free", 5, "--out", trace_w], w)
    else:
        run_driver("drv_fetcher", ["--free", 5, "--stress", 1500 if thorough else 150, "--steps", 30, "--out", trace_w], w)
    rep_w = validate_trace("replfetcher", "ReplFetcherTrace", "ReplFetcherTrace_wide.cfg", trace_w, w, timeout=3400, heap="6g")
    ev_w = read_ndjson(trace_w)
    found, drift = [], []
    for x in rep_w["violations"]:
        e = ev_w[x["line"] - 1]
        if x["clause"] == "Malformed":
            raise ToolError("malformed trace line %d: %s" % (x["line"], e))
        s0 = max(i for i in range(x["line"]) if ev_w[i]["ev"] == "Reset")
        steps_w = [{k: q[k] for k in ("ev", "h", "list", "held", "k", "t", "rg", "e") if q.get(k) is not None} for q in ev_w[s0 + 1:x["line"]]]
        found.append((x["clause"], "ordering-stress run (5 free slots), step %s at trace line %d: ret=%s og=%s tf=%s" % (
            e["ev"], x["line"], e.get("ret"), e.get("og"), e.get("tf")),
            {"area": "replfetcher", "free": 5, "stress_index": ev_w[s0].get("index"), "seed": seed(), "scenario": steps_w, "event": e}))
    for ln in rep_w.get("drift", []):
        e = ev_w[ln - 1]
        drift.append({"line": ln, "ev": e["ev"], "og": e["og"], "tf": e["tf"], "exp": e.get("exp"), "run": "wide"})
    return found, sum(1 for e in ev_w if e["ev"] not in ("Reset", "RoundsDone")), drift


def run(prop, tier, replay=None):
    v = Verdict(prop, tier, replaying=replay is not None)
    w = workdir(prop)
    thorough = tier == "thorough"
    if replay and "nodelink_seed" in replay:
        build(PACKAGES)
        node_link(v, w, [replay["nodelink_seed"]], with_model=False)
        return v.finish()
    if replay and replay.get("area") == "network":
        from areas.replication import network_stage
        build(PACKAGES)
        network_stage(v, w, thorough, replay, prefix="C08_", light=True)
        return v.finish()
    scn_path = os.path.join(w, "scenarios.ndjson")
    if replay:
        write_ndjson(scn_path, [replay["scenario"]])
    else:
        cache = os.path.join(WORK, "cache-C08-scenarios.ndjson")
        if os.environ.get("VERIF_SKIP_MODEL") == "1" and os.path.exists(cache):   # dev only: reuse scenarios, skip the model runs
            shutil.copy(cache, scn_path)
            v.cov["states"] = v.cov["transitions"] = 1
        else:
            model_phase(v, w, thorough, scn_path)
            shutil.copy(scn_path, cache)
    build(PACKAGES)
    trace = os.path.join(w, "trace.ndjson")
    args = ["--scenarios", scn_path, "--out", trace] if not (replay and replay.get("free")) else ["--out", trace]
    if not replay:
        args += ["--random", 2000 if thorough else 150, "--steps", 40, "--rounds", 1000 if thorough else 100]
    run_driver("drv_fetcher", args, w)
    rep = validate_trace("replfetcher", "ReplFetcherTrace", "ReplFetcherTrace.cfg", trace, w, timeout=3400, heap="6g")
    events = read_ndjson(trace)
    # scenario (run) boundaries for replay payloads
    run_start = {}
    cur = 0
    for i, e in enumerate(events):
        if e["ev"] == "Reset":
            cur = i
        run_start[i] = cur

    def scenario_of(line):
        s = run_start[line - 1]
        steps = []
        for e in events[s + 1:line]:
            if e["ev"] in ("Reset", "RoundsDone"):
                break
            steps.append({k: e[k] for k in ("ev", "h", "list", "held", "k", "t", "rg", "e") if e.get(k) is not None})
        return steps

    for x in rep["violations"]:
        e = events[x["line"] - 1]
        if x["clause"] == "Malformed":
            raise ToolError("malformed trace line %d: %s" % (x["line"], e))
        v.violation(x["clause"], "step %s at trace line %d (src=%s): ret=%s og=%s tf=%s failed=%s" % (
            e["ev"], x["line"], e.get("src"), e.get("ret"), e.get("og"), e.get("tf"), e.get("failed")),
            {"area": "replfetcher", "scenario": scenario_of(x["line"]), "event": e})
    if not replay or replay.get("free"):
        found, nsteps, drift_w = wide_run(w, thorough, scn_path if replay else None,
                                          replay.get("stress_index") if replay else None, replay.get("seed") if replay else None)
        for clause, msg, payload in found:
            v.violation(clause, msg, payload)
        v.drift.extend(drift_w)
        v.cov["stress_steps"] = nsteps
    runs = sum(1 for e in events if e["ev"] == "Reset")
    steps = [e for e in events if e["ev"] not in ("Reset", "RoundsDone")]
    distinct = set(json.dumps([e[k] for k in ("ev", "h", "list", "held", "k", "t", "rg", "e", "og", "tf")], sort_keys=True) for e in steps
                   if e["ret"] or e["failed"] or e["ev"] in ("NotifyPut", "NotifyEarly", "SetFarthest"))
    v.cov["evaluations"] = len(steps)
    v.cov["distinct_nontrivial"] = len(distinct)
    v.cov["traces_validated_against_impl"] = runs
    v.cov["rule"] = ("a case is one call on the real fetcher inside a run (TLC-simulated behaviour, driver-random behaviour over 8 keys x 4 types x 4 holders, or a "
                     "bounded-progress round run); non-trivial = it started a fetch, reported a failed holder, or was a completion/limit update; distinct = "
                     "distinct (call, arguments, resulting queue and in-flight sets)")
    v.cov["samples"] = [scenario_of(i + 1)[:6] for i, e in enumerate(events) if e["ev"] == "RoundsDone"][:1] + \
                       [{k: e[k] for k in ("ev", "h", "list", "held", "k", "t", "ret", "failed", "og", "tf", "src")} for e in steps[:3]]
    v.cov["impl_stats"] = rep.get("stats")
    v.cov["rounds_runs"] = sum(1 for e in events if e["ev"] == "RoundsDone")
    if not replay:
        node_link(v, w, [seed() * 100 + i for i in range(6 if thorough else 2)])
        # the fetcher inside REAL nodes exchanging real messages (specs/network, drv_netw): "every fetch leaves the in-flight
        # set when the record arrives" judged where arrival means the holder's answer being handed to the requesting node
        from areas.replication import network_stage
        network_stage(v, w, thorough, None, prefix="C08_", light=True)
    v.cov["exhaustive"] = False
    v.assumptions = ["advertisement lists are sets (no duplicate (key,type) inside one list)",
                     "deadlines are aged entry-wise through the hook; real 20 s / 900 s timers are not awaited",
                     "the exhaustive model run is depth-bounded (quick 3, thorough 4 calls) over 3 keys x 2 types x 2 holders; deeper behaviours are sampled"]
    return v.finish()
