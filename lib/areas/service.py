"""C19, C20 -- node service lifecycle and service definitions (specs/service, driver drv_svc)."""
import hashlib
import os
import random
import subprocess
from vcheck import *

PROPS = ["C19", "C20"]
META = {
    "C19": {
        "engine": "service",
        "level": "model_checking",
        "technique": "TLA+ state machine of the registry and of the OS as seen through ServiceControl/RpcActions; every antctl "
                     "operation is the sequence of calls the code makes, each call may fail without effect; TLC explores all operation "
                     "sequences and fault placements within the bounds, emits them as scenarios; the real manager code is replayed "
                     "against a simulated OS and TLC judges the recorded (registry, OS) state pairs with the clause operators",
        "text": "TLC enumerates every sequence of <= 5 (thorough 6) add/start/stop/remove/upgrade operations over <= 2 services with "
                "every placement of <= 2 failing ServiceControl/RpcActions calls, evaluating the C19 clauses on every transition. Each "
                "distinct model state comes with a witness history; these histories (operation sequence, fault placement as index into "
                "the scenario's global call sequence, expected state) and seeded random longer sequences over up to 4 services are "
                "executed on the REAL add_node / refresh_node_registry / ServiceManager::{start,stop,remove,upgrade} / "
                "NodeRegistry::{save,load} against a simulated OS (installed definitions, processes with pids, port allocator, fault "
                "script). After every operation the projected registry, the projected OS and the reload comparison are logged and judged "
                "by the same TLA+ clause operators (trace validation).",
        "note": "trusted: the simulated OS semantics (install overwrites, uninstall of a missing definition = 'removed manually', start "
                "of an active unit is a no-op, processes survive uninstall), TLC. An operation is what the antctl command does for one "
                "service (partial refresh, then the ServiceManager call). Between operations the environment may kill the process of "
                "a service or respawn it with a new pid; such events are not judged themselves, the next operation is.",
        "design_ref": "5 Area ServiceLifecycle",
    },
    "C20": {
        "engine": "service",
        "level": "model_checking",
        "technique": "executable TLA+ specification of the antctl -> antnode command-line contract (argument list per option, installable "
                     "combinations, the node's interpretation); TLC enumerates a covering array of option combinations and is the oracle "
                     "over the install context, the upgrade context and the option dump of the real antnode binary (hook H7)",
        "text": "TLC checks on every enumerated combination that the specified argument list is interpreted by the specified node CLI as "
                "the intended configuration, verifies that the case list covers all installable pairs (thorough: triples) of option values, "
                "and writes the cases. For each case the REAL add_node and ServiceManager::upgrade -> build_upgrade_install_context run "
                "against the simulated OS, which captures both ServiceInstallCtx; the antnode binary built from the same tree with the H7 "
                "hook is run on both argument lists. The trace specification compares the two contexts as multisets of (flag, value) plus "
                "program/user/working dir/environment/autostart, and the node's dumped interpretation with the intended options.",
        "note": "trusted: TLC, the tokenisation of argument lists by the known flag table, the simulated OS. Upgrade options are those an "
                "`antctl upgrade` without explicit changes carries (auto-restart of the service, environment of the registry) or an "
                "explicit --env. Services are upgraded before their first start.",
        "design_ref": "5 Area ServiceLifecycle",
    },
}
PACKAGES = ["drv_svc"]
NPROC = 8
ANTNODE_TARGET = os.path.join(HARNESS, "target-antnode")
ANTNODE_BIN = os.path.join(ANTNODE_TARGET, "release", "antnode")


def _env():
    e = {}
    if not os.environ.get("USER"):
        try:
            e["USER"] = subprocess.run(["id", "-un"], stdout=subprocess.PIPE, text=True).stdout.strip() or "root"
        except Exception:
            e["USER"] = "root"
    return e


def _run_parallel(jobs, w, timeout=3000):
    """jobs: list of argument lists for drv_svc; run at most NPROC at a time (the work is I/O latency bound)."""
    exe = os.path.join(BIN, "drv_svc")
    env = dict(os.environ)
    env["VERIF_SEED"] = str(seed())
    env.update(_env())
    pending = list(enumerate(jobs))
    running = []
    while pending or running:
        while pending and len(running) < NPROC:
            i, a = pending.pop(0)
            log_path = os.path.join(w, "drv-%d.log" % i)
            f = open(log_path, "w")
            running.append((subprocess.Popen([exe] + [str(x) for x in a], cwd=w, env=env, stdout=f, stderr=subprocess.STDOUT), f, log_path, a))
        p, f, log_path, a = running.pop(0)
        try:
            rc = p.wait(timeout=timeout)
        except subprocess.TimeoutExpired:
            p.kill()
            raise ToolError("driver drv_svc timed out: %s" % a)
        f.close()
        if rc != 0:
            raise ToolError("driver drv_svc %s failed (exit %s):\n%s" % (a, rc, open(log_path).read()[-3000:]))


# ------------------------------------------------------------------------------------------------ C19
def _mc_scenarios(cfg, w):
    """Run MCService with cfg; returns (TlcResult, scenarios). Every distinct model state prints the history that reached
    it; histories that are a proper prefix of another one are dropped, each remaining one becomes a scenario whose steps
    carry the model's expected result / state / falsified clauses."""
    r = tlc("service", "MCService", cfg, w, workers=8, timeout=3000, heap="12g")
    if r.violated:
        raise ToolError("MCService/%s: %s\n%s" % (cfg, r.violated, r.error_text[:2000]))
    recs = []
    prefix = '<<"SCN", '
    garbled = 0
    for ln in r.output.splitlines():
        if ln.startswith(prefix):
            try:
                recs.append(json.loads(json.loads(ln[len(prefix):-2])))
            except ValueError:
                garbled += 1          # two workers printing at once; the state is still covered by its successors
    if garbled:
        log("C19 %s: %d garbled scenario lines skipped" % (cfg, garbled))
    r.output = ""
    if not recs:
        raise ToolError("MCService/%s emitted no scenario" % cfg)
    key = lambda h: json.dumps(h, sort_keys=True)
    by = {}
    for d in recs:
        by[key(d["h"])] = d["x"]
    prefixes = set()
    for d in recs:
        for n in range(1, len(d["h"])):
            prefixes.add(key(d["h"][:n]))
    scenarios = []
    for d in recs:
        if key(d["h"]) in prefixes:
            continue
        steps = []
        for n in range(1, len(d["h"]) + 1):
            x = by.get(key(d["h"][:n]))
            s = dict(d["h"][n - 1])
            if x is not None:
                s.update(ncalls=x["ncalls"], res=x["res"], exp=x["exp"], mv=x["mv"])
            steps.append(s)
        scenarios.append({"steps": steps})
    return r, scenarios, len(recs)


def _slim(e):
    if e["ev"] != "Op":
        return {"ev": e["ev"], "run": e.get("run", 0)}
    return {"ev": "Op", "run": e["run"], "i": e["i"], "op": e["op"], "svc": e["svc"], "res": e["res"], "req": e["req"],
            "reload_eq": e["reload_eq"], "refreshed": e["refreshed"],
            "reg": [{"st": r["st"], "pid": r["pid"], "name": r["name"], "dir": r["dir"], "ports": r["ports"], "um": r["um"]} for r in e["reg"]],
            "os": {"procs": e["os"]["procs"], "insts": e["os"]["insts"]}}


def _validate_life(events, w, tag):
    """Trace validation in chunks (split at run boundaries); returns list of (clause, event index)."""
    out = []
    chunk, base, n_chunk = [], 0, 0
    bounds = []
    for i, e in enumerate(events):
        if e["ev"] == "Reset" and len(chunk) >= 100000:
            bounds.append((base, chunk))
            base, chunk = i, []
        chunk.append(e)
    if chunk:
        bounds.append((base, chunk))
    for base, chunk in bounds:
        n_chunk += 1
        path = os.path.join(w, "slim-%s-%d.ndjson" % (tag, n_chunk))
        write_ndjson(path, [_slim(e) for e in chunk])
        rep = validate_trace("service", "ServiceTrace", "ServiceTrace.cfg", path, w, timeout=3000, heap="12g")
        for x in rep["violations"]:
            out.append((x["clause"], base + x["line"] - 1))
    return out


def _scenario_of(events, idx):
    """The scenario (operations + fault placement) of the run that contains event idx, up to that event."""
    run = events[idx]["run"]
    j = idx
    while j >= 0 and not (events[j]["ev"] == "Reset" and events[j]["run"] == run):
        j -= 1
    reset = events[j]
    steps = []
    for e in events[j + 1: idx + 1]:
        if e["ev"] == "Op" and e["run"] == run:
            steps.append({"op": e["op"], "svc": e["svc"], "cnt": e["cnt"], "port": e["port"], "kind": e["kind"], "start": e["start"],
                          "port2": e.get("port2", 0), "kind2": e.get("kind2", ""), "keep": e["keep"], "faults": e["consumed"]})
    return {"id": 1, "um": reset.get("um", False), "arst": reset.get("arst", False), "dne": reset.get("dne", False), "steps": steps}


def run_c19(v, w, tier, replay):
    thorough = tier == "thorough"
    scen_path = os.path.join(w, "scenarios.ndjson")
    n_states = 0
    if replay:
        sc = dict(replay["scenario"])
        sc["id"] = 1
        write_ndjson(scen_path, [sc])
        scenarios = [sc]
    else:
        # 1. exhaustive exploration of the model + scenario generation
        # + [C19-1] environment actions (kill / respawn), [C19-2] two port options of different kinds in one add; the class
        # "ranges overlapping across kinds" (the unchanged tree let two services of one batch record the same port: fixed in /repo by 65feffc)
        ports_cfg = "MCService_ports_x.cfg"
        cfgs = (["MCService_thorough.cfg", "MCService_wide.cfg", "MCService_env_thorough.cfg", ports_cfg] if thorough
                else ["MCService.cfg", "MCService_env.cfg", ports_cfg])
        scenarios, seen = [], set()
        for cfg in cfgs:
            mc, scs, n_rec = _mc_scenarios(cfg, w)
            v.add_model(mc)
            n_states += mc.distinct
            log("C19 %s: %d distinct states, %d transitions, %d histories -> %d scenarios (%.0fs)" % (cfg, mc.distinct, mc.generated, n_rec, len(scs), mc.wall))
            for s in scs:
                k = hashlib.sha1(json.dumps([[t.get(f) for f in ("op", "svc", "cnt", "port", "kind", "start", "faults", "port2", "kind2")] for t in s["steps"]]).encode()).hexdigest()
                if k not in seen:
                    seen.add(k)
                    scenarios.append(s)
        for i, s in enumerate(scenarios):
            s["id"] = i + 1
            s["um"] = i % 2 == 1
            s["arst"] = (i // 2) % 2 == 1
            s["dne"] = (i // 4) % 2 == 1
        # 1b. the clause operators are not vacuous on the model: the two repaired defects, put back into the model, are found
        for cfg, what in (("MCService_neg_pid.cfg", "failed process lookup taken as 'not running'"),
                          ("MCService_neg_name.cfg", "service numbered by registry length")):
            neg = tlc("service", "MCService", cfg, w, workers=8, timeout=1200, coverage=False)
            if neg.violated != "NoClauseFalsified":
                raise ToolError("negative model %s (%s) falsifies no C19 clause: the clause operators would be vacuous" % (cfg, what))
    # 2. build + replay into the real code
    build(PACKAGES)
    n_rand = 0 if replay else (4000 if thorough else 400)
    jobs, traces = [], []
    if replay:
        t = os.path.join(w, "trace-0.ndjson")
        jobs.append(["life", "--scenarios", scen_path, "--out", t, "--work", os.path.join(w, "run0"), "--keep-dirs"])
        traces.append(t)
    else:
        per = (len(scenarios) + NPROC - 1) // NPROC
        for c in range(NPROC):
            part = scenarios[c * per:(c + 1) * per]
            if not part:
                continue
            p = os.path.join(w, "scenarios-%d.ndjson" % c)
            write_ndjson(p, part)
            t = os.path.join(w, "trace-%d.ndjson" % c)
            jobs.append(["life", "--scenarios", p, "--out", t, "--work", os.path.join(w, "run%d" % c)])
            traces.append(t)
        t = os.path.join(w, "trace-random.ndjson")
        jobs.append(["life", "--out", t, "--work", os.path.join(w, "runr"), "--random", n_rand])
        traces.append(t)
    _run_parallel(jobs, w)
    events = []
    for t in traces:
        events += read_ndjson(t)
    # 3. TLC judges every recorded (state before, operation, state after)
    viols = _validate_life(events, w, "life")
    ops = [e for e in events if e["ev"] == "Op"]
    by_id = {s["id"]: s for s in scenarios}
    real = {}
    for clause, idx in viols:
        e = events[idx]
        real.setdefault((e["run"], e["i"]), set()).add(clause)
    reported = set()
    for clause, idx in viols:
        e = events[idx]
        if clause == "Malformed":
            raise ToolError("malformed trace line %d: %s" % (idx + 1, json.dumps(e)[:300]))
        k = (clause, e["op"], e["res"])
        if k in reported and len(v.violations) >= 5:
            continue
        reported.add(k)
        v.violation(clause, "run %s step %s: %s(svc %s) -> %s; registry %s; processes %s; faults consumed so far %s" % (
            e["run"], e["i"], e["op"], e["svc"], e["res"],
            [(r["st"], r["pid"], r["name"], r["dir"]) + ((tuple(r["ports"]),) if clause in ("C19_NoSharedPort", "C19_PortRefused") else ()) for r in e["reg"]],
            e["os"]["procs"], _scenario_of(events, idx)["steps"][-1]["faults"]),
            {"area": "service", "kind": "life", "scenario": _scenario_of(events, idx)})
    # model / implementation disagreement that keeps the property: drift
    for e in ops:
        if e["exp_ok"] is False:
            v.drift.append({"run": e["run"], "step": e["i"], "op": e["op"], "res": e["res"], "calls": e["calls"]})
        if e["src"] == "tlc" and not replay:
            s = by_id.get(e["run"])
            if s and e["i"] <= len(s["steps"]):
                mv = set(s["steps"][e["i"] - 1].get("mv", []))
                if mv and not real.get((e["run"], e["i"])):
                    v.drift.append({"run": e["run"], "step": e["i"], "model_predicts": sorted(mv), "real": "held"})
    nontrivial = set()
    for e in ops:
        if e["consumed"] or (e["op"] in ("Stop", "Remove") and e["res"] == "Ok") or (e["op"] == "Add" and e["res"] != "Ok"):
            nontrivial.add(e["run"])
    v.cov["evaluations"] = len(ops)
    v.cov["distinct_nontrivial"] = len(nontrivial)
    v.cov["traces_validated_against_impl"] = sum(1 for e in events if e["ev"] == "Reset")
    v.cov["events_validated"] = len(events)
    v.cov["scenarios_from_tlc"] = len(scenarios)
    v.cov["random_runs"] = n_rand
    v.cov["faults_injected"] = sum(len(e["consumed"]) for e in ops)
    v.cov["by_op_result"] = {}
    for e in ops:
        k = "%s/%s" % (e["op"], e["res"])
        v.cov["by_op_result"][k] = v.cov["by_op_result"].get(k, 0) + 1
    v.cov["rule"] = ("one scenario per distinct model state (registry, OS, fault budget, depth, clauses falsified so far) = the first "
                     "history that reached it (maximal histories only), operation sequences <= %d over <= 2 services, <= 2 faults at every "
                     "call position; the same with environment events (process killed / respawned with a new pid) for <= %d operations and "
                     "<= %d faults; adds with two port options of different kinds for <= 3 operations over <= 3 services; plus seeded random "
                     "sequences of 3..12 operations and environment events over <= 4 services with 0..2 faults. An evaluation "
                     "is one operation of the real code judged by all C19 clauses; distinct_nontrivial = runs with a consumed fault, a "
                     "successful stop/remove or a refused add." % (6 if thorough else 5, 5 if thorough else 4, 2 if thorough else 1))
    v.cov["env_events"] = sum(1 for e in ops if e["op"] in ("Kill", "Respawn"))
    v.cov["adds_with_two_port_kinds"] = sum(1 for e in ops if e["op"] == "Add" and e.get("port2"))
    v.cov["samples"] = [{k: e[k] for k in ("run", "i", "op", "svc", "res", "consumed", "calls", "reg", "os", "reload_eq", "src")}
                        for e in (ops[:2] + ops[len(ops) // 2: len(ops) // 2 + 1] + ops[-1:])]
    v.cov["exhaustive"] = (not replay) and not v.drift
    v.assumptions = [
        "simulated OS: install overwrites a definition of the same label; uninstall of a missing definition reports 'removed manually'; "
        "start of an active unit succeeds without effect; stop/start of a missing unit fail; processes survive uninstall; "
        "get_process_pid finds a process by its binary path",
        "a fault is a ServiceControl/RpcActions call that returns an error and has no effect (I6); processes die / are respawned by the OS "
        "only between operations (environment events Kill / Respawn); a record that was already stale before an operation that never "
        "read the process table (`add`, or a refresh cut short by a failing call) is not charged to that operation",
        "uninstall of a missing definition reports ServiceRemovedManually or ServiceDoesNotExists (per scenario); the simulated node reports two connected peers",
        "an operation is the antctl command for one service: refresh_node_registry(partial) then ServiceManager::{start,stop,remove,upgrade}; add = add_node",
        "exhaustive within: <= 2 services, <= %d operations, <= 2 faults, one requestable port; with environment events: <= %d operations, "
        "<= %d faults; two port options of different kinds per add: <= 3 services, <= 3 operations, no faults, three requestable ports%s" % (
            6 if thorough else 5, 5 if thorough else 4, 2 if thorough else 1,
            ""),
    ]


# ------------------------------------------------------------------------------------------------ entry
def run(prop, tier, replay=None):
    v = Verdict(prop, tier, replaying=replay is not None)
    w = workdir(prop)
    if prop == "C19":
        run_c19(v, w, tier, replay)
    else:
        run_c20(v, w, tier, replay)
    return v.finish()


def build_antnode(timeout=3600):
    """antnode from the current /repo tree WITH the verification cfg (hook H7), into harness/target-antnode."""
    import fcntl
    os.makedirs(WORK, exist_ok=True)
    lock = open(os.path.join(WORK, ".build.lock"), "w")
    fcntl.flock(lock, fcntl.LOCK_EX)
    try:
        env = dict(os.environ)
        env["CARGO_NET_OFFLINE"] = "true"
        env["RUSTFLAGS"] = "--cfg maidsafe_safe_network_verif --check-cfg cfg(maidsafe_safe_network_verif)"
        cmd = ["cargo", "build", "--release", "--offline", "--manifest-path", os.path.join(REPO, "ant-node", "Cargo.toml"),
               "--bin", "antnode", "--target-dir", ANTNODE_TARGET]
        p = subprocess.run(cmd, cwd=HARNESS, env=env, stdout=subprocess.PIPE, stderr=subprocess.STDOUT, text=True, timeout=timeout)
        if p.returncode != 0 or not os.path.exists(ANTNODE_BIN):
            raise ToolError("antnode build failed:\n" + "\n".join(p.stdout.splitlines()[-60:]))
    finally:
        fcntl.flock(lock, fcntl.LOCK_UN)
        lock.close()
    # the binary must carry the hook
    q = subprocess.run([ANTNODE_BIN, "--rewards-address", "0x03B770D9cD32077cC0bF330c13C114a87643B124", "evm-arbitrum-one"],
                       env={"ANTNODE_VERIF_DUMP_OPT": "1", "HOME": w_home()}, stdout=subprocess.PIPE, stderr=subprocess.STDOUT, text=True, timeout=60)
    if q.returncode != 0 or "ANTNODE_VERIF_OPT " not in q.stdout:
        raise ToolError("antnode built without hook H7 (exit %s): %s" % (q.returncode, q.stdout[-500:]))


def w_home():
    d = os.path.join(WORK, "C20", "home")
    os.makedirs(d, exist_ok=True)
    return d


def _validate_args(events, w):
    out = []
    size = 4000
    for k in range(0, len(events), size):
        path = os.path.join(w, "cases-trace-%d.ndjson" % (k // size))
        write_ndjson(path, events[k:k + size])
        rep = validate_trace("service", "ServiceArgsTrace", "ServiceArgsTrace.cfg", path, w, timeout=3000, heap="8g")
        for x in rep["violations"]:
            out.append((x["clause"], k + x["line"] - 1))
    return out


def run_c20(v, w, tier, replay):
    thorough = tier == "thorough"
    cases_path = os.path.join(w, "cases.ndjson")
    if replay:
        # replays recorded before a dimension existed: the value that means "as before"
        o = dict({"nat": "off", "multi": False, "started": False}, **replay["case"]["o"])
        cases = [dict(replay["case"], o=o, id=1)]
    else:
        # 1. laws of the executable specification on every case, coverage of the case list, case generation
        mc = tlc("service", "MCServiceArgs", "MCServiceArgs_thorough.cfg" if thorough else "MCServiceArgs.cfg", w,
                 env={"CASES": cases_path}, workers=8, timeout=3000, heap="12g")
        if mc.violated:
            raise ToolError("the executable specification of C20 is inconsistent (%s):\n%s" % (mc.violated, mc.error_text[:2000]))
        v.add_model(mc)
        cases = read_ndjson(cases_path)
        cases.sort(key=lambda c: json.dumps(c["o"], sort_keys=True))
        for i, c in enumerate(cases):
            c["id"] = i + 1
        log("C20 MCServiceArgs: %d installable option combinations (pairwise coverage checked by TLC%s) in %.0fs" % (
            len(cases), ", strength-3 array" if thorough else "", mc.wall))
    # 2. build the driver and the node binary from the same tree
    build(PACKAGES)
    build_antnode()
    jobs, traces = [], []
    per = (len(cases) + NPROC - 1) // NPROC
    for c in range(NPROC):
        part = cases[c * per:(c + 1) * per]
        if not part:
            continue
        p = os.path.join(w, "cases-%d.ndjson" % c)
        write_ndjson(p, part)
        t = os.path.join(w, "trace-%d.ndjson" % c)
        jobs.append(["args", "--cases", p, "--out", t, "--work", os.path.join(w, "run%d" % c), "--antnode", ANTNODE_BIN] + (["--keep-dirs"] if replay else []))
        traces.append(t)
    _run_parallel(jobs, w)
    events = []
    for t in traces:
        events += read_ndjson(t)
    # 3. TLC compares the contexts and the node's interpretation with the intended options
    viols = _validate_args(events, w)
    seen = set()
    for clause, idx in viols:
        e = events[idx]
        if clause == "Malformed":
            raise ToolError("malformed trace line: %s" % json.dumps(e)[:300])
        if clause.startswith("Drift_"):
            v.drift.append({"case": e["id"], "what": clause, "o": e["o"]})
            continue
        if clause.startswith("KF:"):
            kf = next((k for k in kf_for("C20") if k["id"] == clause[3:]), None)
            if kf is None:
                raise ToolError("trace spec matched an unlisted finding %s" % clause)
            v.known_finding(kf, "case %s: install env %s -> upgrade env %s after a second `add --env %s`" % (
                e["id"], e.get("install", {}).get("env"), e.get("upgrade", {}).get("env"), e["conc"].get("oenv")))
            continue
        key = (clause, e["add_res"], e["upg_res"], e["node_i"].get("ok"), e["node_u"].get("ok"))
        if key in seen and len(v.violations) >= 5:
            continue
        seen.add(key)
        ia, ua = e.get("install", {}).get("args", []), e.get("upgrade", {}).get("args", [])
        only_i = [a for a in ia if a not in ua]
        only_u = [a for a in ua if a not in ia]
        detail = "case %s: add=%s start=%s upgrade=%s(%s); only in install args %s; only in upgrade args %s (port the started node listened on: %r); user_mode %s->%s; autostart %s->%s; env %s->%s; node(install) exit %s %s; node(upgrade) exit %s %s; options %s" % (
            e["id"], e["add_res"], e.get("start_res"), e["upg_res"], e["upg_detail"][:80], only_i, only_u, e["conc"].get("listen"),
            e.get("install_um"), e.get("upgrade_um"),
            e.get("install", {}).get("autostart"), e.get("upgrade", {}).get("autostart"),
            e.get("install", {}).get("env"), e.get("upgrade", {}).get("env"),
            e["node_i"].get("exit"), e["node_i"].get("err", "")[:120].replace("\n", " "),
            e["node_u"].get("exit"), e["node_u"].get("err", "")[:120].replace("\n", " "), json.dumps(e["o"], sort_keys=True))
        v.violation(clause, detail, {"area": "service", "kind": "args", "case": {"o": e["o"]}})
    v.cov["evaluations"] = len(events)
    v.cov["distinct_nontrivial"] = len(set(json.dumps(e["o"], sort_keys=True) for e in events))
    v.cov["traces_validated_against_impl"] = len(events)
    v.cov["events_validated"] = len(events)
    v.cov["node_runs"] = sum(1 for e in events for k in ("node_i", "node_u") if e[k].get("exit", -3) != -3)
    v.cov["node_accepted"] = sum(1 for e in events for k in ("node_i", "node_u") if e[k].get("ok"))
    v.cov["started_before_upgrade"] = sum(1 for e in events if e["o"].get("started") and e.get("start_res") == "Ok")
    v.cov["second_of_batch"] = sum(1 for e in events if e["o"].get("multi"))
    v.cov["auto_nat"] = sum(1 for e in events if e["o"].get("nat", "off") != "off")
    v.cov["rule"] = ("cases = rows of an orthogonal array of strength %d over the 30 dimensions (26 options; whether a second service is added, without / with another --env, before the upgrade; "
                     "--auto-set-nat-flags with each recorded NAT status; --count 2 with port ranges, the SECOND service being the one upgraded; whether the service is started before the upgrade) (network selection incl. custom EVM, "
                     "node/rpc/metrics ports, rpc address, node ip, first/local/peers/contacts-url/ignore-cache/testnet/cache-dir, log "
                     "format/dir/max files/max archived, owner, home-network, upnp, user mode, environment, auto-restart, rewards address, "
                     "network id, upgrade --env), repaired to installable combinations; TLC checks that every installable pair of values "
                     "occurs. One evaluation = one combination through real install + real upgrade + two runs of the real antnode parser." % (3 if thorough else 2))
    v.cov["samples"] = [{"o": e["o"], "install_args": e["install"].get("args"), "upgrade_args": e["upgrade"].get("args"),
                         "node_i": e["node_i"].get("dump")} for e in events[:2]]
    v.cov["exhaustive"] = False
    v.assumptions = [
        "upgrade options are built by antctl_upgrade_options in the driver, a line-by-line transcription of cmd/node.rs upgrade() "
        "(:453, :508-521) for `antctl upgrade [--do-not-start] [--env ..]` (no --force, no --path); cmd/node.rs itself needs the real "
        "service manager and a release download and is not driven; every command works on the registry as reloaded from the saved file",
        "a service started before its upgrade has recorded the port its node listens on; the upgrade is expected to pin it "
        "(--port), see ServiceArgs.tla Pinned / IntendedU; the metrics 'enabled' judgement is derived from the two dumped inputs",
        "one concrete value per option value class (one port, one address, two peers, two urls, ...)",
        "the antnode binary is built from the same tree with default features and cfg maidsafe_safe_network_verif (hook H7)",
    ]
SETUP = [build_antnode]
