"""Client-side collection of store quotes (specs/quoting, driver drv_quoting): Network::get_store_quote_from_network.

A stage of the C13 check.  Only the clause C13_ClientQuotesBound (every (peer, quote) pair handed to the caller verifies for
exactly that peer: the quote carries that peer's public key and a signature by it over the quote's own fields -- judged by
the harness with the keys it generated and its own byte computation) is a verdict of C13.  The other clauses (Quo_*)
describe behaviour no listed property speaks about: a falsified one is printed as SPEC-DEVIATION and counted in the evidence
file, never reported as a violation.  Two deviations of the UNCHANGED tree are kept in /verif/findings and printed as
SPEC-DEVIATION (known ...)."""
import concurrent.futures
import os
import random
from vcheck import *

C13_CLAUSES = ("C13_ClientQuotesBound",)
# deviations of the unchanged tree from the documented intent, outside the listed properties (matched by Quoting.tla KfOf)
KNOWN = {
    "QUO-content-address-unchecked": "a validly signed quote of the answering peer for ANOTHER address is handed to the caller (the quote's content is not compared with the address asked about)",
    "QUO-empty-result-ambiguous": "the empty list that means 'already paid' is also returned when no asked peer gave a quote that verifies although fewer than half answered RecordExists",
}


def enabled():
    """VERIF_ENABLE_QUOTING=0 switches the stage off."""
    return os.environ.get("VERIF_ENABLE_QUOTING", "1") != "0"


def ensure_built():
    """dev aid VERIF_BUILD_BINS (a check builds only the named driver binaries): this stage needs its own driver too"""
    bins = os.environ.get("VERIF_BUILD_BINS", "")
    if bins and "drv_quoting" not in bins.split(","):
        os.environ["VERIF_BUILD_BINS"] = "drv_quoting"
        try:
            build(["drv_net"])
        finally:
            os.environ["VERIF_BUILD_BINS"] = bins


def _view(e):
    return {"nfound": e["nfound"], "selfin": e["selfin"], "ign": e["ign"], "resp": e["resp"], "asked": [[a["p"], a["n"]] for a in e["asked"]], "res": e["res"]}


def _pick(cases, n):
    """the scenarios the driver replays: all of them when few, else a seeded sample that keeps every (nfound, ignore set) pair"""
    if len(cases) <= n:
        return cases
    rnd = random.Random(seed())
    groups = {}
    for c in cases:
        groups.setdefault((c["nfound"], tuple(c["ign"])), []).append(c)
    out = [g[rnd.randrange(len(g))] for g in groups.values()]
    rest = [c for c in cases if c not in out] if len(cases) < 5000 else cases
    out += rnd.sample(rest, max(0, n - len(out)))
    return out


def quoting_stage(v, w, thorough, replay):
    t_stage = time.time()
    ensure_built()
    scn_path = os.path.join(w, "quoting-scenarios.ndjson")
    pool = concurrent.futures.ThreadPoolExecutor(max_workers=2)
    background, negs = [], []
    mc = None
    if replay:
        write_ndjson(scn_path, [replay["scenario"]])
        nrandom = 0
    else:
        negs = [("MCQuoting_neg.cfg", "a model that keeps quotes without the signer check")]
        if thorough:
            negs.append(("MCQuoting_negkf.cfg", "the model without the two known deviations masked"))
        for cfg, what in negs:
            background.append(pool.submit(tlc, "quoting", "MCQuoting", cfg, w, workers=2, timeout=600, coverage=False))
        all_path = os.path.join(w, "quoting-cases.ndjson")
        mc = tlc("quoting", "MCQuoting", "MCQuoting_thorough.cfg" if thorough else "MCQuoting.cfg", w, env={"CASES": all_path},
                 workers=6, timeout=3000, coverage=False)
        if mc.violated:
            raise ToolError("the quoting model falsifies its own clauses: %s\n%s" % (mc.violated, mc.error_text[:3000]))
        v.add_model(mc)
        all_cases = read_ndjson(all_path)
        write_ndjson(scn_path, _pick(all_cases, 20000 if thorough else 1500))
        v.cov["quoting_model_cases"] = len(all_cases)
        nrandom = 20000 if thorough else 1000
    scn_list = read_ndjson(scn_path)
    t_model = time.time()
    trace = os.path.join(w, "quoting-trace.ndjson")
    p = run_driver("drv_quoting", ["--scenarios", scn_path, "--out", trace, "--random", nrandom], w, timeout=3000)
    t_drv = time.time()
    rep = validate_trace("quoting", "QuotingTrace", "QuotingTrace.cfg", trace, w, timeout=3000, heap="4g")
    events = read_ndjson(trace)
    for (cfg, what), fut in zip(negs, background):
        r = fut.result()
        if r.violated != "NoClauseFalsified":
            raise ToolError("the quoting clauses are vacuous: %s (%s) does not falsify them" % (cfg, what))
    pool.shutdown()

    def payload_of(e):
        return {"area": "quoting", "scenario": {"scn": e["scn"], "nfound": e["nfound"], "selfin": e["selfin"], "ign": e["ign"], "resp": e["resp"]}, "event": e}

    def describe(x, e):
        bad = [q for q in e["res"]["quotes"] if not (q["key"] == q["p"] and q["sigok"])]
        return ("get_store_quote_from_network at trace line %d handed the caller a quote that does not verify for the peer it is paired with: %s "
                "(p = peer it is paired with, key = peer whose public key it carries, sigok = signature valid under that key over the quote's fields, "
                "from = peer that answered with it; peers by closeness); found=%d ignored=%s answers=%s result=%s" % (
                    x["line"], json.dumps(bad), e["nfound"], e["ign"], e["resp"], json.dumps(e["res"], sort_keys=True)))

    deviations = []
    for x in rep["violations"]:
        e = events[x["line"] - 1]
        if x["clause"] == "Malformed":
            raise ToolError("malformed quoting trace line %d: %s" % (x["line"], json.dumps(e)[:600]))
        if x["clause"] in C13_CLAUSES:
            v.violation(x["clause"], describe(x, e), payload_of(e))
        else:
            deviations.append({"clause": x["clause"], "line": x["line"], "event": _view(e)})
    for d in deviations[:5]:
        log("SPEC-DEVIATION (no listed property) clause=%s line=%d %s" % (d["clause"], d["line"], json.dumps(d["event"], sort_keys=True)[:600]))
    known = {}
    for x in rep.get("known", []):
        known.setdefault(x["kf"], []).append(x)
    for kf, xs in sorted(known.items()):
        if kf not in KNOWN:
            raise ToolError("the trace specification matched an unknown deviation id %s" % kf)
        log("SPEC-DEVIATION (known, findings/%s.json) clause=%s %d calls: %s" % (kf, xs[0]["clause"], len(xs), KNOWN[kf]))
    for ln in rep.get("drift", []):
        e = events[ln - 1]
        v.drift.append({"engine": "quoting", "line": ln, "call": _view(e)})
    calls = [e for e in events if e["ev"] == "Quote"]
    v.cov["evaluations"] += len(calls)
    v.cov["distinct_nontrivial"] += len(set(json.dumps(_view(e), sort_keys=True) for e in calls))
    v.cov["traces_validated_against_impl"] += 1
    v.cov["quoting_stats"] = rep.get("stats")
    v.cov["quoting_calls"] = {"scenarios_from_tlc": len(scn_list), "random": sum(1 for e in calls if e["src"] == "random"),
                              "requests_not_plain": sum(e.get("badreq", 0) for e in calls), "lookups_not_one": sum(1 for e in calls if e.get("lookups") != 1),
                              "longest_call_ms": max([e["ms"] for e in calls] or [0])}
    v.cov["quoting_spec_deviations"] = len(deviations)
    v.cov["quoting_deviating_clauses"] = sorted(set(d["clause"] for d in deviations))
    if deviations:
        v.cov["quoting_spec_deviation_samples"] = deviations[:3]
    v.cov["quoting_known_deviation_calls"] = {k: len(xs) for k, xs in known.items()}
    v.cov["quoting_wall_s"] = {"model": round(t_model - t_stage, 1), "driver": round(t_drv - t_model, 1), "trace_validation": round(time.time() - t_drv, 1)}
    try:
        v.cov["quoting_driver"] = json.loads(p.stdout.strip().splitlines()[-1])
    except (ValueError, IndexError):
        pass
    mixed = [e for e in calls if len(e["res"]["quotes"]) >= 2 and any(c in e["resp"] for c in ("ForgedSig", "OtherPeersQuote"))][:1] or calls[:1]
    for e in mixed:
        v.cov["samples"].append({"engine": "quoting", "call": _view(e)})
    log("quoting stage: %d calls of the real get_store_quote_from_network (%d scenarios from TLC, %d random), %d clause deviations, %s known-deviation calls, walls %s" % (
        len(calls), len(scn_list), v.cov["quoting_calls"]["random"], len(deviations), v.cov["quoting_known_deviation_calls"], v.cov["quoting_wall_s"]))
    v.cov["rule"] += ("; quoting engine: a case is one finished call of the real Network::get_store_quote_from_network with the harness answering the close-peers lookup and every "
                      "GetStoreQuote request (TLC-enumerated environments: peers found x ignore set x answer class per peer; plus seeded random environments); "
                      "distinct = distinct (environment, requests observed, result)")
    v.assumptions.append("quoting engine: the harness is the SwarmDriver (it answers GetClosestPeersToAddressFromNetwork and every SendRequest, one answer per request; a Silent peer drops the "
                         "reply channel); peers are ranked by the harness's own XOR-of-SHA-256 distance; what a returned quote is (whose key, signature valid over the recomputed bytes, "
                         "content address, which peer answered with it) is established by the harness with the ed25519 keys it generated, not by the code under test; ideal signatures; "
                         "an empty result stands for 'already paid'; the order of the returned list is not judged")
