"""C12 -- record and message encodings (specs/codec, driver drv_codec)."""
import os
from vcheck import *

PROPS = ["C12"]
META = {
    "C12": {
        "engine": "codec",
        "level": "model_checking",
        "technique": "executable TLA+ specification of the record wire contract (fixed tag table, fixed-size MessagePack header, decoder "
                     "acceptance automaton over byte classes, payload classes); TLC enumerates all short byte strings / class words / "
                     "(kind x value class x proof class) / (message x back-end) cases and is the oracle over recorded real codec calls "
                     "(trace validation)",
        "text": "TLC checks the sanity laws of the executable specification (tag table is a bijection onto 0..7, canonical headers accepted, "
                "unknown tags and short words rejected, class automaton = byte automaton) on a bounded-exhaustive domain and emits that domain "
                "as test cases. Every real call of RecordHeader::{try_serialize, try_deserialize, from_record, is_record_of_type_chunk}, "
                "try_serialize_record / try_deserialize_record for all eight kinds with real signed values and proofs, and of the cbor4ii / "
                "rmp-serde codecs for Request/Response/Cmd/Query/NetworkAddress/Error, plus an exhaustive sweep of all 2^24 three-byte header "
                "windows and all shorter strings, every prefix / bit flips / splices / random bytes / huge declared lengths, is judged by the "
                "TLA+ clause operators. 'All values' is decided per value class with sampled members (classes include the bin8/bin16/bin32 length "
                "boundaries, 1 MiB chunks, scratchpad counters 2^32 and 2^64-1, zero-valued and maximal quote metrics, key lists of 255/256/300); the "
                "header window is exhaustive. Wire stability is judged against pinned golden byte vectors (specs/codec/golden.ndjson) of every record "
                "kind and message variant in both back-ends: each is decoded and re-encoded, and its fixed value is encoded again, by the build under test.",
        "note": "trusted: TLC; the types' PartialEq used for value equality (backed by byte equality of the re-encoding); the driver's labelling of "
                "payload classes (prefix cuts are checked numerically by the trace spec); tiny-keccak SHA3-256 as the independent chunk address",
        "design_ref": "5 Area Codec",
    }
}
PACKAGES = ["drv_light"]

CHUNK = 120000
GOLDEN = os.path.join(os.path.dirname(os.path.dirname(os.path.dirname(os.path.abspath(__file__)))), "specs", "codec", "golden.ndjson")


def _key(e):
    ev = e["ev"]
    if ev in ("FromRecord", "FreeHeader"):
        return (ev, e["len"], tuple(e["w"]))
    if ev == "Sweep":
        return (ev, e["b0"], e["b1"])
    if ev in ("Decode", "MsgDecode"):
        return (ev, e.get("k", e.get("ty")), e.get("be"), e["pc"], e["len"], e["cut"], tuple(e["head"]))
    if ev in ("Encode", "Msg"):
        return (ev, e.get("k", e.get("ty")), e.get("var"), e.get("be"), e.get("vc"), e.get("pc"), e.get("m"), e.get("len"))
    return (ev, json.dumps(e, sort_keys=True)[:200])


def _describe(e):
    ev = e["ev"]
    if ev in ("FromRecord", "FreeHeader"):
        return "%s(len=%s, first bytes %s) -> %s %s" % (ev, e["len"], e["w"], e["res"], e.get("k", ""))
    if ev == "Encode":
        return "encode/decode %s value class %s proof %s member %s: enc=%s head=%s hdr=%s/%s dec=%s eq_value=%s eq_bytes=%s addr_is_hash=%s" % (
            e["k"], e["vc"], e["pc"], e["m"], e["enc"], e.get("head"), e.get("hdr"), e.get("hk"), e.get("dec"), e.get("eqv"), e.get("eqb"), e.get("addr"))
    if ev == "Header":
        return "RecordHeader{%s}.try_serialize() -> %s %s (SIZE=%s)" % (e["k"], e["res"], e["bytes"], e["size"])
    if ev == "Decode":
        return "try_deserialize_record as %s of %s bytes (%s, cut=%s of %s, head %s) -> %s addr_is_hash=%s stable=%s" % (
            e["k"], e["pc"], e["len"], e["cut"], e["full"], e["head"], e["res"], e["addr"], e["stable"])
    if ev == "MsgDecode":
        return "%s decode as %s of %s bytes (%s, cut=%s of %s, head %s) -> %s" % (e["be"], e["ty"], e["pc"], e["len"], e["cut"], e["full"], e["head"], e["res"])
    if ev == "Msg":
        return "%s round trip of %s::%s member %s: enc=%s dec=%s eq_value=%s eq_bytes=%s" % (e["be"], e["ty"], e["var"], e["m"], e["enc"], e.get("dec"), e.get("eqv"), e.get("eqb"))
    if ev == "Golden":
        return ("golden vector %s (%s bytes, head %s): decode=%s re-encodes to the pinned bytes=%s; the fixed value encodes to the pinned bytes=%s "
                "(now %s bytes, first difference at offset %s)" % (e["id"], e["len"], e["head"], e["dec"], e["reenc"], e["same"], e["nowlen"], e["diff"]))
    if ev == "ForgedChunk":
        return "chunk with forged address (%s, %s) -> %s addr_is_hash=%s addr_is_forged=%s" % (e["mode"], e["k"], e["res"], e["addr"], e["forged"])
    if ev == "Sweep":
        bad = [(i, o) for i, o in enumerate(e["out"]) if o]
        return "from_record sweep of windows (%s,%s,*): %s" % (e["b0"], e["b1"], bad[:10])
    return json.dumps(e)[:300]


def _validate(trace, events, w):
    """Validate in chunks (the sweep events stay together: the trace spec keeps the swept pairs as ghost state)."""
    sweep_idx = [i for i, e in enumerate(events) if e["ev"] in ("Sweep", "SweepEnd")]
    rest_idx = [i for i, e in enumerate(events) if e["ev"] not in ("Sweep", "SweepEnd")]
    parts = []
    if sweep_idx:
        parts.append(sweep_idx)
    for i in range(0, len(rest_idx), CHUNK):
        parts.append(rest_idx[i:i + CHUNK])
    viols, notes, states = [], [], 0
    for n, idx in enumerate(parts):
        p = os.path.join(w, "trace-part%d.ndjson" % n)
        write_ndjson(p, [events[i] for i in idx])
        rep = validate_trace("codec", "CodecTrace", "CodecTrace.cfg", p, w, timeout=3000, heap="8g")
        states += rep["tlc_states"]
        for x in rep["violations"]:
            viols.append({"clause": x["clause"], "index": idx[x["line"] - 1]})
        for x in rep.get("notes", []):
            notes.append({"note": x["note"], "index": idx[x["line"] - 1]})
    return viols, notes, len(parts), states


def run(prop, tier, replay=None):
    v = Verdict(prop, tier, replaying=replay is not None)
    w = workdir(prop)
    thorough = tier == "thorough"
    env_seed = None
    sections = "cases,golden,sweep,forged,random"
    if replay:
        thorough = replay.get("tier") == "thorough"
        env_seed = {"VERIF_SEED": str(replay.get("seed", seed()))}
        sections = replay.get("sec", sections)
    cases = os.path.join(w, "cases.ndjson")
    # 1. TLC: bounded-exhaustive enumeration + sanity laws of the executable specification
    mc = tlc("codec", "MCCodec", "MCCodec_thorough.cfg" if thorough else "MCCodec.cfg", w, env={"CASES": cases}, workers=8, timeout=3000)
    if mc.violated:
        raise ToolError("the executable specification of C12 is inconsistent (%s):\n%s" % (mc.violated, mc.error_text[:2000]))
    v.add_model(mc)
    ncases = sum(1 for _ in open(cases))
    # 2. build + drive the real code
    build(PACKAGES)
    trace = os.path.join(w, "trace.ndjson")
    if not os.path.exists(GOLDEN):
        raise ToolError("golden vectors %s missing (regenerate ON THE PINNED TREE with: drv_codec --golden-gen %s)" % (GOLDEN, GOLDEN))
    args = ["--cases", cases, "--golden", GOLDEN, "--out", trace, "--members", 12 if thorough else 2, "--random", 5000 if thorough else 40, "--sections", sections]
    if thorough:
        args.append("--thorough")
    run_driver("drv_codec", args, w, env=env_seed, timeout=3000)
    # 3. TLC as the oracle over the recorded calls
    events = read_ndjson(trace)
    viols, notes, nparts, tstates = _validate(trace, events, w)
    # report one violation per clause first (only the first five get replay files)
    first, rest, seen_cl = [], [], set()
    for x in sorted(viols, key=lambda x: x["index"]):
        (rest if x["clause"] in seen_cl else first).append(x)
        seen_cl.add(x["clause"])
    for x in first + rest:
        e = events[x["index"]]
        if x["clause"] == "Malformed":
            raise ToolError("malformed trace event / case list disagrees with the specification: %s" % json.dumps(e)[:600])
        v.violation(x["clause"], _describe(e), {"area": "codec", "sec": e.get("sec", "cases"), "tier": tier, "seed": seed(), "event": e})
    seen = set(_key(e) for e in events)
    v.cov["evaluations"] = len(events) + (16777216 + 65793 if any(e["ev"] == "SweepEnd" for e in events) else 0)
    v.cov["distinct_nontrivial"] = len(seen)
    v.cov["traces_validated_against_impl"] = nparts
    v.cov["events_validated"] = len(events)
    v.cov["trace_states"] = tstates
    v.cov["tlc_cases"] = ncases
    v.cov["golden_vectors"] = sum(1 for e in events if e["ev"] == "Golden")
    if "golden" in sections.split(",") and not any(e["ev"] == "GoldenEnd" for e in events):
        raise ToolError("the golden section did not run")
    by = {}
    for e in events:
        k = "%s/%s" % (e["ev"], e.get("res", e.get("dec", e.get("enc", ""))))
        by[k] = by.get(k, 0) + 1
    v.cov["by_event_and_result"] = by
    v.cov["by_source"] = {}
    for e in events:
        v.cov["by_source"][e["src"]] = v.cov["by_source"].get(e["src"], 0) + 1
    v.cov["noncanonical_headers_accepted"] = sorted(set(tuple(events[n["index"]].get("w", [events[n["index"]].get("b0"), events[n["index"]].get("b1")])[:2])
                                                        for n in notes))[:20]
    v.cov["rule"] = ("TLC enumerates every byte string of length <= 3 over a %d-byte alphabet of MessagePack markers and tag boundaries, every word over "
                     "the byte classes of the header automaton (concretised with sampled members), every (kind x value class x proof class), "
                     "(kind x payload class) and (message type x variant x back-end) case; the driver adds the exhaustive sweep of all 2^24 "
                     "three-byte windows and all shorter strings through from_record (logged as summaries per leading byte pair), forged chunk "
                     "addresses, prefixes at every cut of short encodings, bit flips, splices, random bytes and huge declared lengths in a child "
                     "process. A case is one real codec call; distinct = distinct (call, argument bytes/classes)." % (36 if thorough else 18))
    pick = [e for e in events if e["ev"] in ("Header", "Encode", "Msg", "ForgedChunk")][:3] + [e for e in events if e["ev"] == "Decode" and e["pc"] == "prefix"][:1] \
        + [e for e in events if e["ev"] == "FromRecord" and e["res"] == "ok"][:1]
    v.cov["samples"] = [{k: (x[k] if k != "out" else "...") for k in x} for x in pick]
    v.cov["exhaustive"] = False
    v.assumptions = [
        "value equality is the types' own PartialEq, backed by byte equality of the re-encoding of the decoded value",
        "'all values' is decided on sampled members of the stated value classes (empty/one/small/large content, 0/1/many ops, transactions, quotes); "
        "'all byte strings' on the exhaustive 3-byte header window, every prefix of short valid encodings and seeded corruptions",
        "messages are decoded exactly as libp2p-request-response's cbor codec does (cbor4ii::serde::from_slice / to_vec); stream framing and the size "
        "limits of that codec are outside the check",
        "non-canonical MessagePack representations of a known header (tag as uint8/int8, one-pair map, one-byte bin) may be accepted or rejected: the "
        "statement is silent; they are reported as observations",
        "a decode is 'total' when it returns Ok or Err without panic; huge declared lengths run in a child process under a 3 GiB address-space limit, "
        "an abort there is reported as outcome 'abort' (a violation)",
        "wire stability is judged against specs/codec/golden.ndjson: bytes produced once by the pinned revision for fixed values of every record "
        "kind and every Request/Response/Cmd/Query/NetworkAddress/Error variant in both serde back-ends; a build that decodes them differently, or "
        "encodes the same values to other bytes, does not interoperate with the pinned one",
        "scratchpad ciphertexts use blsttc's internal randomness (content irrelevant to the codec); everything else is seeded by VERIF_SEED",
    ]
    return v.finish()
