"""C17 -- parsers of untrusted text and bytes (specs/parsers, driver drv_parsers)."""
import os
from vcheck import *

PROPS = ["C17"]
META = {
    "C17": {
        "engine": "parsers",
        "level": "model_checking",
        "technique": "executable TLA+ acceptance specifications (hex address lengths, port-range grammar, header sizes) and generic "
                     "totality / round-trip clauses; TLC enumerates every class word up to the length bound over per-parser alphabets of "
                     "boundary segments and is the oracle over the recorded calls of the real parsers (overflow checks on, panics caught)",
        "text": "TLC enumerates all words of at most 2-4 segments (thorough 3-4) over per-parser alphabets holding the boundary members of "
                "the statement (empty, one short, exact, one long, non-hex, multi-byte and non-UTF-8, 0 / 65535 / 65536, reversed and "
                "degenerate ranges, huge numbers, truncated / foreign / wrong-typed files, huge msgpack length prefixes), checks the "
                "specification's own laws on each, and writes the case list. Every case is concretised into up to 8 members and run "
                "through the real parser; outcome (ok / err / panic), parsed value and the round trip through the formatter are judged by "
                "the TLA+ operators on the concrete input. Inputs outside the partition are sampled (length classes around every fixed "
                "offset, seeded random strings and bytes). Further families: complete multiaddresses of every composite form (quic, ws, "
                "ed25519 identity peer id, relayed, without peer id) alone and with prefixes / suffixes (canonical addresses must come back "
                "unchanged, the peer id kept is the one that makes the address dialable); registry and cache files that stay valid JSON "
                "while one or two fields of the first node / peer hold invalid or boundary values, on a plain and on a fully populated "
                "registry (daemon, faucet, auditor, NAT status, custom EVM network); cache files loaded with max_peers 1 (third clean-up "
                "stage) and with ONE last-seen time at the edge of the time range; the ANT_PEERS list read from the environment; "
                "RegisterAddress Display; the register signing key of ant-cli (access/keys.rs included by path); accepted port ranges "
                "checked against non-empty registries; add_node on a loaded registry holding service numbers up to 65535 (u16 edge).",
        "note": "trusted: the driver's concretisation of segments; blsttc / ring primitives; TLC. All strings and byte sequences cannot be "
                "enumerated: a defect confined to a concrete value inside one class is not found. increment_port_option is public and "
                "called directly.",
        "design_ref": "5 Area Parsers",
    }
}
PACKAGES = ["drv_parsers"]

# Known findings kept (none: every defect found was small and safe to repair in /repo).
KNOWN = []


def case_of(e):
    """Replay payload for one event: the TLC case if it came from one, else the concrete input."""
    if e["ev"] == "Parse" and e["src"] == "tlc":
        c = {"parser": e["parser"], "word": e["word"], "pw": e["pw"], "codes": e["codes"] if e["parser"] == "port_parse" and e["m"] == 0 else []}
        if e["parser"] == "port_parse" and e["m"] != 0:
            return None
        return c
    return None


def validate_chunks(trace, w, size=150000):
    """Validate a long trace in pieces (the trace specification reads a whole file into memory)."""
    lines = [ln for ln in open(trace) if ln.strip()]
    if len(lines) <= size:
        return validate_trace("parsers", "ParsersTrace", "ParsersTrace.cfg", trace, w, timeout=3000, heap="12g")
    out = {"lines": 0, "violations": [], "tlc_wall": 0.0, "tlc_states": 0}
    for i in range(0, len(lines), size):
        part = os.path.join(w, "trace.part%d.ndjson" % (i // size))
        with open(part, "w") as f:
            f.writelines(lines[i:i + size])
        rep = validate_trace("parsers", "ParsersTrace", "ParsersTrace.cfg", part, w, timeout=3000, heap="12g")
        os.remove(part)
        out["lines"] += rep["lines"]
        out["violations"] += [{"clause": x["clause"], "line": x["line"] + i} for x in rep["violations"]]
        out["tlc_wall"] += rep["tlc_wall"]
        out["tlc_states"] += rep["tlc_states"]
    return out


def run(prop, tier, replay=None):
    v = Verdict(prop, tier, replaying=replay is not None)
    w = workdir(prop)
    thorough = tier == "thorough"
    cases = os.path.join(w, "cases.ndjson")
    mc = None
    if replay is None or replay.get("mode") != "case":
        mc = tlc("parsers", "MCParsers", "MCParsers_thorough.cfg" if thorough else "MCParsers.cfg", w, env={"CASES": cases},
                 workers=8, timeout=3000, heap="12g")
        if mc.violated:
            raise ToolError("the executable specification of C17 is inconsistent (%s):\n%s" % (mc.violated, mc.error_text[:2000]))
        v.add_model(mc)
        log("%s model: %d cases enumerated (%.1fs)" % (prop, mc.distinct, mc.wall))
    build(PACKAGES)
    trace = os.path.join(w, "trace.ndjson")
    scratch = os.path.join(w, "scratch")
    t1 = time.time()
    if replay is not None and replay.get("mode") == "case":
        write_ndjson(cases, [replay["case"]])
        p = run_driver("drv_parsers", ["--cases", cases, "--out", trace, "--dir", scratch, "--random", 0, "--only-cases"], w)
    elif replay is not None:
        # the failing input came from the class / random part: re-run that part (same seed), without the TLC cases
        p = run_driver("drv_parsers", ["--out", trace, "--dir", scratch, "--random", 4000 if thorough else 300], w)
    else:
        p = run_driver("drv_parsers", ["--cases", cases, "--out", trace, "--dir", scratch, "--random", 4000 if thorough else 300,
                                       "--members", 16 if thorough else 8], w, timeout=6000)
    log("%s driver: %s (%.1fs)" % (prop, p.stdout.strip()[-200:], time.time() - t1))
    rep = validate_chunks(trace, w)
    events = read_ndjson(trace)
    log("%s trace validation: %d events (%.1fs)" % (prop, len(events), rep["tlc_wall"]))
    if any(x["clause"] == "Malformed" for x in rep["violations"]):
        bad = [x for x in rep["violations"] if x["clause"] == "Malformed"][0]
        raise ToolError("trace has an event the trace specification does not know: line %d" % bad["line"])
    reported = {}
    for x in sorted(rep["violations"], key=lambda x: x["line"]):
        e = events[x["line"] - 1]
        name = e.get("parser", e["ev"])
        key = (x["clause"], name, e.get("msg", "")[:40], e.get("out"))
        reported[key] = reported.get(key, 0) + 1
        if reported[key] > 1:
            continue
        c = case_of(e)
        payload = {"area": "parsers", "mode": "case" if c else "rerun", "case": c, "event": e}
        what = "%s %s out=%s rt=%s len=%s input=%s %s" % (e["ev"], name, e.get("out"), e.get("rt", ""), e.get("len", ""),
                                                        json.dumps(e.get("text", e.get("head", {k: e[k] for k in ("lo", "hi", "count", "p") if k in e})))[:80],
                                                        e.get("msg", ""))
        v.violation(x["clause"], what, payload)
    v.cov["violating_events"] = sum(reported.values())
    seen = set()
    per_parser = {}
    for e in events:
        name = e.get("parser", e["ev"])
        per_parser.setdefault(name, {"calls": 0, "ok": 0, "err": 0, "panic": 0})
        per_parser[name]["calls"] += 1
        per_parser[name][e["out"] if e["out"] in ("ok", "err", "panic") else "err"] += 1
        seen.add((name, e.get("text", e.get("head", "")), e.get("len", 0), e.get("count", 0), e.get("p", 0), e.get("pw", "")))
    v.cov["evaluations"] = len(events)
    v.cov["distinct_nontrivial"] = len(seen)
    v.cov["traces_validated_against_impl"] = 1
    v.cov["events_validated"] = len(events)
    v.cov["per_parser"] = per_parser
    by_src = {}
    for e in events:
        by_src[e["src"]] = by_src.get(e["src"], 0) + 1
    v.cov["by_source"] = by_src
    v.cov["rule"] = ("a case = one class word (sequence of <= %s segments of the parser's alphabet); every word is enumerated by TLC and "
                     "concretised into up to 8 members (2-4 for file / record / amount / multiaddress words, 1 per password variant for "
                     "decrypt); an evaluation = one real call; distinct = distinct (parser, input)" % ("3-4" if thorough else "2-4"))
    v.cov["samples"] = [{k: e[k] for k in ("ev", "parser", "word", "text", "head", "len", "out", "rt", "src") if k in e}
                        for e in (events[:2] + events[len(events) // 2: len(events) // 2 + 2] + events[-2:])]
    v.cov["exhaustive"] = False
    v.assumptions = ["each segment class is represented by the members the driver picks (seeded); values inside a class are not enumerated",
                     "PortRange values given to validate are those parse returns (start < end)",
                     "hex parsers: acceptance beyond length and alphabet (curve membership, AEAD tag) is left to the code: either outcome"]
    return v.finish()
