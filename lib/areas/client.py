"""C14 / C15 -- autonomi client: self-encrypted data and authenticated reads
(specs/client, driver drv_client, hooks H4b + H6)."""
import os
import re
import fcntl
import subprocess
import concurrent.futures
from vcheck import *

PROPS = ["C14", "C15"]
PACKAGES = ["drv_client"]
_note = ("trusted: TLC; tiny-keccak SHA3-256 and blsttc used by the driver to recompute addresses and to build/sign scratchpads; "
         "the harness answers the client's GetNetworkRecord commands itself (the swarm event loop is never run), one answer per quiescent point of the "
         "hand-polled client future on a current-thread runtime")
META = {
    "C14": {
        "engine": "client", "level": "model_checking",
        "technique": "TLA+ model of encrypt/pack_data_map (level arithmetic of self_encryption 0.30) and of the batched fetch loop; TLC exhaustive over lengths around every "
                     "size-class boundary x batch sizes {1,2,unbounded} x every completion order, with 1-3 data-map levels; the completion orders are replayed into the real "
                     "Client::data_get_public / data_get over a harness-served Network; every real encrypt and read is judged by TLC with the clause operators",
        "text": "The clauses (RoundTrip, ChunkBound, ContentAddressed, Deterministic, TooSmallRejected, OrderIndependent) are operators over observation records. TLC checks them on "
                "every behaviour of the model and emits the completion schedules; the driver runs the real encrypt twice per input (boundary lengths min-1, min, 3M-1..3M+1, kM-1..kM+1, "
                "the lengths where the serialised data map crosses one chunk into 2 and 3 levels, and seeded inputs swept until the serialised first-level data map is exactly "
                "MAX-1, MAX and MAX+1 bytes; random / zero / periodic / text content) in two builds (MAX_CHUNK_SIZE 4096 in its own "
                "target dir for multi-level trees, default 1 MiB for one-level trees), recomputes every chunk address with its own SHA3-256, and reads the data back through the real "
                "client with the chunk fetches answered from memory in the scheduled order.",
        "note": _note + "; MAX_CHUNK_SIZE is a compile-time constant of self_encryption: multi-level trees are exercised only in the 4096-byte build",
        "design_ref": "5 Area Client",
    },
    "C15": {
        "engine": "client", "level": "model_checking",
        "technique": "TLA+ model of the get-record accumulation (quorum one / majority), of the network layer's split handling and of the client's chunk and vault reads; TLC "
                     "enumerates every arrival sequence of <= 4 (thorough 5) replies over 15 reply kinds and emits the distinct delivered outcomes, every split in every "
                     "iteration order of its result map; the real Client::chunk_get, data_get_public, data_get, get_vault_from_network and fetch_and_decrypt_vault are run against each outcome built from REAL records (real chunks, real BLS-signed pads)",
        "text": "Clauses ChunkAuthentic (Ok(bytes) => own SHA3-256 of the bytes = requested address; for data_get_public the returned data is the data committed to by the address, with "
                "one fetch of the tree -- root data map, top level, bottom level -- answered by an adversarial holder), VaultAuthentic (Ok(pad) => owner = requested key, signature "
                "valid, counter = highest among the authentic pads received), VaultFieldsAuthentic (data, counter and content type handed to the owner are those of a version the "
                "owner wrote) and FailClosed (no authentic version delivered => error) are evaluated by TLC on the model and on every "
                "recorded real call.",
        "note": _note + "; pads are built through a byte-for-byte mirror of Scratchpad (self-checked against the real type); the vault key is derived with derive_vault_key; "
                        "the accumulation of replies into an outcome is modelled (it is area GetRecord's subject), the outcome is then delivered to the REAL Network::get_record_from_network",
        "design_ref": "5 Area Client",
    },
}

SMALL_MAX = "4096"
SMALL_TARGET = os.path.join(HARNESS, "target-small")
SMALL_BIN = os.path.join(SMALL_TARGET, "release", "drv_client")
KF_C14 = "C14-cipher-padding-exceeds-max"


# ------------------------------------------------------------------ helpers
def build_small(timeout=3600):
    """drv_client with self_encryption's compile-time MAX_CHUNK_SIZE = 4096, in its own target dir."""
    os.makedirs(WORK, exist_ok=True)
    lock = open(os.path.join(WORK, ".build.lock"), "w")
    fcntl.flock(lock, fcntl.LOCK_EX)
    try:
        env = dict(os.environ)
        env["CARGO_NET_OFFLINE"] = "true"
        env["MAX_CHUNK_SIZE"] = SMALL_MAX
        p = subprocess.run(["cargo", "build", "--release", "--offline", "-p", "drv_client", "--target-dir", SMALL_TARGET], cwd=HARNESS, env=env,
                           stdout=subprocess.PIPE, stderr=subprocess.STDOUT, text=True, timeout=timeout)
        if p.returncode != 0:
            raise ToolError("harness build (MAX_CHUNK_SIZE=%s) failed:\n%s" % (SMALL_MAX, "\n".join(p.stdout.splitlines()[-60:])))
    finally:
        fcntl.flock(lock, fcntl.LOCK_UN)
        lock.close()


def run_bin(exe, args, cwd, env, timeout=3000):
    e = dict(os.environ)
    e["VERIF_SEED"] = str(seed())
    e.pop("MAX_CHUNK_SIZE", None)
    e.update(env)
    p = subprocess.run([exe] + [str(a) for a in args], cwd=cwd, env=e, stdout=subprocess.PIPE, stderr=subprocess.PIPE, text=True, timeout=timeout)
    if p.returncode != 0:
        raise ToolError("driver %s %s failed (exit %s):\n%s\n%s" % (exe, args, p.returncode, p.stdout[-2000:], p.stderr[-4000:]))


def check_build(events, bld, trace):
    """the driver logs the MAX_CHUNK_SIZE it was compiled with: a build with the wrong constant is a tool problem"""
    cfgs = [e for e in events if e["ev"] == "Config"]
    want = int(SMALL_MAX) if bld == "small" else 1048576
    if not cfgs or cfgs[0]["max"] != want:
        raise ToolError("%s: driver of the %s build reports MAX_CHUNK_SIZE=%s, expected %d" % (trace, bld, cfgs[0]["max"] if cfgs else None, want))


def listed_known(prop):
    """known findings of prop: known_findings.json plus (testing only) the file named by VERIF_KF_EXTRA"""
    out = list(kf_for(prop))
    extra = os.environ.get("VERIF_KF_EXTRA")
    if extra:
        try:
            with open(extra) as f:
                j = json.load(f)
        except (OSError, ValueError) as x:
            raise ToolError("VERIF_KF_EXTRA=%s unreadable: %s" % (extra, x))
        for k in (j.get("findings", []) if isinstance(j, dict) else j):
            if k.get("property") == prop and k.get("status") == "known":
                out.append(k)
    return out


def cfg_with_mask(cfg, ids, w):
    """copy of specs/client/<cfg> whose KnownMask holds exactly the listed finding ids"""
    with open(os.path.join(SPECS, "client", cfg)) as f:
        txt = f.read()
    mask = "{" + ", ".join('"%s"' % i for i in sorted(ids)) + "}"
    txt, n = re.subn(r"KnownMask = \{[^}]*\}", "KnownMask = " + mask, txt)
    if n != 1:
        raise ToolError("no KnownMask line in %s" % cfg)
    out = os.path.join(w, cfg)
    with open(out, "w") as f:
        f.write(txt)
    return out


def encoding_enabled():
    """VERIF_ENABLE_ENCODING=1 adds the reply kind "encoding" (a holder changes the content type of an authentic pad). Off by default:
    on the unchanged tree that class falsifies C15_VaultFieldsAuthentic (suspected defect reported by the builder, not triaged yet)."""
    return os.environ.get("VERIF_ENABLE_ENCODING") == "1"


def cfg_auth(cfg, w):
    """specs/client/<cfg>, or a copy with WithEncoding = TRUE when the encoding class is enabled"""
    if not encoding_enabled():
        return cfg
    with open(os.path.join(SPECS, "client", cfg)) as f:
        txt = f.read()
    txt, n = re.subn(r"WithEncoding = FALSE", "WithEncoding = TRUE", txt)
    if n != 1:
        raise ToolError("no WithEncoding line in %s" % cfg)
    out = os.path.join(w, cfg)
    with open(out, "w") as f:
        f.write(txt)
    return out


def scenarios_from(r):
    out, seen = [], set()
    for ln in r.output.splitlines():
        if ln.startswith('<<"SCN", "'):
            body = ln[len('<<"SCN", '):]
            txt = json.loads(body[:body.rindex('>>')].strip())
            if txt not in seen:
                seen.add(txt)
                out.append(json.loads(txt))
    return out


def sim_states(r):
    m = re.search(r"The number of states generated: (\d+)", r.output)
    return int(m.group(1)) if m else 0


# ------------------------------------------------------------------ C14
def c14_model(v, w, thorough, ids, scn_path):
    mc = tlc("client", "MCClientData", cfg_with_mask("MCClientData_rec_thorough.cfg" if thorough else "MCClientData.cfg", ids, w), w, workers=8, timeout=1700)
    v.add_model(mc)
    scns = scenarios_from(mc)
    runs = [mc]
    deep = tlc("client", "MCClientData", cfg_with_mask("MCClientData_thorough.cfg" if thorough else "MCClientData_deep.cfg", ids, w), w, workers=8, timeout=1700)
    v.add_model(deep)
    runs.append(deep)
    for r in runs:
        if r.violated:
            v.violation("model:" + r.violated, "the model of encrypt / the fetch loop falsifies a clause of C14 beyond the listed known findings",
                        {"area": "client", "prop": "C14", "tlc": r.error_text[:6000]})
        never = [a for a in r.actions_never_taken() if a.startswith("Do")]
        if never:
            raise ToolError("actions never taken in MCClientData: %s" % never)
    sim = tlc("client", "MCClientData", cfg_with_mask("MCClientData_sim.cfg", ids, w), w, workers=1, simulate="num=%d" % (2000 if thorough else 150), depth=60,
              coverage=False, timeout=1700, extra=["-seed", str(seed())])
    if sim.violated:
        v.violation("model:" + sim.violated, "clause of C14 falsified on a simulated model behaviour", {"area": "client", "prop": "C14", "tlc": sim.error_text[-6000:]})
    v.cov["states"] += sim_states(sim)
    v.cov["transitions"] += sim_states(sim)
    scns += [s for s in scenarios_from(sim) if s not in scns]
    write_ndjson(scn_path, scns)
    return len(scns)


def c14(v, w, thorough, replay):
    ids = set(k["id"] for k in listed_known("C14"))
    kfs = {k["id"]: k for k in listed_known("C14")}
    scn_path = os.path.join(w, "scenarios.ndjson")
    nscn = 0
    if not replay:
        cache = os.path.join(WORK, "cache-C14-scenarios.ndjson")
        if os.environ.get("VERIF_SKIP_MODEL") == "1" and os.path.exists(cache):    # dev only: reuse the scenarios, skip the model runs
            shutil.copy(cache, scn_path)
            v.cov["states"] = v.cov["transitions"] = 1
            nscn = len(read_ndjson(scn_path))
        else:
            nscn = c14_model(v, w, thorough, ids, scn_path)
            shutil.copy(scn_path, cache)
    os.environ.pop("MAX_CHUNK_SIZE", None)      # the default build must not inherit the small constant
    build(PACKAGES)
    build_small()
    runs = []      # (trace path, build, batch)
    if replay:
        rp = os.path.join(w, "replay.ndjson")
        write_ndjson(rp, [replay["input"]])
        t = os.path.join(w, "trace-replay.ndjson")
        exe = SMALL_BIN if replay["build"] == "small" else os.path.join(BIN, "drv_client")
        run_bin(exe, ["--mode", "data", "--out", t, "--replay", rp], w, {"CHUNK_DOWNLOAD_BATCH_SIZE": str(replay["batch"] or 100000)})
        runs.append((t, replay["build"], replay["batch"]))
    else:
        for b in (100000, 2, 1):
            t = os.path.join(w, "trace-small-b%d.ndjson" % b)
            run_bin(SMALL_BIN, ["--mode", "data", "--out", t, "--scenarios", scn_path, "--classes", 1, "--random", (300 if thorough else 25),
                                "--tier", "thorough" if thorough else "quick"], w, {"CHUNK_DOWNLOAD_BATCH_SIZE": str(b)})
            runs.append((t, "small", 0 if b == 100000 else b))
        for b in ((100000, 2, 1) if thorough else (100000, 2)):
            t = os.path.join(w, "trace-default-b%d.ndjson" % b)
            run_bin(os.path.join(BIN, "drv_client"), ["--mode", "data", "--out", t, "--scenarios", scn_path, "--classes", 1, "--random", (20 if thorough else 2),
                                                      "--tier", "thorough" if thorough else "quick"], w, {"CHUNK_DOWNLOAD_BATCH_SIZE": str(b)})
            runs.append((t, "default", 0 if b == 100000 else b))
    tcfg = cfg_with_mask("ClientDataTrace.cfg", ids, w)
    nev = 0
    distinct = set()
    samples = []
    stats = []
    reads_by = {}
    root_boundary = {}
    for trace, bld, batch in runs:
        rep = validate_trace("client", "ClientDataTrace", tcfg, trace, w, timeout=3000, heap="6g")
        events = read_ndjson(trace)
        check_build(events, bld, trace)

        def payload(e):
            scheds = []
            if e["ev"] == "Fetch":
                scheds = [{"api": e["api"], "order": e["order"], "burst": e["burst"]}]
                # the first read of the same input (what OrderIndependent compares with) goes first
                for x in events:
                    if x["ev"] == "Fetch" and x["inp"] == e["inp"]:
                        if x is not e:
                            scheds.insert(0, {"api": x["api"], "order": x["order"], "burst": x["burst"]})
                        break
            return {"area": "client", "prop": "C14", "build": bld, "batch": batch,
                    "input": {"len": e["len"], "content": e["content"], "seed": e["seed"], "scheds": scheds}, "event": e}

        for x in rep["violations"]:
            e = events[x["line"] - 1]
            if x["clause"] == "Malformed":
                raise ToolError("malformed trace line %d in %s: %s" % (x["line"], trace, json.dumps(e)[:400]))
            if e["ev"] == "Fetch":
                what = "%s of input len=%d content=%s (levels=%d shape=%s, build MAX=%d, batch=%s, order=%s burst=%s) -> %s" % (
                    "data_get_public" if e["api"] == "public" else "data_get", e["len"], e["content"], e["levels"], e["shape"], e["max"], e["batch"] or "unbounded",
                    e["order"][:12], e["burst"], json.dumps(e["res"]))
            else:
                what = "encrypt of len=%d content=%s (build MAX=%d) -> %s n=%d rootsz=%d maxenc=%d badaddr=%d dm=%d set=%d" % (
                    e["len"], e["content"], e["max"], e["res"], e["n"], e["rootsz"], e["maxenc"], e["badaddr"], e["dm"], e["set"])
            v.violation(x["clause"], what + " (line %d of %s, src=%s)" % (x["line"], os.path.basename(trace), e.get("src")), payload(e))
        for x in rep.get("known", []):
            kf = kfs.get(x["kf"])
            if kf is None:
                raise ToolError("trace spec matched an unlisted finding %s" % x["kf"])
            v.known_finding(kf, "line %d" % x["line"])
        for ln in rep.get("drift", []):
            e = events[ln - 1]
            v.drift.append({"trace": os.path.basename(trace), "line": ln, "ev": e["ev"], "why": e.get("why"), "maxout": e.get("maxout"), "batch": e.get("batch")})
        for e in events:
            if e["ev"] == "RootSweep":
                hit = {}
                for x in events:
                    if x["ev"] == "Encrypt" and str(x.get("cls", "")).startswith("rootsz-") and x["call"] == 1:
                        hit[x["cls"]] = {"len": x["len"], "seed": x["seed"], "rootsz": x["rootsz"], "levels": x["levels"], "res": x["res"]}
                root_boundary[os.path.basename(trace)] = {"targets": e["targets"], "found_len": e["found"], "closest_miss": e["closest"], "tries": e["tries"], "judged": hit}
        calls = [e for e in events if e["ev"] in ("Encrypt", "Fetch")]
        nev += len(calls)
        for e in calls:
            if e["ev"] == "Encrypt":
                distinct.add(json.dumps(["E", bld, e["len"], e["content"], e["seed"]]))
            else:
                distinct.add(json.dumps(["F", bld, batch, e["len"], e["content"], e["seed"], e["api"], e["picked"], e["burst"]]))
                key = "%s/levels=%d" % (bld, e["levels"])
                reads_by[key] = reads_by.get(key, 0) + 1
        if not samples:
            enc = [e for e in calls if e["ev"] == "Encrypt" and e["call"] == 1]
            fet = [e for e in calls if e["ev"] == "Fetch"]
            pick = [x for x in ([e for e in enc if e["res"] == "err"][:1] + [e for e in enc if e["levels"] == 1 and e["len"] > 5][:1] +
                                [e for e in enc if e["levels"] == 3][:1])]
            samples = [{k: e[k] for k in ("ev", "len", "cls", "content", "max", "res", "n", "rootsz", "maxenc", "badaddr", "shape", "src")} for e in pick] + \
                      [{k: e[k] for k in ("ev", "len", "content", "api", "batch", "burst", "order", "picked", "res", "levels", "shape", "maxout", "src")}
                       for e in [x for x in fet if x["src"] == "tlc" and x["levels"] == 1][:1] + [x for x in fet if x["levels"] == 2][:1] + [x for x in fet if x["levels"] == 3][:1]]
        stats.append({"trace": os.path.basename(trace), **rep.get("stats", {})})
    v.cov["evaluations"] = nev
    v.cov["distinct_nontrivial"] = len(distinct)
    v.cov["traces_validated_against_impl"] = len(runs)
    v.cov["scenarios_from_tlc"] = nscn
    v.cov["reads_by_build_and_levels"] = reads_by
    v.cov["impl_stats"] = stats
    v.cov["root_data_map_size_boundary"] = root_boundary
    v.cov["rule"] = ("a case is one real call: encrypt(bytes) (twice per input) or data_get_public/data_get of an encrypted input under one completion schedule; "
                     "distinct = distinct (build, length, content kind, seed) for encrypts and distinct (build, batch, input, api, realised pick sequence) for reads")
    v.cov["samples"] = samples
    v.cov["exhaustive"] = False
    v.assumptions = ["the harness answers GetNetworkRecord from an in-memory map of the produced chunks (honest holders: C14 is about the client, C15 about dishonest holders)",
                     "completion orders: every order for one-level trees of 3-5 chunks and for the top levels of deeper trees (TLC-enumerated); levels with more chunks than the "
                     "model's follow the TLC pick sequence cyclically, plus oldest-first, newest-first and seeded random picks",
                     "MAX_CHUNK_SIZE=4096 build for trees of 2 and 3 levels (the arithmetic is the crate's own, only the constant differs); default 1 MiB build for one-level trees",
                     "all byte strings: every length 0..5, the stated boundary lengths and seeded random lengths, with random / all-zero / periodic / text content"]


# ------------------------------------------------------------------ C15
def c15(v, w, thorough, replay):
    cases = os.path.join(w, "cases.ndjson")
    if replay:
        if "encoding" in json.dumps(replay["case"]) and not encoding_enabled():
            raise ToolError("this replay uses the reply kind \"encoding\": run it with VERIF_ENABLE_ENCODING=1")
        write_ndjson(cases, [replay["case"]])
    else:
        mc = tlc("client", "MCClientAuth", cfg_auth("MCClientAuth_thorough.cfg" if thorough else "MCClientAuth.cfg", w), w, env={"CASES": cases}, workers=8, timeout=1700)
        v.add_model(mc)
        if mc.violated:
            v.violation("model:" + mc.violated, "the model of the client reads falsifies a clause of C15", {"area": "client", "prop": "C15", "tlc": mc.error_text[:6000]})
        never = [a for a in mc.actions_never_taken() if a.startswith("Do")]
        if never:
            raise ToolError("actions never taken in MCClientAuth: %s" % never)
    os.environ.pop("MAX_CHUNK_SIZE", None)      # the default build must not inherit the small constant
    build(PACKAGES)
    build_small()
    runs = []
    jobs = []
    for bld, exe in (("small", SMALL_BIN), ("default", os.path.join(BIN, "drv_client"))):
        if replay and replay.get("build") not in (None, bld):
            continue
        t = os.path.join(w, "trace-%s.ndjson" % bld)
        # the vault read does not depend on the build: in the quick tier the non-first iteration orders of every split are shared by the two builds
        # (every other one through get_vault_from_network in the small build, the rest through fetch_and_decrypt_vault -- which calls it -- in the default build)
        perm = [] if (thorough or replay) else (["--perm-api", "get", "--perm-part", "0/2"] if bld == "small" else ["--perm-api", "decrypt", "--perm-part", "1/2"])
        jobs.append((exe, ["--mode", "auth", "--out", t, "--cases", cases, "--random", 0 if replay else (3000 if thorough else 300)] + perm,
                     {"CHUNK_DOWNLOAD_BATCH_SIZE": "3" if bld == "small" else "100000"}))
        runs.append((t, bld))
    # the two builds are independent processes with their own trace files: run them side by side
    with concurrent.futures.ThreadPoolExecutor(max_workers=2) as ex:
        for f in [ex.submit(run_bin, exe, args, w, env) for exe, args, env in jobs]:
            f.result()
    nev = 0
    nsplit = 0
    distinct = set()
    samples = []
    stats = []
    for trace, bld in runs:
        rep = validate_trace("client", "ClientAuthTrace", cfg_auth("ClientAuthTrace.cfg", w), trace, w, timeout=3000, heap="6g")
        events = read_ndjson(trace)
        check_build(events, bld, trace)
        for x in rep["violations"]:
            e = events[x["line"] - 1]
            if x["clause"] == "Malformed":
                raise ToolError("malformed trace line %d in %s: %s" % (x["line"], trace, json.dumps(e)[:400]))
            if e["ev"] == "DataGet":
                case = {"op": "DataGet", "api": e.get("api", "public"), "levels": e["levels"], "lvl": e["lvl"], "idx": e["idx"], "kind": e["kind"]}
                what = "%s with the %s/%s fetch of a %d-level tree answered by a %s reply -> %s" % (
                    "data_get_public" if e.get("api", "public") == "public" else "data_get", e["lvl"], e["idx"], e["levels"], e["kind"], json.dumps(e["res"]))
            else:
                case = {"op": e["ev"], "outcome": e["outcome"]}
                what = "%s%s with delivered outcome %s -> %s" % (e["ev"], "(%s)" % e["api"] if "api" in e else "", json.dumps(e["outcome"]), json.dumps(e["res"]))
            v.violation(x["clause"], what + " (line %d of %s, src=%s)" % (x["line"], os.path.basename(trace), e.get("src")),
                        {"area": "client", "prop": "C15", "build": bld, "case": case, "event": e})
        for ln in rep.get("drift", []):
            e = events[ln - 1]
            v.drift.append({"trace": os.path.basename(trace), "line": ln, "ev": e["ev"], "outcome": e.get("outcome"), "kind": e.get("kind"), "lvl": e.get("lvl"),
                            "res": e.get("res"), "why": e.get("why"), "order": e.get("order")})
        calls = [e for e in events if e["ev"] in ("ChunkGet", "DataGet", "VaultGet")]
        nev += len(calls)
        for e in calls:
            distinct.add(json.dumps([e["ev"], e.get("api"), e.get("outcome"), e.get("levels"), e.get("lvl"), e.get("idx"), e.get("kind")], sort_keys=True))
            if e["ev"] == "VaultGet" and e["outcome"]["k"] == "Split":
                nsplit += 1
                if e.get("order") != e["outcome"]["vs"]:
                    raise ToolError("%s: the split map of a VaultGet iterates in %s, not in the prescribed order %s" % (trace, e.get("order"), e["outcome"]["vs"]))
        if not samples:
            for kind in ("ChunkGet", "DataGet", "VaultGet"):
                samples += [{k: e[k] for k in e if k in ("ev", "api", "outcome", "levels", "lvl", "idx", "kind", "hit", "res", "src")} for e in calls if e["ev"] == kind][:2]
        stats.append({"trace": os.path.basename(trace), **rep.get("stats", {})})
    v.cov["evaluations"] = nev
    v.cov["distinct_nontrivial"] = len(distinct)
    v.cov["traces_validated_against_impl"] = len(runs)
    v.cov["impl_stats"] = stats
    v.cov["vault_splits_with_controlled_map_order"] = nsplit
    v.cov["encoding_class_enabled"] = encoding_enabled()
    v.cov["rule"] = ("a case is one real client read (chunk_get, data_get_public with one substituted fetch, get_vault_from_network, fetch_and_decrypt_vault) against one "
                     "delivered outcome built from real records; distinct = distinct (operation, api, outcome / substituted position and reply kind)")
    v.cov["samples"] = samples
    v.cov["exhaustive"] = not thorough and not replay
    v.assumptions = ["reply kinds: authentic, valid chunk of other bytes under the requested key, valid chunk under its own key, wrong record kinds; pads: valid counters 1/2/3, "
                     "unsigned, signed by another key, inflated counter with stale signature, foreign owner with valid signature (under the requested and under its own key), "
                     "(proof, pad) pairs under the with-payment header holding a foreign / unsigned / inflated pad, a pad body behind a Chunk header, the signature and counter of an "
                     "authentic pad over other data, a second authentic pad with the highest counter; VERIF_ENABLE_ENCODING=1 adds an authentic pad whose content type a holder changed",
                     "a split is delivered as the std HashMap the network layer builds; the driver rebuilds it until it iterates in the prescribed order and every order of every "
                     "split of <= 3 versions is run (quick tier: the non-first orders are shared by the two builds, half through get_vault_from_network, half through fetch_and_decrypt_vault)",
                     "data_get_public / data_get: one fetch substituted by the same position of other data, by ANOTHER chunk of the same tree, under the requested or its own key, "
                     "wrong kinds, missing",
                     "outcomes are those the get-record accumulation can deliver for <= 4 (thorough 5) replies with <= 3 distinct versions (Ok, SplitRecord, NotEnoughCopies, "
                     "RecordNotFound, QueryTimeout); random runs add splits of up to 4 versions",
                     "signature forgery and SHA3 collisions are outside the adversary"]


def spread(v):
    """order the violations so that the first ones printed / written are of different (clause, call) kinds"""
    groups = {}
    for x in v.violations:
        ev = (x["payload"].get("event") or {})
        groups.setdefault((x["clause"], ev.get("ev"), ev.get("api")), []).append(x)
    out = []
    while any(groups.values()):
        for k in list(groups):
            if groups[k]:
                out.append(groups[k].pop(0))
    v.violations = out


def run(prop, tier, replay=None):
    v = Verdict(prop, tier, replaying=replay is not None)
    w = workdir(prop)
    thorough = tier == "thorough"
    if replay is not None and replay.get("prop") not in (None, prop):
        raise ToolError("replay file is for %s, not %s" % (replay.get("prop"), prop))
    if prop == "C14":
        c14(v, w, thorough, replay)
    else:
        c15(v, w, thorough, replay)
    spread(v)
    return v.finish()
SETUP = [build_small]
