AREAS = ["amount", "replfetcher", "codec", "quote", "service", "recordstore"]
