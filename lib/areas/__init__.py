AREAS = ["amount"]
