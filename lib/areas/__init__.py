AREAS = ["amount", "replfetcher", "codec", "quote", "service", "recordstore", "nodeput", "bootcache", "parsers", "distance", "replication", "client", "register", "getrecord"]
