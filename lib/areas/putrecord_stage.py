"""Put path (specs/putrecord, driver drv_putrecord): client-side put, verification read-back and retries.

Second engine of C05's check.  Only the clause C05_PutVerifyTarget (a put verified against an expected value returns
Ok only if a value equal to it was read back with the configured quorum) is a verdict of C05; the other clauses
(Put_*) describe behaviour no listed property speaks about: a falsified one is printed as SPEC-DEVIATION and counted
in the evidence file, never reported as a violation."""
import concurrent.futures
import os
from vcheck import *
from areas.replfetcher import scenarios_from, sim_states

C05_CLAUSES = ("C05_PutVerifyTarget",)


def enabled():
    """VERIF_ENABLE_PUTRECORD=0 switches the stage off."""
    return os.environ.get("VERIF_ENABLE_PUTRECORD", "1") != "0"


def _att_view(e):
    return [{"cmd": a["cmd"], "reply": a["reply"], "nrep": a["nrep"], "reads": [[r["a"], r["n"]] for r in a["reads"]],
             "proofs": [[p["n"], p["v"]] for p in a["proofs"]]} for a in e["att"]]


def ensure_built():
    """dev aid VERIF_BUILD_BINS (a check builds only the named driver binaries): this stage needs its own driver too"""
    bins = os.environ.get("VERIF_BUILD_BINS", "")
    if bins and "drv_putrecord" not in bins.split(","):
        os.environ["VERIF_BUILD_BINS"] = "drv_putrecord"
        try:
            build(["drv_net"])
        finally:
            os.environ["VERIF_BUILD_BINS"] = bins


def putrecord_stage(v, w, thorough, replay):
    t_stage = time.time()
    ensure_built()
    scn_path = os.path.join(w, "put-scenarios.ndjson")
    pool = concurrent.futures.ThreadPoolExecutor(max_workers=2)
    background = []
    if replay:
        write_ndjson(scn_path, [replay["scenario"]])
    else:
        # exhaustive runs (clauses on every finished call of the model; the negative control) go on while the
        # simulated behaviours are executed on the real code
        background.append(pool.submit(tlc, "putrecord", "MCPutRecord", "MCPutRecord_thorough.cfg" if thorough else "MCPutRecord.cfg", w,
                                      workers=6, timeout=3000))
        negs = [("MCPutRecord_neg.cfg", "a model in which a failed verification does not fail the attempt")]
        if thorough:
            negs.append(("MCPutRecord_negkf.cfg", "the model without the listed known finding C05-merge-bypasses-target masked"))
        for cfg, what in negs:
            background.append(pool.submit(tlc, "putrecord", "MCPutRecord", cfg, w, workers=2, timeout=600, coverage=False))
        sim = tlc("putrecord", "MCPutRecord", "MCPutRecord_sim_thorough.cfg" if thorough else "MCPutRecord_sim.cfg", w, workers=1,
                  simulate="num=%d" % (3000 if thorough else 400), depth=80, coverage=False, timeout=3000, extra=["-seed", str(seed())])
        if sim.violated:
            raise ToolError("the put model falsifies its own clauses in simulation: %s\n%s" % (sim.violated, sim.error_text[-3000:]))
        v.cov["states"] += sim_states(sim)
        v.cov["transitions"] += sim_states(sim)
        write_ndjson(scn_path, scenarios_from(sim))
    scn_list = read_ndjson(scn_path)
    trace = os.path.join(w, "put-trace.ndjson")
    args = ["--scenarios", scn_path, "--out", trace, "--work", os.path.join(w, "putnodes"), "--big", 6 if thorough else 3]
    if replay and replay.get("mode"):
        args += ["--mode", replay["mode"]]
    p = run_driver("drv_putrecord", args, w, timeout=3400)
    rep = validate_trace("putrecord", "PutRecordTrace", "PutRecordTrace.cfg", trace, w, timeout=3400, heap="4g")
    events = read_ndjson(trace)
    if background:
        mc = background[0].result()
        v.add_model(mc)
        if mc.violated:
            raise ToolError("the put model falsifies its own clauses: %s\n%s" % (mc.violated, mc.error_text[:3000]))
        never = [a for a in mc.actions_never_taken() if a.startswith("Do")]
        if never:
            raise ToolError("actions never taken in MCPutRecord: %s" % never)
        for (cfg, what), fut in zip(negs, background[1:]):
            r = fut.result()
            if r.violated != "NoClauseFalsified":
                raise ToolError("the put clauses are vacuous: %s (%s) does not falsify them" % (cfg, what))
    pool.shutdown()

    def payload_of(e):
        return {"area": "putrecord", "scenario": scn_list[e["scn"] - 1], "mode": e["mode"], "event": e}

    def describe(x, e):
        return "put_record call (mode %d, scenario %d) at trace line %d: cfg=%s attempts=%s result=%s" % (
            e["mode"], e["scn"], x["line"], json.dumps(e["cfg"], sort_keys=True), json.dumps(_att_view(e)), json.dumps(e["res"], sort_keys=True))

    deviations = []
    for x in rep["violations"]:
        e = events[x["line"] - 1]
        if x["clause"] == "Malformed":
            raise ToolError("malformed put trace line %d: %s" % (x["line"], json.dumps(e)[:600]))
        if x["clause"] in C05_CLAUSES:
            v.violation(x["clause"], describe(x, e), payload_of(e))
        else:
            deviations.append({"clause": x["clause"], "line": x["line"], "event": e})
    for d in deviations[:5]:
        log("SPEC-DEVIATION (no listed property) clause=%s line=%d cfg=%s attempts=%s result=%s" % (
            d["clause"], d["line"], json.dumps(d["event"]["cfg"], sort_keys=True), json.dumps(_att_view(d["event"]))[:400], json.dumps(d["event"]["res"])))
    kfs = {k["id"]: k for k in kf_for(v.prop)}
    for x in rep.get("known", []):
        e = events[x["line"] - 1]
        kf = kfs.get(x["kf"])
        if kf is None and x["clause"] in C05_CLAUSES:
            v.violation(x["clause"], "matched finding %s is not listed as known in known_findings.json; %s" % (x["kf"], describe(x, e)), payload_of(e))
        elif kf is not None:
            v.known_finding(kf, "put line %d" % x["line"])
    for ln in rep.get("drift", []):
        e = events[ln - 1]
        v.drift.append({"engine": "putrecord", "line": ln, "mode": e["mode"], "cfg": e["cfg"], "att": _att_view(e), "res": e["res"]})
    calls = [e for e in events if e["ev"] == "Put"]
    v.cov["evaluations"] += len(calls)
    v.cov["distinct_nontrivial"] += len(set(json.dumps([e["mode"], e["cfg"], _att_view(e), e["res"]], sort_keys=True) for e in calls))
    v.cov["traces_validated_against_impl"] += len(calls)
    v.cov["putrecord_stats"] = rep.get("stats")
    v.cov["putrecord_spec_deviations"] = len(deviations)
    v.cov["putrecord_deviating_clauses"] = sorted(set(d["clause"] for d in deviations))
    v.cov["putrecord_calls"] = {"mode1": sum(1 for e in calls if e["mode"] == 1), "mode2": sum(1 for e in calls if e["mode"] == 2),
                                "scenarios": len(scn_list), "longest_call_ms": max([e["ms"] for e in calls] or [0])}
    v.cov["putrecord_wall_s"] = round(time.time() - t_stage, 1)
    try:
        v.cov["putrecord_driver"] = json.loads(p.stdout.strip().splitlines()[-1])
    except (ValueError, IndexError):
        pass
    two = [e for e in calls if e["mode"] == 2 and len(e["att"]) == 2 and e["cfg"]["target"]][:1] or calls[:1]
    for e in two:
        v.cov["samples"].append({"engine": "putrecord", "mode": e["mode"], "cfg": e["cfg"], "attempts": _att_view(e), "result": e["res"], "ms": e["ms"]})
    v.cov["rule"] += ("; put engine: a case is one finished call of the real Network::put_record inside a TLC-simulated behaviour of the put model "
                      "(mode 1: every command answered by the harness; mode 2: put / read commands handled by the real SwarmDriver of a node, kad events injected); "
                      "distinct = distinct (mode, configuration, observed attempts with commands, replies and verification answers, result)")
    v.assumptions.append("put engine: RetryStrategy None / N(2) (thorough: up to Quick = 4 attempts) for the put and for the verification read; the code under test really sleeps "
                         "(300-750 ms before each verification, 2 s+ back-offs), all calls concurrently; times are logged as data and not judged; in mode 1 the harness is the SwarmDriver and "
                         "honours the GetNetworkRecord contract (Ok(other content) only when no expected value was given); in mode 2 a put is refused only through an oversize value; "
                         "ChunkProof requests are answered by the harness in both modes (7 close nodes: verifying / wrong proof / empty / error entry / silent)")
