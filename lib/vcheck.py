"""Common machinery of /verif/bin/check: running TLC, building and running the Rust drivers,
known-findings matching, evidence files, verdict lines and exit codes.

Exit codes of a check: 0 = property held on everything explored, 1 = VIOLATION (a line
`VIOLATION property=<id> replay=<path>` was printed), 2 = tool error (build failure, TLC crash,
timeout, malformed trace) -- never reported as a violation.
"""
import json
import os
import re
import shutil
import subprocess
import sys
import time
import fcntl

ROOT = os.path.dirname(os.path.dirname(os.path.abspath(__file__)))
SPECS = os.path.join(ROOT, "specs")
HARNESS = os.path.join(ROOT, "harness")
WORK = os.path.join(ROOT, "work")
EVID = os.path.join(ROOT, "evidence")
BIN = os.environ.get("VERIF_BIN_DIR") or os.path.join(HARNESS, "target", "release")   # (dev: coverage-instrumented drivers)
REPO = "/repo"


class ToolError(Exception):
    pass


def log(msg):
    print(msg, flush=True)


def seed():
    try:
        return int(os.environ.get("VERIF_SEED", "1"))
    except ValueError:
        return 1


def workdir(name, clean=True):
    d = os.path.join(WORK, name)
    if clean and os.path.isdir(d):
        shutil.rmtree(d, ignore_errors=True)
    os.makedirs(d, exist_ok=True)
    return d


# ------------------------------------------------------------------ cargo
def build(packages=None, timeout=3600):
    """Build the harness (and thereby the current /repo working tree) with hooks enabled."""
    os.makedirs(WORK, exist_ok=True)
    lock = open(os.path.join(WORK, ".build.lock"), "w")
    fcntl.flock(lock, fcntl.LOCK_EX)
    try:
        cmd = ["cargo", "build", "--release", "--offline"]
        for p in packages or []:
            cmd += ["-p", p]
        # development aid: build only the named driver binaries (several people editing drivers of one package)
        for b in [x for x in os.environ.get("VERIF_BUILD_BINS", "").split(",") if x]:
            cmd += ["--bin", b]
        env = dict(os.environ)
        env["CARGO_NET_OFFLINE"] = "true"
        t0 = time.time()
        p = subprocess.run(cmd, cwd=HARNESS, env=env, stdout=subprocess.PIPE, stderr=subprocess.STDOUT,
                           text=True, timeout=timeout)
        if p.returncode != 0:
            tail = "\n".join(p.stdout.splitlines()[-60:])
            raise ToolError("harness build failed:\n" + tail)
        return time.time() - t0
    finally:
        fcntl.flock(lock, fcntl.LOCK_UN)
        lock.close()


def run_driver(name, args, cwd, env=None, timeout=1800, check=True):
    exe = os.path.join(BIN, name)
    e = dict(os.environ)
    e["VERIF_SEED"] = str(seed())
    if env:
        e.update(env)
    p = subprocess.run([exe] + [str(a) for a in args], cwd=cwd, env=e, stdout=subprocess.PIPE,
                       stderr=subprocess.PIPE, text=True, timeout=timeout)
    if check and p.returncode != 0:
        raise ToolError("driver %s %s failed (exit %s):\n%s\n%s" % (name, args, p.returncode,
                        p.stdout[-2000:], p.stderr[-4000:]))
    return p


# ------------------------------------------------------------------ TLC
TLC_CP = "/opt/veriftools/tla/tla2tools.jar:/opt/veriftools/tla/CommunityModules-deps.jar"


class TlcResult:
    def __init__(self):
        self.generated = 0
        self.distinct = 0
        self.depth = 0
        self.ok = False
        self.violated = None       # name of violated invariant / property
        self.error_text = ""
        self.output = ""
        self.coverage = {}         # action name -> (distinct, total)
        self.wall = 0.0
        self.printed = []          # PrintT lines

    def actions_never_taken(self):
        return [a for a, (d, t) in self.coverage.items() if t == 0]


TLC_TRANSIENT = ("StatePoolReader", "when reading pool file", "StatePoolWriter", "when writing pool file")


def tlc(*args, **kw):
    """TLC, run again (at most twice) when its disk-backed state queue lost a file underneath it ('Error: when reading pool
    file N (StatePoolReader.run) ... No such file or directory'). Seen when a development copy of this framework lived under
    /tmp while the repository's own record-store tests ran there: those tests root a store at the system temp dir, and the
    store's start-up scan deletes every hex-named file it cannot decrypt below its root -- TLC's pool files are called 10, 11, ...
    /verif/work is not under /tmp; the retry only keeps such an outside interference from ending a check as a tool error.
    Everything else is passed through unchanged."""
    for attempt in (1, 2, 3):
        try:
            return _tlc_once(*args, **kw)
        except ToolError as e:
            if attempt == 3 or not any(m in str(e) for m in TLC_TRANSIENT):
                raise
            log("TLC transient I/O error (attempt %d), running it again: %s" % (attempt, str(e).splitlines()[1][:160] if len(str(e).splitlines()) > 1 else ""))


def _tlc_once(spec_dir, module, cfg, work, env=None, workers=8, simulate=None, depth=None, coverage=True,
              dfs=False, timeout=1800, heap="8g", extra=None, deadlock=False):
    """Run TLC on specs/<spec_dir>/<module>.tla with <cfg>; returns a TlcResult (never raises on
    an invariant violation, raises ToolError on parse errors / crashes / timeouts)."""
    sdir = os.path.join(SPECS, spec_dir)
    meta = os.path.join(work, "states-" + os.path.basename(cfg).replace(".cfg", ""))
    shutil.rmtree(meta, ignore_errors=True)
    jopts = ["-Xss1g", "-Xmx" + heap, "-XX:+UseParallelGC"]
    if dfs:
        jopts.append("-Dtlc2.tool.queue.IStateQueue=StateDeque")
    cmd = ["java"] + jopts + ["-cp", TLC_CP, "tlc2.TLC", "-workers", str(workers), "-metadir", meta,
                              "-cleanup", "-noGenerateSpecTE", "-nowarning"]
    if coverage:
        cmd += ["-coverage", "1"]
    if simulate:
        cmd += ["-simulate", simulate]
    if depth:
        cmd += ["-depth", str(depth)]
    if deadlock:
        cmd += ["-deadlock"]
    if extra:
        cmd += extra
    cmd += ["-config", os.path.join(sdir, cfg), os.path.join(sdir, module + ".tla")]
    e = dict(os.environ)
    e.pop("JAVA_TOOL_OPTIONS", None)
    if env:
        e.update({k: str(v) for k, v in env.items()})
    t0 = time.time()
    try:
        p = subprocess.run(cmd, cwd=work, env=e, stdout=subprocess.PIPE, stderr=subprocess.STDOUT, text=True,
                           timeout=timeout)
    except subprocess.TimeoutExpired:
        raise ToolError("TLC timed out after %ss on %s/%s" % (timeout, spec_dir, cfg))
    finally:
        shutil.rmtree(meta, ignore_errors=True)
    r = TlcResult()
    r.wall = time.time() - t0
    r.output = p.stdout
    out = p.stdout
    m = None
    for m in re.finditer(r"(\d+) states generated, (\d+) distinct states found", out):
        pass
    if m:
        r.generated, r.distinct = int(m.group(1)), int(m.group(2))
    m = re.search(r"The depth of the complete state graph search is (\d+)", out)
    if m:
        r.depth = int(m.group(1))
    # coverage lines: <Action line 12, col 1 to line 20, col 30 of module X>: 12:34
    for m in re.finditer(r"^<(\w+) line \d+, col \d+ to line \d+, col \d+ of module (\w+)(?: \([\d ]+\))?>: (\d+):(\d+)", out, re.M):
        r.coverage[m.group(1)] = (int(m.group(3)), int(m.group(4)))
    r.printed = [ln for ln in out.splitlines() if ln.startswith("<<\"") or ln.startswith("\"")]
    m = re.search(r"Error: Invariant (\w+) is violated", out)
    if m:
        r.violated = m.group(1)
    m2 = re.search(r"Error: Action property (\w+) is violated", out)
    if m2:
        r.violated = m2.group(1)
    m3 = re.search(r"Error: Temporal property (\w+) was violated", out)
    if m3:
        r.violated = r.violated or m3.group(1)
    if "Temporal properties were violated" in out:
        r.violated = r.violated or "TemporalProperty"
    if "Error: Deadlock reached" in out:
        r.violated = r.violated or "Deadlock"
    if r.violated:
        i = out.find("Error:")
        r.error_text = out[i:i + 2000000]
        return r
    if "Model checking completed. No error has been found." in out or (simulate and p.returncode in (0,) ):
        r.ok = True
        return r
    if simulate and "Error:" not in out:
        r.ok = True
        return r
    i = out.find("Error")
    raise ToolError("TLC failed on %s/%s (exit %s):\n%s" % (spec_dir, cfg, p.returncode, out[i if i >= 0 else -4000:][:6000]))


def parse_tlc_trace(error_text):
    """Parse the counterexample states printed by TLC into a list of (action, {var: text})."""
    states = []
    cur = None
    for ln in error_text.splitlines():
        m = re.match(r"^State (\d+): <(.*?)>$", ln.strip())
        if m:
            cur = {"n": int(m.group(1)), "action": m.group(2).split(" line")[0], "text": []}
            states.append(cur)
        elif cur is not None:
            if ln.strip() == "" and cur["text"]:
                cur = None
            else:
                cur["text"].append(ln)
    for s in states:
        s["text"] = "\n".join(s["text"])
    return states


def read_ndjson(path):
    out = []
    with open(path) as f:
        for ln in f:
            ln = ln.strip()
            if ln:
                out.append(json.loads(ln))
    return out


def write_ndjson(path, items):
    with open(path, "w") as f:
        for it in items:
            f.write(json.dumps(it, separators=(",", ":")) + "\n")


def validate_trace(spec_dir, module, cfg, trace_path, work, env=None, timeout=1800, heap="4g"):
    """Run a deterministic trace specification over an ndjson trace. The trace spec writes its report
    (lines consumed, falsified clauses with line numbers, counters) to IOEnv.OUT. Returns the report;
    raises ToolError when the spec did not consume the whole trace."""
    out_path = os.path.join(work, "verdict-%s.ndjson" % os.path.basename(trace_path))
    if os.path.exists(out_path):
        os.remove(out_path)
    e = {"TRACE": trace_path, "OUT": out_path}
    if env:
        e.update(env)
    r = tlc(spec_dir, module, cfg, work, env=e, workers=1, dfs=True, coverage=False, timeout=timeout, heap=heap)
    if r.violated:
        raise ToolError("trace spec %s reported %s (trace specs accumulate verdicts and must not fail):\n%s"
                        % (module, r.violated, r.error_text[:3000]))
    if not os.path.exists(out_path):
        raise ToolError("trace spec %s wrote no report for %s\n%s" % (module, trace_path, r.output[-3000:]))
    rep = read_ndjson(out_path)[0]
    n = sum(1 for ln in open(trace_path) if ln.strip())
    if rep.get("lines") != n:
        raise ToolError("trace spec %s consumed %s of %s lines" % (module, rep.get("lines"), n))
    rep["tlc_wall"] = r.wall
    rep["tlc_states"] = r.distinct
    return rep


# ------------------------------------------------------------------ known findings
def known_findings():
    p = os.path.join(ROOT, "known_findings.json")
    if not os.path.exists(p):
        return []
    with open(p) as f:
        return json.load(f).get("findings", [])


def kf_for(prop):
    return [k for k in known_findings() if k["property"] == prop and k.get("status") == "known"]


# ------------------------------------------------------------------ verdicts and evidence
class Verdict:
    """Collects violations / known findings / drift for one property run."""

    def __init__(self, prop, tier, replaying=False):
        self.prop = prop
        self.tier = tier
        self.replaying = replaying
        self.violations = []     # dicts with clause, detail, replay payload
        self.known = {}          # finding id -> count
        self.drift = []
        self.t0 = time.time()
        self.cov = {"evaluations": 0, "distinct_nontrivial": 0, "rule": "", "samples": [], "states": 0,
                    "transitions": 0, "traces_validated_against_impl": 0, "exhaustive": False}
        self.assumptions = []

    def violation(self, clause, detail, payload):
        self.violations.append({"clause": clause, "detail": detail, "payload": payload})

    def known_finding(self, kf, what):
        self.known.setdefault(kf["id"], {"kf": kf, "n": 0, "what": what})["n"] += 1

    def add_model(self, r):
        self.cov["states"] += r.distinct
        self.cov["transitions"] += r.generated

    def finish(self, level="model_checking"):
        os.makedirs(EVID, exist_ok=True)
        rdir = os.path.join(WORK, "replay")
        os.makedirs(rdir, exist_ok=True)
        for k in self.known.values():
            log("KNOWN-FINDING: property=%s %s: %s (%d occurrences)" % (self.prop, k["kf"]["id"], k["kf"]["description"], k["n"]))
        paths = []
        if self.replaying:
            for v in self.violations[:5]:
                log("VIOLATION property=%s replay=(replayed) clause=%s %s" % (self.prop, v["clause"], v["detail"]))
            log("%s replay: %s" % (self.prop, "VIOLATED" if self.violations else "held"))
            return 1 if self.violations else 0
        for i, v in enumerate(self.violations[:5]):
            path = os.path.join(rdir, "%s-%d.json" % (self.prop, i + 1))
            with open(path, "w") as f:
                json.dump({"property": self.prop, "clause": v["clause"], "detail": v["detail"],
                           "replay": v["payload"]}, f, indent=1)
            paths.append(path)
            log("VIOLATION property=%s replay=%s" % (self.prop, path))
            log("  clause=%s %s" % (v["clause"], v["detail"]))
        ev = {
            "property_id": self.prop,
            "tier": self.tier,
            "seed": seed(),
            "level": level,
            "coverage": self.cov,
            "assumptions": self.assumptions,
            "wall_s": round(time.time() - self.t0, 2),
            "violations": len(self.violations),
        }
        ev["coverage"]["known_findings_seen"] = {k: v["n"] for k, v in self.known.items()}
        ev["coverage"]["drift"] = len(self.drift)
        if self.drift:
            ev["coverage"]["drift_samples"] = self.drift[:5]
        with open(os.path.join(EVID, self.prop + ".json"), "w") as f:
            json.dump(ev, f, indent=1)
        if self.drift:
            log("DRIFT property=%s %d model/implementation disagreements that keep the property (see evidence)" % (self.prop, len(self.drift)))
        log("%s %s: %s  (states=%d transitions=%d traces=%d evaluations=%d distinct_nontrivial=%d wall=%.1fs)" % (
            self.prop, self.tier, "VIOLATED" if self.violations else "held", self.cov["states"], self.cov["transitions"],
            self.cov["traces_validated_against_impl"], self.cov["evaluations"], self.cov["distinct_nontrivial"],
            time.time() - self.t0))
        return 1 if self.violations else 0


def tier_from(argv_tier):
    t = argv_tier or os.environ.get("VERIF_TIER") or "quick"
    return "thorough" if t.startswith("t") else "quick"
