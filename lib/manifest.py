#!/usr/bin/env python3
"""Regenerate /verif/MANIFEST.json from the META tables of the area modules (single source)."""
import importlib, json, os, sys, subprocess
HERE = os.path.dirname(os.path.abspath(__file__))
sys.path.insert(0, HERE)
ROOT = os.path.dirname(HERE)
from areas import AREAS

ENGINE_PATHS = {"peers": "specs/peers (BadNode.tla, MCBadNode.tla, BadNodeTrace.tla) + lib/areas/replication.py peers_stage + harness/drv_peers",
                "challenge": "specs/challenge (Challenge.tla, MCChallenge.tla, ChallengeTrace.tla) + lib/areas/challenge_stage.py + harness/drv_net/src/bin/drv_challenge.rs",
                "putrecord": "specs/putrecord (PutRecord.tla, MCPutRecord.tla, PutRecordTrace.tla) + lib/areas/putrecord_stage.py + harness/drv_net/src/bin/drv_putrecord.rs",
                "quoting": "specs/quoting (Quoting.tla, MCQuoting.tla, QuotingTrace.tla) + lib/areas/quoting_stage.py + harness/drv_net/src/bin/drv_quoting.rs",
                "network": "specs/network (Network.tla = node handlers over INSTANCE ReplFetcher + Replication lattice; MCNetwork.tla message bag, phases, liveness; NetworkTrace.tla) + lib/areas/replication.py network_stage + harness/drv_net/src/bin/drv_netw.rs"}
NOT_YET = "check not built yet (construction order in DESIGN.md Appendix D); nothing is claimed for this property at this commit"

def main():
    props = [json.loads(l)["id"] for l in open(os.path.join(ROOT, "properties.jsonl"))]
    checks, engines, claimed = [], {}, set()
    for a in AREAS:
        m = importlib.import_module("areas." + a)
        for p in m.PROPS:
            meta = m.META[p]
            claimed.add(p)
            checks.append({
                "property_id": p,
                "quick_cmd": "bin/check %s --tier quick" % p,
                "thorough_cmd": "bin/check %s --tier thorough" % p,
                "evidence_file": "/verif/evidence/%s.json" % p,
                "replay_cmd_template": "bin/check replay {path}",
                "engine": meta["engine"],
                "level_claimed": {"category": meta["level"], "text": meta["text"], "design_ref": meta.get("design_ref", "")},
                "level_note": meta["note"],
                "technique": meta["technique"],
            })
            engines.setdefault(meta["engine"], []).append(p)
            for extra in meta.get("more_engines", []):
                engines.setdefault(extra, []).append(p)
    hooks_commits = []
    hp = os.path.join(ROOT, "hooks_commits.txt")
    if os.path.exists(hp):
        hooks_commits = [l.split()[0] for l in open(hp) if l.strip() and not l.startswith("#")]
    na_reasons = {}
    nap = os.path.join(ROOT, "not_applicable.json")
    if os.path.exists(nap):
        na_reasons = json.load(open(nap))
    man = {
        "version": 1,
        "setup_cmd": "bin/check setup",
        "hooks": {
            "guard": "--cfg maidsafe_safe_network_verif",
            "enable": "the harness workspace /verif/harness sets rustflags = [\"--cfg\", \"maidsafe_safe_network_verif\"] in .cargo/config.toml and depends on the /repo crates by path, so every check rebuilds /repo's working tree with the hooks on",
            "baseline_off_cmd": "cd /repo && cargo nextest run --workspace --no-fail-fast --test-threads 8 --offline || cargo test --workspace --no-fail-fast --offline",
            "source_commits": hooks_commits,
            "add_only": True,
        },
        "engines": [{"name": e, "path": ENGINE_PATHS.get(e, "specs/%s + lib/areas/%s.py + harness" % (e, e)), "serves_properties": ps,
                     "kind_free_text": "TLA+ specification checked by TLC; TLC-generated cases replayed into the real code; recorded traces validated by TLC against the trace specification"}
                    for e, ps in engines.items()],
        "checks": checks,
        "notes": "Technique family: explicit TLA+ specification + TLC + conformance (replay / trace validation). See DESIGN.md. known_findings.json lists genuine defects (fixed / known).",
        "not_applicable": [{"property_id": p, "reason": na_reasons.get(p, NOT_YET)} for p in props if p not in claimed],
    }
    with open(os.path.join(ROOT, "MANIFEST.json"), "w") as f:
        json.dump(man, f, indent=1)
    try:
        import jsonschema
        jsonschema.validate(man, json.load(open("/root/.vp/MANIFEST.schema.json")))
        print("MANIFEST.json valid;", len(checks), "checks,", len(man["not_applicable"]), "not_applicable")
    except ImportError:
        print("jsonschema not available; wrote MANIFEST.json")

if __name__ == "__main__":
    main()
