//! C19 / C20 driver.
//!
//! `drv_svc life ...`  drives the REAL node-manager code (`add_node`, `refresh_node_registry`,
//! `ServiceManager<NodeService>::{start,stop,remove,upgrade}`, `NodeRegistry::{save,load}`) against a
//! SIMULATED operating system: an implementation of the public `ServiceControl` trait (installed
//! service definitions, live processes with pids, port allocator) and of `RpcActions` (answers from
//! the simulated process), both with a fault script ("the n-th call of the scenario fails with an
//! error and has no effect").  Scenarios come from TLC (`--scenarios`) and from a seeded random
//! generator.  After every operation the projected registry, the projected simulated OS and the
//! result of reloading the saved registry are logged.  Between operations the ENVIRONMENT may kill the
//! process of a service or respawn it with a new pid (steps "Kill" / "Respawn": no manager code runs);
//! an Add may carry two port options of different kinds ("port"/"kind" and "port2"/"kind2").
//!
//! `drv_svc args ...`  for every option combination written by TLC runs the REAL install path
//! (`add_node`, capturing the `ServiceInstallCtx`) and the REAL upgrade path
//! (`ServiceManager::upgrade` -> `NodeService::build_upgrade_install_context`, with the options of
//! `antctl upgrade` as transcribed from cmd/node.rs in `antctl_upgrade_options`), every command on the
//! registry as reloaded from the saved file, optionally as second service of a `--count 2` batch, with
//! `--auto-set-nat-flags`, and after an `antctl start`; then runs the `antnode` binary built from the
//! same tree (hook H7: option dump) on both argument lists.
use ant_bootstrap::PeersArgs;
use ant_evm::{EvmNetwork, RewardsAddress};
use ant_logging::LogFormat;
use ant_node_manager::{
    add_services::{
        add_node,
        config::{AddNodeServiceOptions, PortRange},
    },
    refresh_node_registry, ServiceManager, VerbosityLevel,
};
use ant_service_management::{
    control::ServiceControl,
    error::{Error as SvcError, Result as SvcResult},
    rpc::{NetworkInfo, NodeInfo, RecordAddress, RpcActions},
    NatDetectionStatus, NodeRegistry, NodeService, ServiceStatus, UpgradeOptions, UpgradeResult,
};
use async_trait::async_trait;
use rand::Rng;
use serde_json::{json, Value};
use service_manager::ServiceInstallCtx;
use std::collections::{BTreeMap, BTreeSet};
use std::net::Ipv4Addr;
use std::path::{Path, PathBuf};
use std::str::FromStr;
use std::sync::{Arc, Mutex};
use std::time::Duration;
use vtrace::{arg, guarded, quiet_panics, read_ndjson, rng, Trace};

const PEER_ID: &str = "12D3KooWS2tpXGGTmg2AHFiDh57yPQnat49YHnyqoggzXZWpqkCR";
const CONNECTED: [&str; 2] = ["12D3KooWRBhwfeP2Y4TCx1SM6s9rUoHhR5STiGwxBhgFRcw3UERE", "12D3KooWS2tpXGGTmg2AHFiDh57yPQnat49YHnyqoggzXZWpqkCR"];
const OLD_VERSION: &str = "0.1.0";
const NEW_VERSION: &str = "0.2.0";
const DYN_PORT_BASE: u16 = 30000; // ports handed out by the simulated OS are > DYN_PORT_BASE

/// [C20-1] What `antctl upgrade` puts into `UpgradeOptions::auto_restart`.
/// /repo/ant-node-manager/src/cmd/node.rs:515 reads `auto_restart: false,` (hard-coded); NodeService::
/// build_upgrade_install_context copies it into `ServiceInstallCtx::autostart`, so every upgrade of a service added with
/// `--auto-restart` regenerates its definition WITHOUT autostart (C20_UpgradeKeeps false).  `false` = transcription of the
/// line as it stands (the C20 check then reports the violation on every `arst` case); `true` = transcription of the line
/// after the fix `auto_restart: node.auto_restart,`.  The lead flips this constant together with that fix; nothing else in
/// `antctl_upgrade_options` changes.
const ANTCTL_UPGRADE_AUTO_RESTART_FROM_SERVICE: bool = true;

// ------------------------------------------------------------------------------------------------
// simulated operating system
// ------------------------------------------------------------------------------------------------
struct Proc {
    pid: u32,
    program: PathBuf,
    port: u16,
}

#[derive(Default)]
struct OsState {
    installed: BTreeMap<String, (ServiceInstallCtx, bool)>,
    procs: Vec<Proc>,
    next_pid: u32,
    next_port: u16,
    next_listen: u16,
    calls: u64,
    faults: BTreeSet<u64>,
    consumed: Vec<u64>,
    names: Vec<String>,
    /// every successful install: (definition, user_mode argument)
    installs: Vec<(ServiceInstallCtx, bool)>,
    /// every uninstall call that was not an injected fault: (label, user_mode argument, outcome)
    uninstalls: Vec<(String, bool, &'static str)>,
    /// [C19-3] what `uninstall` of a definition that is not there reports: false = ServiceRemovedManually (the real
    /// controller when the unit file is missing), true = ServiceDoesNotExists (the real controller when the service
    /// manager does not know the service)
    missing_is_does_not_exist: bool,
    /// [C19-3] number of connected peers the simulated node reports
    n_peers: usize,
}

impl OsState {
    /// Count one ServiceControl / RpcActions call; true when the fault script makes it fail.
    fn tick(&mut self, what: &str) -> bool {
        self.calls += 1;
        self.names.push(what.to_string());
        if self.faults.contains(&self.calls) {
            self.consumed.push(self.calls);
            true
        } else {
            false
        }
    }
}

#[derive(Clone)]
struct SimOs(Arc<Mutex<OsState>>);

fn os_fault(what: &str) -> SvcError {
    SvcError::Io(std::io::Error::new(std::io::ErrorKind::Other, format!("injected fault: {what}")))
}

fn port_arg(ctx: &ServiceInstallCtx) -> Option<u16> {
    let a: Vec<String> = ctx.args.iter().map(|x| x.to_string_lossy().to_string()).collect();
    a.iter().position(|x| x == "--port").and_then(|i| a.get(i + 1)).and_then(|p| p.parse().ok())
}

impl SimOs {
    fn new() -> Self {
        SimOs(Arc::new(Mutex::new(OsState { next_pid: 1, next_port: DYN_PORT_BASE + 1, next_listen: 40001, n_peers: 2, ..Default::default() })))
    }
    fn st(&self) -> std::sync::MutexGuard<'_, OsState> {
        self.0.lock().unwrap_or_else(|e| e.into_inner())
    }
}

/// [C19-1] environment actions: not ServiceControl calls, never counted, never failing
impl SimOs {
    /// the process running `program` dies
    fn kill(&self, program: &Path) -> bool {
        let mut s = self.st();
        let n = s.procs.len();
        s.procs.retain(|p| p.program != program);
        s.procs.len() != n
    }
    /// the OS (re)spawns the process of the installed definition `name` with a new pid (crash + Restart=, reboot with
    /// autostart): same port when the definition pins one, otherwise whatever the OS hands out this time
    fn respawn(&self, name: &str) -> bool {
        let mut s = self.st();
        let (program, port) = match s.installed.get(name) {
            Some((ctx, _)) => (ctx.program.clone(), port_arg(ctx)),
            None => return false,
        };
        if !program.exists() {
            return false;
        }
        s.procs.retain(|p| p.program != program);
        let pid = s.next_pid;
        s.next_pid += 1;
        let port = match port {
            Some(p) if p != 0 => p,
            _ => {
                let p = s.next_listen;
                s.next_listen += 1;
                p
            }
        };
        s.procs.push(Proc { pid, program, port });
        true
    }
}

impl ServiceControl for SimOs {
    fn create_service_user(&self, _username: &str) -> SvcResult<()> {
        Ok(())
    }
    fn get_available_port(&self) -> SvcResult<u16> {
        let mut s = self.st();
        if s.tick("get_available_port") {
            return Err(os_fault("get_available_port"));
        }
        let p = s.next_port;
        s.next_port += 1;
        Ok(p)
    }
    fn install(&self, install_ctx: ServiceInstallCtx, user_mode: bool) -> SvcResult<()> {
        let mut s = self.st();
        if s.tick("install") {
            return Err(os_fault("install"));
        }
        s.installs.push((install_ctx.clone(), user_mode));
        // like systemd/launchd unit files: a definition of the same label is overwritten
        s.installed.insert(install_ctx.label.to_string(), (install_ctx, user_mode));
        Ok(())
    }
    fn get_process_pid(&self, path: &Path) -> SvcResult<u32> {
        let mut s = self.st();
        if s.tick("get_process_pid") {
            return Err(os_fault("get_process_pid"));
        }
        match s.procs.iter().find(|p| p.program == path) {
            Some(p) => Ok(p.pid),
            None => Err(SvcError::ServiceProcessNotFound(path.to_string_lossy().to_string())),
        }
    }
    fn start(&self, service_name: &str, user_mode: bool) -> SvcResult<()> {
        let mut s = self.st();
        if s.tick("start") {
            return Err(os_fault("start"));
        }
        let (program, port) = match s.installed.get(service_name) {
            Some((ctx, um)) if *um == user_mode => (ctx.program.clone(), port_arg(ctx)),
            _ => return Err(SvcError::Io(std::io::Error::new(std::io::ErrorKind::NotFound, format!("unit {service_name} not found")))),
        };
        if s.procs.iter().any(|p| p.program == program) {
            return Ok(()); // already active
        }
        if !program.exists() {
            return Ok(()); // the service manager accepts the request, the process never comes up
        }
        let pid = s.next_pid;
        s.next_pid += 1;
        let port = match port {
            Some(p) if p != 0 => p,
            _ => {
                let p = s.next_listen;
                s.next_listen += 1;
                p
            }
        };
        s.procs.push(Proc { pid, program, port });
        Ok(())
    }
    fn stop(&self, service_name: &str, user_mode: bool) -> SvcResult<()> {
        let mut s = self.st();
        if s.tick("stop") {
            return Err(os_fault("stop"));
        }
        let program = match s.installed.get(service_name) {
            Some((ctx, um)) if *um == user_mode => ctx.program.clone(),
            _ => return Err(SvcError::Io(std::io::Error::new(std::io::ErrorKind::NotFound, format!("unit {service_name} not loaded")))),
        };
        s.procs.retain(|p| p.program != program);
        Ok(())
    }
    fn uninstall(&self, service_name: &str, user_mode: bool) -> SvcResult<()> {
        let mut s = self.st();
        if s.tick("uninstall") {
            return Err(os_fault("uninstall"));
        }
        match s.installed.get(service_name) {
            Some((_, um)) if *um == user_mode => {
                s.installed.remove(service_name);
                s.uninstalls.push((service_name.to_string(), user_mode, "Ok"));
                Ok(())
            }
            // what the real controller reports when the definition is not there (in that mode)
            _ if s.missing_is_does_not_exist => {
                s.uninstalls.push((service_name.to_string(), user_mode, "DoesNotExist"));
                Err(SvcError::ServiceDoesNotExists(service_name.to_string()))
            }
            _ => {
                s.uninstalls.push((service_name.to_string(), user_mode, "RemovedManually"));
                Err(SvcError::ServiceRemovedManually(service_name.to_string()))
            }
        }
    }
    fn wait(&self, _delay: u64) {}
}

struct SimRpc {
    os: SimOs,
    program: PathBuf,
}

impl SimRpc {
    fn live(&self, s: &OsState) -> Option<(u32, u16)> {
        s.procs.iter().find(|p| p.program == self.program).map(|p| (p.pid, p.port))
    }
}

#[async_trait]
impl RpcActions for SimRpc {
    async fn node_info(&self) -> SvcResult<NodeInfo> {
        let mut s = self.os.st();
        if s.tick("rpc.node_info") {
            return Err(SvcError::RpcConnectionError("injected fault".into()));
        }
        match self.live(&s) {
            Some((pid, _)) => Ok(NodeInfo {
                pid,
                peer_id: libp2p::PeerId::from_str(PEER_ID).expect("peer id"),
                log_path: PathBuf::from("log"),
                data_path: self.program.parent().map(|p| p.to_path_buf()).unwrap_or_default(),
                version: NEW_VERSION.to_string(),
                uptime: Duration::from_secs(1),
                wallet_balance: 0,
            }),
            None => Err(SvcError::RpcConnectionError("no process listening".into())),
        }
    }
    async fn network_info(&self) -> SvcResult<NetworkInfo> {
        let mut s = self.os.st();
        if s.tick("rpc.network_info") {
            return Err(SvcError::RpcConnectionError("injected fault".into()));
        }
        match self.live(&s) {
            Some((_, port)) => Ok(NetworkInfo {
                // [C19-3] connected peers, so that (de)serialize_connected_peers round-trips through save/load
                connected_peers: CONNECTED[..s.n_peers.min(CONNECTED.len())].iter().map(|p| libp2p::PeerId::from_str(p).expect("peer id")).collect(),
                listeners: vec![libp2p::Multiaddr::from_str(&format!("/ip4/127.0.0.1/udp/{port}/quic-v1")).expect("multiaddr")],
            }),
            None => Err(SvcError::RpcConnectionError("no process listening".into())),
        }
    }
    async fn record_addresses(&self) -> SvcResult<Vec<RecordAddress>> {
        Ok(vec![])
    }
    async fn node_restart(&self, _delay_millis: u64, _retain_peer_id: bool) -> SvcResult<()> {
        Ok(())
    }
    async fn node_stop(&self, _delay_millis: u64) -> SvcResult<()> {
        Ok(())
    }
    async fn node_update(&self, _delay_millis: u64) -> SvcResult<()> {
        Ok(())
    }
    async fn is_node_connected_to_network(&self, _timeout: Duration) -> SvcResult<()> {
        let mut s = self.os.st();
        if s.tick("rpc.is_node_connected_to_network") {
            return Err(SvcError::RpcConnectionError("injected fault".into()));
        }
        match self.live(&s) {
            Some(_) => Ok(()),
            None => Err(SvcError::RpcConnectionError("no process listening".into())),
        }
    }
    async fn update_log_level(&self, _log_levels: String) -> SvcResult<()> {
        Ok(())
    }
}

// ------------------------------------------------------------------------------------------------
// a managed installation (registry + simulated OS + directories) and the operations on it
// ------------------------------------------------------------------------------------------------
struct World {
    root: PathBuf,
    data_base: PathBuf,
    log_base: PathBuf,
    src_bin: PathBuf,
    upg_bin: PathBuf,
    reg: NodeRegistry,
    os: SimOs,
    rt: tokio::runtime::Runtime,
    user: String,
    user_mode: bool,
    auto_restart: bool,
}

fn current_user() -> String {
    std::env::var("USER").ok().filter(|s| !s.is_empty()).unwrap_or_else(|| "root".to_string())
}

impl World {
    fn new(root: PathBuf, user_mode: bool, auto_restart: bool) -> World {
        let _ = std::fs::remove_dir_all(&root);
        let data_base = root.join("data");
        let log_base = root.join("logs");
        std::fs::create_dir_all(&data_base).expect("mkdir data");
        std::fs::create_dir_all(&log_base).expect("mkdir logs");
        std::fs::create_dir_all(root.join("src")).expect("mkdir src");
        std::fs::create_dir_all(root.join("upg")).expect("mkdir upg");
        let src_bin = root.join("src").join("antnode");
        let upg_bin = root.join("upg").join("antnode");
        std::fs::write(&src_bin, b"fake antnode 0.1.0").expect("write bin");
        std::fs::write(&upg_bin, b"fake antnode 0.2.0").expect("write bin");
        let reg = NodeRegistry::load(&root.join("node_registry.json")).expect("fresh registry");
        let rt = tokio::runtime::Builder::new_current_thread().enable_all().build().expect("runtime");
        World { root, data_base, log_base, src_bin, upg_bin, reg, os: SimOs::new(), rt, user: current_user(), user_mode, auto_restart }
    }

    fn base_options(&self) -> AddNodeServiceOptions {
        AddNodeServiceOptions {
            antnode_dir_path: self.data_base.clone(),
            antnode_src_path: self.src_bin.clone(),
            auto_restart: self.auto_restart,
            auto_set_nat_flags: false,
            count: None,
            delete_antnode_src: false,
            enable_metrics_server: false,
            env_variables: None,
            evm_network: EvmNetwork::ArbitrumOne,
            home_network: false,
            log_format: None,
            max_archived_log_files: None,
            max_log_files: None,
            metrics_port: None,
            network_id: None,
            node_ip: None,
            node_port: None,
            owner: None,
            peers_args: PeersArgs::default(),
            rewards_address: RewardsAddress::from_str("0x03B770D9cD32077cC0bF330c13C114a87643B124").expect("addr"),
            rpc_address: None,
            rpc_port: None,
            service_data_dir_path: self.data_base.clone(),
            service_log_dir_path: self.log_base.clone(),
            upnp: false,
            user: if self.user_mode { None } else { Some(self.user.clone()) },
            user_mode: self.user_mode,
            version: OLD_VERSION.to_string(),
        }
    }

    fn add(&mut self, options: AddNodeServiceOptions) -> Result<Vec<String>, String> {
        let os = self.os.clone();
        let reg = &mut self.reg;
        self.rt.block_on(async { add_node(options, reg, &os, VerbosityLevel::Minimal).await }).map_err(|e| format!("{e}"))
    }

    /// What every `antctl start|stop|remove|upgrade` does first (cmd/node.rs): partial refresh.
    fn refresh(&mut self) -> Result<(), String> {
        let os = self.os.clone();
        let reg = &mut self.reg;
        self.rt.block_on(async { refresh_node_registry(reg, &os, false, false, false).await }).map_err(|e| format!("refresh: {e}"))
    }

    fn start(&mut self, idx: usize) -> Result<String, String> {
        let os = self.os.clone();
        let mut m = manager(&mut self.reg.nodes[idx], &os);
        self.rt.block_on(async { m.start().await }).map(|_| "Ok".to_string()).map_err(|e| format!("{e}"))
    }
    fn stop(&mut self, idx: usize) -> Result<String, String> {
        let os = self.os.clone();
        let mut m = manager(&mut self.reg.nodes[idx], &os);
        self.rt.block_on(async { m.stop().await }).map(|_| "Ok".to_string()).map_err(|e| format!("{e}"))
    }
    fn remove(&mut self, idx: usize, keep: bool) -> Result<String, String> {
        let os = self.os.clone();
        let mut m = manager(&mut self.reg.nodes[idx], &os);
        self.rt.block_on(async { m.remove(keep).await }).map(|_| "Ok".to_string()).map_err(|e| format!("{e}"))
    }
    /// `antctl upgrade [--do-not-start] [--env ...] --service-name <idx>` after the registry refresh: options exactly as
    /// cmd/node.rs builds them (`antctl_upgrade_options`), the "downloaded release" being `upg_bin` / NEW_VERSION.
    fn upgrade(&mut self, idx: usize, do_not_start: bool, provided_env: Option<Vec<(String, String)>>) -> Result<String, String> {
        let target_version = semver::Version::parse(NEW_VERSION).expect("version");
        let options = antctl_upgrade_options(&self.reg, idx, do_not_start, None, false, &provided_env, &self.upg_bin, &target_version);
        let os = self.os.clone();
        let mut m = manager(&mut self.reg.nodes[idx], &os);
        self.rt
            .block_on(async { m.upgrade(options).await })
            .map(|r| match r {
                UpgradeResult::Forced(..) => "Forced".to_string(),
                UpgradeResult::NotRequired => "NotRequired".to_string(),
                UpgradeResult::Upgraded(..) => "Upgraded".to_string(),
                UpgradeResult::UpgradedButNotStarted(..) => "UpgradedButNotStarted".to_string(),
                UpgradeResult::Error(e) => format!("Error:{e}"),
            })
            .map_err(|e| format!("{e}"))
    }

    /// What every antctl command starts with: the registry is read from the file the previous command saved.
    fn reload(&mut self) {
        self.reg = NodeRegistry::load(&self.root.join("node_registry.json")).expect("load registry");
    }

    /// save, reload, compare the whole registry
    fn save_reload(&self) -> (bool, String) {
        if let Err(e) = self.reg.save() {
            return (false, format!("save: {e}"));
        }
        match NodeRegistry::load(&self.reg.save_path) {
            Ok(l) => {
                // structural comparison of every field (Debug), not through the serialiser under test
                (format!("{:?}", self.reg) == format!("{l:?}"), String::new())
            }
            Err(e) => (false, format!("load: {e}")),
        }
    }

    fn project(&self) -> (Value, Value) {
        let mut regv = vec![];
        for n in &self.reg.nodes {
            let st = match n.status {
                ServiceStatus::Added => "Added",
                ServiceStatus::Running => "Running",
                ServiceStatus::Stopped => "Stopped",
                ServiceStatus::Removed => "Removed",
            };
            let mut ports: Vec<u16> = vec![n.rpc_socket_addr.port()];
            if let Some(p) = n.node_port {
                ports.push(p);
            }
            if let Some(p) = n.metrics_port {
                ports.push(p);
            }
            ports.sort();
            let mut rq: Vec<u16> = ports.iter().cloned().filter(|p| *p <= DYN_PORT_BASE).collect();
            rq.dedup();
            regv.push(json!({
                "st": st,
                "pid": n.pid.unwrap_or(0),
                "name": num_of(&n.service_name),
                "dir": num_of(&last_component(&n.data_dir_path)),
                "ldir": num_of(&log_component(&n.log_dir_path)),
                "num": n.number,
                "ports": ports,
                "rq": rq,
                "ver": if n.version == OLD_VERSION { 1 } else if n.version == NEW_VERSION { 2 } else { 0 },
                "um": n.user_mode,
            }));
        }
        let s = self.os.st();
        let mut inst: Vec<i64> = s.installed.keys().map(|k| num_of(k)).collect();
        inst.sort();
        let mut insts: Vec<(i64, bool)> = s.installed.iter().map(|(k, (_, um))| (num_of(k), *um)).collect();
        insts.sort();
        let mut procs: Vec<(i64, u32)> = s.procs.iter().map(|p| (num_of(&last_component(p.program.parent().unwrap_or(Path::new("")))), p.pid)).collect();
        procs.sort();
        let mut dirs: Vec<i64> = std::fs::read_dir(&self.data_base)
            .map(|rd| rd.filter_map(|e| e.ok()).map(|e| num_of(&e.file_name().to_string_lossy())).collect())
            .unwrap_or_default();
        dirs.sort();
        let osv = json!({
            "inst": inst,
            "insts": insts.iter().map(|(n, um)| json!({"n": n, "um": um})).collect::<Vec<_>>(),
            "procs": procs.iter().map(|(n, pid)| json!({"n": n, "pid": pid})).collect::<Vec<_>>(),
            "dirs": dirs,
        });
        (Value::Array(regv), osv)
    }
}

/// [C20-1] The options `antctl upgrade` hands to `ServiceManager::upgrade` for the service at `index`: a line-by-line
/// transcription of /repo/ant-node-manager/src/cmd/node.rs `upgrade()`:
///   :453      let use_force = force || custom_bin_path.is_some();
///   :462-469  (upgrade_bin_path, target_version) = download_and_get_upgrade_bin_path(..)   -- parameters here
///   :508      let node = &mut node_registry.nodes[index];
///   :509-513  let env_variables = if provided_env_variables.is_some() { &provided_env_variables }
///                                 else { &node_registry.environment_variables };
///   :514-521  let options = UpgradeOptions { auto_restart: false, env_variables: env_variables.clone(), force: use_force,
///                 start_service: !do_not_start, target_bin_path: upgrade_bin_path.clone(),
///                 target_version: target_version.clone() };
/// The first four parameters after `index` are the command-line arguments of `antctl upgrade`.
#[allow(clippy::too_many_arguments)]
fn antctl_upgrade_options(
    node_registry: &NodeRegistry,
    index: usize,
    do_not_start: bool,
    custom_bin_path: Option<PathBuf>,
    force: bool,
    provided_env_variables: &Option<Vec<(String, String)>>,
    upgrade_bin_path: &Path,
    target_version: &semver::Version,
) -> UpgradeOptions {
    let use_force = force || custom_bin_path.is_some(); // :453
    let node = &node_registry.nodes[index]; // :508
    let env_variables = if provided_env_variables.is_some() {
        provided_env_variables // :510
    } else {
        &node_registry.environment_variables // :512
    };
    UpgradeOptions {
        // :515 -- THE ONE LINE that changes with the fix (see ANTCTL_UPGRADE_AUTO_RESTART_FROM_SERVICE)
        auto_restart: if ANTCTL_UPGRADE_AUTO_RESTART_FROM_SERVICE { node.auto_restart } else { false },
        env_variables: env_variables.clone(),       // :516
        force: use_force,                           // :517
        start_service: !do_not_start,               // :518
        target_bin_path: upgrade_bin_path.to_path_buf(), // :519
        target_version: target_version.clone(),     // :520
    }
}

/// The manager object `antctl` builds for one service (cmd/node.rs): real `NodeService` over the
/// registry entry, RPC client and service controller replaced by the simulated OS.
fn manager<'a>(node: &'a mut ant_service_management::NodeServiceData, os: &SimOs) -> ServiceManager<NodeService<'a>> {
    let rpc = SimRpc { os: os.clone(), program: node.antnode_path.clone() };
    // cmd/node.rs sets the connection timeout whenever no fixed interval is given (the default)
    let service = NodeService::new(node, Box::new(rpc)).with_connection_timeout(Duration::from_secs(300));
    ServiceManager::new(service, Box::new(os.clone()), VerbosityLevel::Minimal)
}

fn last_component(p: &Path) -> String {
    p.file_name().map(|x| x.to_string_lossy().to_string()).unwrap_or_default()
}
fn log_component(p: &Path) -> String {
    // <base>/antnodeN or <base>/antnodeN/logs
    let l = last_component(p);
    if l == "logs" {
        p.parent().map(last_component).unwrap_or_default()
    } else {
        l
    }
}
fn num_of(s: &str) -> i64 {
    s.strip_prefix("antnode").and_then(|x| x.parse().ok()).unwrap_or(0)
}

// ------------------------------------------------------------------------------------------------
// C19: scenarios
// ------------------------------------------------------------------------------------------------
fn set_eq(a: &Value, b: &Value) -> bool {
    let mut x: Vec<String> = a.as_array().map(|v| v.iter().map(|e| e.to_string()).collect()).unwrap_or_default();
    let mut y: Vec<String> = b.as_array().map(|v| v.iter().map(|e| e.to_string()).collect()).unwrap_or_default();
    x.sort();
    y.sort();
    x == y
}

/// does the projected state equal the state the model expects (ports: requestable ports only)
fn matches_expected(exp: &Value, reg: &Value, os: &Value) -> bool {
    let (er, r) = (exp["reg"].as_array().cloned().unwrap_or_default(), reg.as_array().cloned().unwrap_or_default());
    if er.len() != r.len() {
        return false;
    }
    for (e, a) in er.iter().zip(r.iter()) {
        for k in ["st", "pid", "name", "dir", "ver"] {
            if e[k] != a[k] {
                return false;
            }
        }
        if !set_eq(&e["ports"], &a["rq"]) {
            return false;
        }
    }
    set_eq(&exp["os"]["inst"], &os["inst"]) && set_eq(&exp["os"]["procs"], &os["procs"]) && set_eq(&exp["os"]["dirs"], &os["dirs"])
}

fn run_scenario(t: &mut Trace, workroot: &Path, sc: &Value, src: &str, keep_dirs: bool) {
    let id = sc["id"].as_i64().unwrap_or(0);
    let user_mode = sc["um"].as_bool().unwrap_or(id % 2 == 1);
    let auto_restart = sc["arst"].as_bool().unwrap_or((id / 2) % 2 == 1);
    let root = workroot.join(format!("s{id}"));
    let mut w = World::new(root.clone(), user_mode, auto_restart);
    let steps = sc["steps"].as_array().cloned().unwrap_or_default();
    {
        let mut s = w.os.st();
        for st in &steps {
            for f in st["faults"].as_array().cloned().unwrap_or_default() {
                s.faults.insert(f.as_u64().expect("fault index"));
            }
        }
    }
    // [C19-3] how the simulated OS reports the uninstall of a definition that is not there
    let dne = sc["dne"].as_bool().unwrap_or((id / 4) % 2 == 1);
    w.os.st().missing_is_does_not_exist = dne;
    t.emit(json!({"ev": "Reset", "run": id, "src": src, "um": user_mode, "arst": auto_restart, "dne": dne}));
    for (i, st) in steps.iter().enumerate() {
        let op = st["op"].as_str().expect("op").to_string();
        let svc = st["svc"].as_u64().unwrap_or(0) as usize; // 1-based registry index
        let calls_before = w.os.st().calls;
        let consumed_before = w.os.st().consumed.len();
        let mut req: Vec<u16> = vec![];
        let refreshed = std::cell::Cell::new(false);
        let outcome: Result<Result<String, String>, String> = match op.as_str() {
            "Add" => {
                let cnt = st["cnt"].as_u64().unwrap_or(1) as u16;
                let mut o = w.base_options();
                o.count = Some(cnt);
                // one or -- [C19-2] -- two port options of different kinds
                for (pk, kk) in [("port", "kind"), ("port2", "kind2")] {
                    let port = st[pk].as_u64().unwrap_or(0) as u16;
                    let kind = st[kk].as_str().unwrap_or("node").to_string();
                    if port != 0 {
                        let pr = if cnt == 1 { PortRange::Single(port) } else { PortRange::Range(port, port + cnt - 1) };
                        req.extend(port..port + cnt);
                        match kind.as_str() {
                            "rpc" => o.rpc_port = Some(pr),
                            "metrics" => o.metrics_port = Some(pr),
                            _ => o.node_port = Some(pr),
                        }
                    }
                }
                req.sort();
                req.dedup();
                guarded(|| w.add(o).map(|_| "Ok".to_string()))
            }
            _ if svc == 0 || svc > w.reg.nodes.len() => Ok(Err("no such service".to_string())),
            // [C19-1] environment: the process dies / is (re)spawned by the OS; no manager code runs
            "Kill" => {
                let program = w.reg.nodes[svc - 1].antnode_path.clone();
                Ok(Ok(if w.os.kill(&program) { "killed" } else { "no process" }.to_string()))
            }
            "Respawn" => {
                let name = w.reg.nodes[svc - 1].service_name.clone();
                Ok(Ok(if w.os.respawn(&name) { "spawned" } else { "not installed" }.to_string()))
            }
            "Start" | "Stop" | "Remove" | "Upgrade" => guarded(|| {
                w.refresh()?;
                refreshed.set(true);
                match op.as_str() {
                    "Start" => w.start(svc - 1),
                    "Stop" => w.stop(svc - 1),
                    "Remove" => w.remove(svc - 1, st["keep"].as_bool().unwrap_or(false)),
                    _ => w.upgrade(svc - 1, !st["start"].as_bool().unwrap_or(false), None),
                }
            }),
            other => panic!("unknown op {other}"),
        };
        let (res, detail) = match &outcome {
            Ok(Ok(s)) => ("Ok", s.clone()),
            Ok(Err(e)) => ("Err", e.clone()),
            Err(p) => ("Panic", p.clone()),
        };
        let (reload_eq, reload_note) = w.save_reload();
        let (reg, os) = w.project();
        let (calls_after, consumed, names): (u64, Vec<u64>, Vec<String>) = {
            let s = w.os.st();
            (s.calls, s.consumed[consumed_before..].to_vec(), s.names[calls_before as usize..].to_vec())
        };
        let exp_ok = if st.get("exp").is_some() {
            json!(matches_expected(&st["exp"], &reg, &os) && st["res"].as_str().map(|r| r == res).unwrap_or(true)
                && st["ncalls"].as_u64().map(|n| n == calls_after - calls_before).unwrap_or(true))
        } else {
            json!("na")
        };
        let mut detail = detail;
        detail.truncate(160);
        t.emit(json!({
            "ev": "Op", "run": id, "i": i + 1, "op": op, "svc": svc,
            "cnt": st["cnt"].as_u64().unwrap_or(0), "port": st["port"].as_u64().unwrap_or(0),
            "kind": st["kind"].as_str().unwrap_or(""), "start": st["start"].as_bool().unwrap_or(false),
            "keep": st["keep"].as_bool().unwrap_or(false),
            "port2": st["port2"].as_u64().unwrap_or(0), "kind2": st["kind2"].as_str().unwrap_or(""),
            "refreshed": refreshed.get(),
            "req": req, "res": res, "detail": detail, "reload_eq": reload_eq, "reload_note": reload_note,
            "faults": st["faults"].as_array().cloned().unwrap_or_default(),
            "consumed": consumed, "first_call": calls_before + 1, "ncalls": calls_after - calls_before, "calls": names,
            "reg": reg, "os": os, "exp_ok": exp_ok, "src": src,
        }));
    }
    if !keep_dirs {
        let _ = std::fs::remove_dir_all(&root);
    }
}

fn random_scenario(r: &mut impl Rng, id: i64) -> Value {
    // [C19-2] a second port range that OVERLAPS the first across kinds within one batch is a scenario class of its own
    // (the unchanged tree accepted it and let two services record one port: fixed in /repo by 65feffc)
    let crosskind = true;
    let len = r.gen_range(3..=12);
    let mut steps = vec![];
    let mut nsvc = 0u64; // upper bound on registry length (adds may fail)
    let ports = [12001u64, 12002, 12003, 12004];
    let kinds = ["node", "rpc", "metrics"];
    for _ in 0..len {
        let pick = if nsvc == 0 { 0 } else { r.gen_range(0..13) };
        let svc = if nsvc == 0 { 0 } else { r.gen_range(1..=nsvc) };
        let st = match pick {
            0 | 1 => {
                let cnt: u64 = if r.gen_bool(0.3) { 2 } else { 1 };
                nsvc += cnt;
                let port = if r.gen_bool(0.6) { ports[r.gen_range(0..ports.len())] } else { 0 };
                let k1 = r.gen_range(0..3);
                let mut st = json!({"op": "Add", "svc": 0, "cnt": cnt, "port": port, "kind": kinds[k1]});
                if port != 0 && r.gen_bool(0.5) {
                    // another kind of port in the same add: the range right after the first one, or (crosskind) shifted by one
                    let off = if crosskind && cnt == 2 && r.gen_bool(0.5) { 1 } else { cnt };
                    st["port2"] = json!(port + off);
                    st["kind2"] = json!(kinds[(k1 + r.gen_range(1..3)) % 3]);
                }
                st
            }
            2 | 3 | 4 => json!({"op": "Start", "svc": svc}),
            5 | 6 => json!({"op": "Stop", "svc": svc}),
            7 => json!({"op": "Remove", "svc": svc, "keep": r.gen_bool(0.2)}),
            8 | 9 => json!({"op": "Upgrade", "svc": svc, "start": r.gen_bool(0.6)}),
            // [C19-1] the environment
            10 | 11 => json!({"op": "Kill", "svc": svc}),
            _ => json!({"op": "Respawn", "svc": svc}),
        };
        steps.push(st);
    }
    // 0..2 faults anywhere in the (estimated) global call sequence
    let nf = r.gen_range(0..=2);
    let mut faults: Vec<Value> = (0..nf).map(|_| json!(r.gen_range(1..=(len as u64 * 4)))).collect();
    faults.dedup();
    if let Some(first) = steps.first_mut() {
        first["faults"] = Value::Array(faults);
    }
    json!({"id": id, "steps": steps, "um": r.gen_bool(0.5), "arst": r.gen_bool(0.5), "dne": r.gen_bool(0.5)})
}

fn main_life() {
    let out = arg("--out").expect("--out");
    let work = PathBuf::from(arg("--work").expect("--work"));
    let keep = std::env::args().any(|a| a == "--keep-dirs");
    let n_rand: i64 = arg("--random").and_then(|s| s.parse().ok()).unwrap_or(0);
    std::fs::create_dir_all(&work).expect("mkdir work");
    let mut t = Trace::create(&out);
    let mut n_sc = 0;
    if let Some(p) = arg("--scenarios") {
        for sc in read_ndjson(&p) {
            run_scenario(&mut t, &work, &sc, "tlc", keep);
            n_sc += 1;
        }
    }
    let seed = vtrace::seed_from_env();
    let mut r = rng(seed);
    for k in 0..n_rand {
        let sc = random_scenario(&mut r, 1_000_000 + k);
        run_scenario(&mut t, &work, &sc, "random", keep);
    }
    let n = t.finish();
    println!("{}", json!({"events": n, "scenarios": n_sc, "random": n_rand, "seed": seed}));
}

// ------------------------------------------------------------------------------------------------
// C20: option combinations
// ------------------------------------------------------------------------------------------------
const REW: [&str; 2] = ["0x03B770D9cD32077cC0bF330c13C114a87643B124", "0x8464135c8F25Da09e49BC8782676a84730C318bC"];
const EVM_URL: &str = "http://localhost:8545";
const EVM_PTA: &str = "0x5FbDB2315678afecb367f032d93F642f64180aa3";
const EVM_DPA: &str = "0x8464135c8F25Da09e49BC8782676a84730C318bC";
const PEERS: [&str; 2] = [
    "/ip4/10.0.0.1/udp/12000/quic-v1/p2p/12D3KooWRBhwfeP2Y4TCx1SM6s9rUoHhR5STiGwxBhgFRcw3UERE",
    "/ip4/10.0.0.2/udp/12000/quic-v1/p2p/12D3KooWS2tpXGGTmg2AHFiDh57yPQnat49YHnyqoggzXZWpqkCR",
];
const URLS: [&str; 2] = ["http://contacts.example/a", "https://contacts.example/b.json"];

fn sv(v: &Value, k: &str) -> String {
    v[k].as_str().map(|s| s.to_string()).unwrap_or_else(|| v[k].to_string())
}
fn bv(v: &Value, k: &str) -> bool {
    v[k].as_bool().unwrap_or(false)
}

fn ctx_json(c: &ServiceInstallCtx) -> Value {
    json!({
        "label": c.label.to_string(),
        "program": c.program.to_string_lossy(),
        "args": c.args.iter().map(|a| a.to_string_lossy().to_string()).collect::<Vec<_>>(),
        "username": c.username.clone().unwrap_or_default(),
        "has_user": c.username.is_some(),
        "workdir": c.working_directory.as_ref().map(|p| p.to_string_lossy().to_string()).unwrap_or_default(),
        "has_env": c.environment.is_some(),
        "env": c.environment.clone().unwrap_or_default().iter().map(|(k, v)| json!([k, v])).collect::<Vec<_>>(),
        "autostart": c.autostart,
        "contents": c.contents.clone().unwrap_or_default(),
    })
}

/// Run the antnode binary (hook H7) on an argument list; returns exit code and the normalised dump.
fn run_node(antnode: &Path, ctx: &ServiceInstallCtx, home: &Path) -> Value {
    let mut cmd = std::process::Command::new(antnode);
    cmd.args(&ctx.args).env_clear().env("ANTNODE_VERIF_DUMP_OPT", "1").env("HOME", home).env("XDG_DATA_HOME", home.join("xdg"));
    if let Some(env) = &ctx.environment {
        for (k, v) in env {
            cmd.env(k, v);
        }
    }
    let out = match cmd.output() {
        Ok(o) => o,
        Err(e) => return json!({"exit": -2, "ok": false, "err": format!("spawn: {e}")}),
    };
    let stdout = String::from_utf8_lossy(&out.stdout).to_string();
    let mut stderr = String::from_utf8_lossy(&out.stderr).to_string();
    stderr.truncate(300);
    let code = out.status.code().unwrap_or(-1);
    let dump = stdout.lines().find_map(|l| l.strip_prefix("ANTNODE_VERIF_OPT ")).and_then(|j| serde_json::from_str::<Value>(j).ok());
    let Some(d) = dump else {
        return json!({"exit": code, "ok": false, "err": stderr});
    };
    let s = |v: &Value| -> String { if v.is_null() { String::new() } else { v.as_str().map(|x| x.to_string()).unwrap_or_else(|| v.to_string()) } };
    let strs = |v: &Value| -> Vec<String> { v.as_array().map(|a| a.iter().map(&s).collect()).unwrap_or_default() };
    json!({
        "exit": code, "ok": code == 0, "err": stderr,
        "dump": {
            "home": d["home_network"].as_bool().unwrap_or(false),
            "upnp": d["upnp"].as_bool().unwrap_or(false),
            "log_dest": s(&d["log_output_dest"]),
            "log_format": s(&d["log_format"]),
            "max_log": s(&d["max_log_files"]),
            "max_arch": s(&d["max_archived_log_files"]),
            "network_id": s(&d["network_id"]),
            "rewards": s(&d["rewards_address"]),
            "evm_kind": s(&d["evm_network"]["kind"]),
            "evm_url": s(&d["evm_network"]["rpc_url"]),
            "evm_pta": s(&d["evm_network"]["payment_token_address"]),
            "evm_dpa": s(&d["evm_network"]["data_payments_address"]),
            "root_dir": s(&d["root_dir"]),
            "port": s(&d["port"]),
            "ip": s(&d["ip"]),
            "sock": s(&d["node_socket_addr"]),
            "rpc": s(&d["rpc"]),
            "owner": s(&d["owner"]),
            "mport": s(&d["metrics"]["port"]),
            "menable": d["metrics"]["enable"].as_bool().unwrap_or(false),
            "first": d["peers"]["first"].as_bool().unwrap_or(false),
            "local": d["peers"]["local"].as_bool().unwrap_or(false),
            "addrs": strs(&d["peers"]["addrs"]),
            "urls": strs(&d["peers"]["network_contacts_url"]),
            "testnet": d["peers"]["disable_mainnet_contacts"].as_bool().unwrap_or(false),
            "icache": d["peers"]["ignore_cache"].as_bool().unwrap_or(false),
            "cdir": s(&d["peers"]["bootstrap_cache_dir"]),
        }
    })
}

fn run_case(t: &mut Trace, workroot: &Path, antnode: Option<&Path>, case: &Value, src: &str, keep_dirs: bool) {
    let id = case["id"].as_i64().unwrap_or(0);
    let o = &case["o"];
    let um = bv(o, "um");
    let root = workroot.join(format!("c{id}"));
    let mut w = World::new(root.clone(), um, bv(o, "arst"));
    let mut a = w.base_options();
    let mut conc = serde_json::Map::new();
    let mut put = |k: &str, v: String| {
        conc.insert(k.to_string(), Value::String(v));
    };
    a.count = None;
    a.evm_network = match sv(o, "evm").as_str() {
        "one" => EvmNetwork::ArbitrumOne,
        "sepolia" => EvmNetwork::ArbitrumSepolia,
        _ => EvmNetwork::new_custom(EVM_URL, EVM_PTA, EVM_DPA),
    };
    put("evm_kind", a.evm_network.to_string());
    if let EvmNetwork::Custom(c) = &a.evm_network {
        put("evm_url", c.rpc_url_http.to_string());
        put("evm_pta", c.payment_token_address.to_string());
        put("evm_dpa", c.data_payments_address.to_string());
    } else {
        put("evm_url", String::new());
        put("evm_pta", String::new());
        put("evm_dpa", String::new());
    }
    // [C20-6] `multi`: `antctl add --count 2` with port RANGES; the service under test is the SECOND of the batch
    let multi = bv(o, "multi");
    let started = bv(o, "started");
    let nat = sv(o, "nat");
    let idx: usize = if multi { 1 } else { 0 };
    let pr = |base: u16| if multi { PortRange::Range(base, base + 1) } else { PortRange::Single(base) };
    if multi {
        a.count = Some(2);
    }
    if sv(o, "nport") == "some" {
        a.node_port = Some(pr(12001));
    }
    put("nport", (12001 + idx as u16).to_string());
    if sv(o, "rport") == "some" {
        a.rpc_port = Some(pr(13001));
    }
    put("rport", (13001 + idx as u16).to_string());
    if sv(o, "raddr") == "some" {
        a.rpc_address = Some(Ipv4Addr::new(192, 168, 22, 4));
    }
    put("raddr", Ipv4Addr::new(192, 168, 22, 4).to_string());
    put("raddr_default", Ipv4Addr::new(127, 0, 0, 1).to_string());
    match sv(o, "mport").as_str() {
        "some" => a.metrics_port = Some(pr(14001)),
        "auto" => a.enable_metrics_server = true,
        _ => {}
    }
    put("mport", (14001 + idx as u16).to_string());
    if sv(o, "ip") == "some" {
        a.node_ip = Some(Ipv4Addr::new(10, 1, 2, 3));
    }
    put("ip", Ipv4Addr::new(10, 1, 2, 3).to_string());
    let npeers = o["peers"].as_u64().unwrap_or(0) as usize;
    let nurls = o["urls"].as_u64().unwrap_or(0) as usize;
    let addrs: Vec<libp2p::Multiaddr> = PEERS[..npeers].iter().map(|p| libp2p::Multiaddr::from_str(p).expect("multiaddr")).collect();
    let cache_dir = root.join("bootstrap_cache");
    a.peers_args = PeersArgs {
        first: bv(o, "first"),
        local: bv(o, "local"),
        addrs: addrs.clone(),
        network_contacts_url: URLS[..nurls].iter().map(|s| s.to_string()).collect(),
        disable_mainnet_contacts: bv(o, "testnet"),
        ignore_cache: bv(o, "icache"),
        bootstrap_cache_dir: if bv(o, "cdir") { Some(cache_dir.clone()) } else { None },
    };
    conc.insert("addrs".into(), json!(addrs.iter().map(|m| m.to_string()).collect::<Vec<_>>()));
    conc.insert("urls".into(), json!(URLS[..nurls].to_vec()));
    conc.insert("cdir".into(), json!(cache_dir.to_string_lossy()));
    let mut put = |k: &str, v: String| {
        conc.insert(k.to_string(), Value::String(v));
    };
    a.log_format = match sv(o, "lfmt").as_str() {
        "default" => Some(LogFormat::Default),
        "json" => Some(LogFormat::Json),
        _ => None,
    };
    if sv(o, "ldir") == "default" {
        // the platform default of a user-mode installation (XDG_DATA_HOME points into the work dir)
        a.service_log_dir_path = ant_node_manager::config::get_user_antnode_data_dir().expect("data dir");
    }
    put("log_base", a.service_log_dir_path.to_string_lossy().to_string());
    put("data_base", a.service_data_dir_path.to_string_lossy().to_string());
    if sv(o, "march") == "some" {
        a.max_archived_log_files = Some(5);
    }
    put("march", "5".into());
    if sv(o, "mlog") == "some" {
        a.max_log_files = Some(7);
    }
    put("mlog", "7".into());
    a.owner = match sv(o, "owner").as_str() {
        "lower" => Some("alice".to_string()),
        "mixed" => Some("AliceB".to_string()),
        _ => None,
    };
    put("owner", a.owner.clone().unwrap_or_default().to_lowercase());
    a.home_network = bv(o, "home");
    a.upnp = bv(o, "upnp");
    let env = vec![("ANT_LOG".to_string(), "all".to_string()), ("RUST_LOG".to_string(), "libp2p=debug".to_string())];
    if bv(o, "env") {
        a.env_variables = Some(env.clone());
    }
    conc.insert("env".into(), json!(env.iter().map(|(k, v)| json!([k, v])).collect::<Vec<_>>()));
    let uenv = vec![("ANT_LOG".to_string(), "v".to_string())];
    conc.insert("uenv".into(), json!(uenv.iter().map(|(k, v)| json!([k, v])).collect::<Vec<_>>()));
    let mut put = |k: &str, v: String| {
        conc.insert(k.to_string(), Value::String(v));
    };
    a.rewards_address = RewardsAddress::from_str(REW[(o["rew"].as_u64().unwrap_or(1) as usize - 1) % 2]).expect("rewards");
    put("rewards", a.rewards_address.to_string());
    if sv(o, "netid") == "some" {
        a.network_id = Some(7);
    }
    put("netid", "7".into());
    put("user", a.user.clone().unwrap_or_default());
    put("name", format!("antnode{}", idx + 1));
    // [C20-5] `antctl nat-detection` has recorded a NAT status and `antctl add --auto-set-nat-flags` is used ("This will
    // override any --upnp or --home-network options", bin/cli/main.rs); nat = off: neither.  The status is written the way
    // the nat-detection command does (registry field, save) and the add command reads the saved registry.
    if nat != "off" {
        w.reg.nat_status = Some(match nat.as_str() {
            "Public" => NatDetectionStatus::Public,
            "UPnP" => NatDetectionStatus::UPnP,
            _ => NatDetectionStatus::Private,
        });
        w.reg.save().expect("save registry");
        w.reload();
        a.auto_set_nat_flags = true;
    }

    let res_add = guarded(|| w.add(a));
    let (add_res, add_detail) = match &res_add {
        Ok(Ok(_)) => ("Ok", String::new()),
        Ok(Err(e)) => ("Err", e.clone()),
        Err(p) => ("Panic", p.clone()),
    };
    let install_rec = w.os.st().installs.get(idx).cloned();
    let install_ctx = install_rec.as_ref().map(|x| x.0.clone());
    // values the manager allocated itself: taken from its own record of the service
    if let Some(n) = w.reg.nodes.get(idx) {
        conc.insert("rec_rpc".into(), json!(n.rpc_socket_addr.to_string()));
        conc.insert("rec_rpc_port".into(), json!(n.rpc_socket_addr.port().to_string()));
        conc.insert("rec_mport".into(), json!(n.metrics_port.map(|p| p.to_string()).unwrap_or_default()));
        conc.insert("program".into(), json!(n.antnode_path.to_string_lossy()));
    }
    // a second service added between the installation and the upgrade of the first (none / without --env / with
    // another --env): the first service's regenerated definition must not depend on it
    let oenv = vec![("ANT_LOG".to_string(), "other".to_string())];
    conc.insert("oenv".into(), json!(oenv.iter().map(|(k, v)| json!([k, v])).collect::<Vec<_>>()));
    let second = sv(o, "second");
    if add_res == "Ok" && (second == "noenv" || second == "otherenv") {
        w.reload(); // another antctl command
        let mut b = w.base_options();
        if second == "otherenv" {
            b.env_variables = Some(oenv.clone());
        }
        let _ = guarded(|| w.add(b));
    }
    // [C20-7] `antctl start` of the service before its upgrade (own command: load, refresh, start, save).  A started
    // service records the port its node listens on; `listen` is that port as the simulated OS knows it.
    let mut start_res = ("NotRun", String::new());
    conc.insert("listen".into(), json!(""));
    if add_res == "Ok" && started && w.reg.nodes.len() > idx {
        w.reload();
        let r = guarded(|| {
            w.refresh()?;
            w.start(idx)
        });
        start_res = match &r {
            Ok(Ok(s)) => ("Ok", s.clone()),
            Ok(Err(e)) => ("Err", e.clone()),
            Err(p) => ("Panic", p.clone()),
        };
        let _ = w.reg.save();
        let program = w.reg.nodes[idx].antnode_path.clone();
        let listen = w.os.st().procs.iter().find(|p| p.program == program).map(|p| p.port.to_string()).unwrap_or_default();
        conc.insert("listen".into(), json!(listen));
    }
    let installs_before_upgrade = w.os.st().installs.len();
    let uninstalls_before_upgrade = w.os.st().uninstalls.len();
    let mut upg_res = ("NotRun", String::new());
    let mut upgrade_rec = None;
    // `antctl upgrade` without --do-not-start starts the service afterwards; both forms are used (odd / even case id)
    let do_not_start = id % 2 == 0;
    if add_res == "Ok" && w.reg.nodes.len() > idx {
        let provided = if bv(o, "uenv") { Some(uenv.clone()) } else { None };
        // [C20-2] the upgrade is another antctl process: it works on the registry as saved by the previous commands
        w.reload();
        let r = guarded(|| {
            w.refresh()?;
            w.upgrade(idx, do_not_start, provided)
        });
        upg_res = match &r {
            Ok(Ok(s)) if s.starts_with("Error:") => ("Err", s.clone()),
            Ok(Ok(s)) => ("Ok", s.clone()),
            Ok(Err(e)) => ("Err", e.clone()),
            Err(p) => ("Panic", p.clone()),
        };
        upgrade_rec = w.os.st().installs.get(installs_before_upgrade).cloned();
    }
    let upgrade_ctx = upgrade_rec.as_ref().map(|x| x.0.clone());
    let upg_uninstalls: Vec<Value> = w.os.st().uninstalls[uninstalls_before_upgrade..].iter().map(|(n, um, r)| json!({"name": n, "um": um, "res": r})).collect();
    let none = json!({"exit": -3, "ok": false, "err": "not run"});
    let (node_i, node_u) = match antnode {
        Some(bin) => (
            install_ctx.as_ref().map(|c| run_node(bin, c, &root)).unwrap_or(none.clone()),
            upgrade_ctx.as_ref().map(|c| run_node(bin, c, &root)).unwrap_or(none.clone()),
        ),
        None => (none.clone(), none.clone()),
    };
    t.emit(json!({
        "ev": "Case", "id": id, "o": o, "conc": Value::Object(conc),
        "add_res": add_res, "add_detail": add_detail, "upg_res": upg_res.0, "upg_detail": upg_res.1,
        "start_res": start_res.0, "start_detail": start_res.1, "do_not_start": do_not_start,
        "has_install": install_ctx.is_some(), "has_upgrade": upgrade_ctx.is_some(),
        // [C20-4] the user_mode argument the definitions were installed / uninstalled with
        "install_um": install_rec.as_ref().map(|x| x.1).unwrap_or(false), "upgrade_um": upgrade_rec.as_ref().map(|x| x.1).unwrap_or(false),
        "upg_uninstalls": upg_uninstalls,
        "install": install_ctx.as_ref().map(ctx_json).unwrap_or(json!({})),
        "upgrade": upgrade_ctx.as_ref().map(ctx_json).unwrap_or(json!({})),
        "node_i": node_i, "node_u": node_u, "node_checked": antnode.is_some(), "src": src,
    }));
    if !keep_dirs {
        let _ = std::fs::remove_dir_all(&root);
    }
}

fn main_args() {
    let out = arg("--out").expect("--out");
    let work = PathBuf::from(arg("--work").expect("--work"));
    let keep = std::env::args().any(|a| a == "--keep-dirs");
    let antnode = arg("--antnode").map(PathBuf::from);
    std::fs::create_dir_all(&work).expect("mkdir work");
    // the platform "user data directory" of this run lives inside the work directory
    std::env::set_var("XDG_DATA_HOME", work.join("xdg"));
    let mut t = Trace::create(&out);
    let mut n = 0;
    for c in read_ndjson(&arg("--cases").expect("--cases")) {
        run_case(&mut t, &work, antnode.as_deref(), &c, "tlc", keep);
        n += 1;
    }
    let ev = t.finish();
    println!("{}", json!({"events": ev, "cases": n}));
}

fn main() {
    quiet_panics();
    if std::env::var("USER").map(|u| u.is_empty()).unwrap_or(true) {
        std::env::set_var("USER", "root");
    }
    match std::env::args().nth(1).as_deref() {
        Some("life") => main_life(),
        Some("args") => main_args(),
        _ => {
            eprintln!("usage: drv_svc life|args ...");
            std::process::exit(2);
        }
    }
}
