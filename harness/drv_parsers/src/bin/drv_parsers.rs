//! C17 driver: calls every real parser of untrusted text / bytes listed in DESIGN.md "Area Parsers" on
//! (a) the class words TLC enumerated from MCParsers (8 concrete members per word), (b) boundary classes and
//! (c) seeded random strings / bytes, each call through `vtrace::guarded` (the harness is built with
//! overflow-checks, so wrapping arithmetic surfaces as a panic), and logs input, outcome and the result of
//! the round trip through the formatter where one exists.
//!
//!   drv_parsers --cases <ndjson> --out <trace.ndjson> --dir <scratch> --random <n> [--only-cases]
#![allow(dead_code)]
use ant_bootstrap::{craft_valid_multiaddr_from_str, BootstrapCacheConfig, BootstrapCacheStore, PeersArgs, ANT_PEERS_ENV};
use ant_evm::{AttoTokens, EvmNetwork, RewardsAddress};
use ant_logging::LogFormat;
use ant_node_manager::add_services::add_node;
use ant_node_manager::add_services::config::{AddNodeServiceOptions, PortRange};
use ant_node_manager::helpers::increment_port_option;
use ant_node_manager::VerbosityLevel;
use ant_service_management::auditor::AuditorServiceData;
use ant_service_management::control::ServiceControl;
use ant_service_management::error::Result as SvcResult;
use ant_service_management::{DaemonServiceData, FaucetServiceData, NatDetectionStatus};
use libp2p::multiaddr::Protocol;
use libp2p::Multiaddr;
use service_manager::ServiceInstallCtx;
use ant_protocol::storage::{
    try_deserialize_record, try_serialize_record, Chunk, RecordHeader, RecordKind, Scratchpad, ScratchpadAddress, Transaction,
};
use ant_registers::{Permissions, Register, RegisterAddress, SignedRegister};
use ant_service_management::{NodeRegistry, NodeServiceData, ServiceStatus};
use autonomi::client::address::{addr_to_str, str_to_addr};
use autonomi::client::data::DataMapChunk;
use bls::SecretKey;
use bytes::Bytes;
use libp2p::kad::{Record, RecordKey};
use libp2p::PeerId;
use rand::{rngs::StdRng, Rng, RngCore};
use serde_json::{json, Value};
use std::collections::BTreeSet;
use std::net::{IpAddr, Ipv4Addr, SocketAddr};
use std::path::{Path, PathBuf};
use std::str::FromStr;
use vtrace::{arg, guarded, quiet_panics, read_ndjson, rng, Trace};
use xor_name::XorName;

mod wallet {
    #[path = "/repo/ant-cli/src/wallet/error.rs"]
    pub mod error;
    #[path = "/repo/ant-cli/src/wallet/encryption.rs"]
    pub mod encryption;
    /// ant-cli's `wallet::load_wallet_private_key` (wallet/mod.rs) is referenced by access/keys.rs
    /// (get_vault_secret_key, not driven here); the real one prompts on the terminal.
    pub(crate) fn load_wallet_private_key() -> color_eyre::Result<String> {
        Err(color_eyre::eyre::eyre!("no wallet in the harness"))
    }
}
/// ant-cli is a binary crate: its access/keys.rs (register signing key from the environment / key file) is
/// included by path like wallet/encryption.rs; `crate::keys` and `crate::wallet` resolve as in ant-cli's main.rs.
mod access {
    #[path = "/repo/ant-cli/src/access/data_dir.rs"]
    pub mod data_dir;
    #[path = "/repo/ant-cli/src/access/keys.rs"]
    pub mod keys;
}
pub use access::keys;
use wallet::encryption::{decrypt_private_key, encrypt_private_key};

const CODES_CAP: usize = 40;

// ------------------------------------------------------------------ logging
struct Ctx {
    t: Trace,
    r: StdRng,
    dir: PathBuf,
    nfile: u64,
    pool: std::collections::HashMap<(String, u64), (Vec<u8>, RecordKind)>,
    /// node lists of non-empty registries against which accepted port ranges are checked
    avail_nodes: Vec<Vec<NodeServiceData>>,
}
fn outcome<T, E>(r: &Result<Result<T, E>, String>) -> &'static str {
    match r {
        Ok(Ok(_)) => "ok",
        Ok(Err(_)) => "err",
        Err(_) => "panic",
    }
}
fn msg_of<T, E>(r: &Result<Result<T, E>, String>) -> String {
    match r {
        Err(m) => m.chars().take(100).collect(),
        _ => String::new(),
    }
}
fn is_hex(s: &str) -> bool {
    s.chars().all(|c| c.is_ascii_hexdigit())
}
struct Call<'a> {
    parser: &'a str,
    word: &'a Value,
    m: u64,
    src: &'a str,
    fmt: bool,
    pw: &'a str,
}
impl Ctx {
    /// one Parse event for a text input
    fn log_text(&mut self, c: &Call, s: &str, out: &str, rt: &str, msg: &str, extra: Value) {
        let n = s.chars().count();
        let force_codes = c.parser == "port_parse";
        let codes: Vec<u32> = if n <= CODES_CAP || force_codes { s.chars().take(200).map(|ch| ch as u32).collect() } else { vec![] };
        let mut e = json!({"ev": "Parse", "parser": c.parser, "word": c.word, "m": c.m, "src": c.src, "fmt": c.fmt, "pw": c.pw,
            "len": n, "hex": is_hex(s), "codes": codes, "out": out, "rt": rt, "msg": msg,
            "text": s.chars().take(64).collect::<String>()});
        for (k, v) in extra.as_object().expect("obj") {
            e[k] = v.clone();
        }
        self.t.emit(e);
    }
    /// one Parse event for a byte input
    fn log_bytes(&mut self, c: &Call, b: &[u8], out: &str, rt: &str, msg: &str) {
        let codes: Vec<u32> = if b.len() <= CODES_CAP { b.iter().map(|x| *x as u32).collect() } else { vec![] };
        self.t.emit(json!({"ev": "Parse", "parser": c.parser, "word": c.word, "m": c.m, "src": c.src, "fmt": c.fmt, "pw": c.pw,
            "len": b.len(), "hex": false, "codes": codes, "out": out, "rt": rt, "msg": msg,
            "utf8": std::str::from_utf8(b).is_ok(), "head": hex::encode(&b[..b.len().min(24)])}));
    }
    fn scratch_file(&mut self, bytes: &[u8]) -> PathBuf {
        self.nfile += 1;
        let d = self.dir.join(format!("f{}", self.nfile % 64));
        std::fs::create_dir_all(&d).expect("dir");
        let p = d.join("input.json");
        std::fs::write(&p, bytes).expect("write input");
        p
    }
}

// ------------------------------------------------------------------ segment concretisation (text)
fn pick<'a>(r: &mut StdRng, xs: &[&'a str]) -> &'a str {
    xs[r.gen_range(0..xs.len())]
}
fn rand_hex(r: &mut StdRng, n: usize) -> String {
    (0..n).map(|_| char::from_digit(r.gen_range(0..16), 16).expect("digit")).collect()
}
fn cut(s: &str, n: usize) -> String {
    let c: Vec<char> = s.chars().collect();
    c[..c.len().saturating_sub(n)].iter().collect()
}
fn hex_segment(r: &mut StdRng, seg: &str, full: &str) -> String {
    match seg {
        "FULL" => full.to_string(),
        "CUT1" => cut(full, 1),
        "CUT2" => cut(full, 2),
        "HALF" => full.chars().take(64).collect(),
        "H" => pick(r, &["0", "1", "7", "9", "a", "c", "f"]).to_string(),
        "HU" => pick(r, &["A", "B", "C", "D", "E", "F"]).to_string(),
        "G" => pick(r, &["g", "z", "G", "Z", "_", "-", "x", ":", "/"]).to_string(),
        "U8" => pick(r, &["é", "ß", "→", "😀", "١", "\u{0}"]).to_string(),
        "SP" => pick(r, &[" ", "\t", "\n", "\r"]).to_string(),
        "OX" => "0x".to_string(),
        "SALT" => rand_hex(r, 16),
        "NONCE" => rand_hex(r, 24),
        "TAG" => rand_hex(r, 32),
        "FLIP" => {
            let mut c: Vec<char> = full.chars().collect();
            if !c.is_empty() {
                let i = r.gen_range(0..c.len());
                let old = c[i].to_digit(16).unwrap_or(0);
                c[i] = char::from_digit((old + 1 + r.gen_range(0..15)) % 16, 16).expect("digit");
            }
            c.into_iter().collect()
        }
        other => panic!("unknown hex segment {other}"),
    }
}
fn word_of(v: &Value) -> Vec<String> {
    v.as_array().expect("word").iter().map(|x| x.as_str().expect("segment").to_string()).collect()
}

// ------------------------------------------------------------------ hex parsers
fn do_reg(cx: &mut Ctx, c: &Call, s: &str, orig: Option<RegisterAddress>) {
    let r = guarded(|| RegisterAddress::from_hex(s));
    let rt = match (&r, orig) {
        (Ok(Ok(a)), Some(o)) => if *a == o { "same" } else { "diff" },
        (Ok(Ok(a)), None) => match guarded(|| RegisterAddress::from_hex(&a.to_hex())) { Ok(Ok(b)) => if b == *a { "same" } else { "diff" }, Ok(Err(_)) => "err", Err(_) => "panic" },
        (Ok(Err(_)), Some(_)) => "err",
        _ => "na",
    };
    cx.log_text(c, s, outcome(&r), rt, &msg_of(&r), json!({}));
}
fn do_pad(cx: &mut Ctx, c: &Call, s: &str, orig: Option<ScratchpadAddress>) {
    let r = guarded(|| ScratchpadAddress::from_hex(s));
    let rt = match (&r, orig) {
        (Ok(Ok(a)), Some(o)) => if *a == o { "same" } else { "diff" },
        (Ok(Ok(a)), None) => match guarded(|| ScratchpadAddress::from_hex(&a.to_hex())) { Ok(Ok(b)) => if b == *a { "same" } else { "diff" }, Ok(Err(_)) => "err", Err(_) => "panic" },
        (Ok(Err(_)), Some(_)) => "err",
        _ => "na",
    };
    cx.log_text(c, s, outcome(&r), rt, &msg_of(&r), json!({}));
}
fn do_addr(cx: &mut Ctx, c: &Call, s: &str, orig: Option<XorName>) {
    let r = guarded(|| str_to_addr(s));
    let rt = match (&r, orig) {
        (Ok(Ok(a)), Some(o)) => if *a == o { "same" } else { "diff" },
        (Ok(Ok(a)), None) => match guarded(|| str_to_addr(&addr_to_str(*a))) { Ok(Ok(b)) => if b == *a { "same" } else { "diff" }, Ok(Err(_)) => "err", Err(_) => "panic" },
        (Ok(Err(_)), Some(_)) => "err",
        _ => "na",
    };
    cx.log_text(c, s, outcome(&r), rt, &msg_of(&r), json!({}));
}
fn do_dmc(cx: &mut Ctx, c: &Call, s: &str, orig: Option<&DataMapChunk>) {
    let r = guarded(|| DataMapChunk::from_hex(s));
    let rt = match (&r, orig) {
        (Ok(Ok(a)), Some(o)) => if a == o { "same" } else { "diff" },
        (Ok(Ok(a)), None) => match guarded(|| DataMapChunk::from_hex(&a.to_hex())) { Ok(Ok(b)) => if b == *a { "same" } else { "diff" }, Ok(Err(_)) => "err", Err(_) => "panic" },
        (Ok(Err(_)), Some(_)) => "err",
        _ => "na",
    };
    cx.log_text(c, s, outcome(&r), rt, &msg_of(&r), json!({}));
}
fn do_decrypt(cx: &mut Ctx, c: &Call, s: &str, password: &str, orig: Option<&str>) {
    let r = guarded(|| decrypt_private_key(s, password));
    let rt = match (&r, orig) {
        (Ok(Ok(k)), Some(o)) if c.pw == "right" => if k == o { "same" } else { "diff" },
        (Ok(Err(_)), Some(_)) if c.pw == "right" => "err",
        _ => "na",
    };
    cx.log_text(c, s, outcome(&r), rt, &msg_of(&r), json!({}));
}

fn hex_case(cx: &mut Ctx, parser: &str, wordv: &Value, pw: &str, m: u64, src: &str) {
    let word = word_of(wordv);
    let fmt = word.len() == 1 && word[0] == "FULL";
    let c = Call { parser, word: wordv, m, src, fmt, pw };
    match parser {
        "reg_from_hex" => {
            let v = RegisterAddress::new(XorName::random(&mut cx.r), SecretKey::random().public_key());
            let full = v.to_hex();
            let s: String = word.iter().map(|g| hex_segment(&mut cx.r, g, &full)).collect();
            do_reg(cx, &c, &s, fmt.then_some(v));
        }
        "pad_from_hex" => {
            let v = ScratchpadAddress::new(SecretKey::random().public_key());
            let full = v.to_hex();
            let s: String = word.iter().map(|g| hex_segment(&mut cx.r, g, &full)).collect();
            do_pad(cx, &c, &s, fmt.then_some(v));
        }
        "str_to_addr" => {
            let v = XorName::random(&mut cx.r);
            let full = addr_to_str(v);
            let s: String = word.iter().map(|g| hex_segment(&mut cx.r, g, &full)).collect();
            do_addr(cx, &c, &s, fmt.then_some(v));
        }
        "dmc_from_hex" => {
            let sizes = [1usize, 2, 16, 31, 32, 33, 100, 1000];
            let mut b = vec![0u8; sizes[(m % 8) as usize]];
            cx.r.fill_bytes(&mut b);
            let v = DataMapChunk::from(Chunk::new(Bytes::from(b)));
            let full = v.to_hex();
            let s: String = word.iter().map(|g| hex_segment(&mut cx.r, g, &full)).collect();
            do_dmc(cx, &c, &s, fmt.then_some(&v));
        }
        "decrypt" => {
            let key = rand_hex(&mut cx.r, 64);
            let password = format!("pass-{}-{m}", cx.r.gen_range(0..1000));
            // building the input needs no key derivation unless a FULL-derived segment occurs
            let needs_full = word.iter().any(|g| matches!(g.as_str(), "FULL" | "CUT1" | "CUT2" | "FLIP"));
            let full = if needs_full { encrypt_private_key(&key, &password).expect("encrypt") } else { String::new() };
            let s: String = word.iter().map(|g| hex_segment(&mut cx.r, g, &full)).collect();
            let used = match pw { "right" => password.clone(), "wrong" => format!("{password}x"), _ => String::new() };
            do_decrypt(cx, &c, &s, &used, fmt.then_some(&key));
        }
        other => panic!("unknown hex parser {other}"),
    }
}

// ------------------------------------------------------------------ ports
fn port_events(cx: &mut Ctx, c: &Call, s: &str) {
    let r = guarded(|| PortRange::parse(s));
    let res = match &r {
        Ok(Ok(PortRange::Single(p))) => json!({"k": "ok", "single": true, "lo": p, "hi": p}),
        Ok(Ok(PortRange::Range(a, b))) => json!({"k": "ok", "single": false, "lo": a, "hi": b}),
        Ok(Err(_)) => json!({"k": "err"}),
        Err(_) => json!({"k": "panic"}),
    };
    cx.log_text(c, s, outcome(&r), "na", &msg_of(&r), json!({"res": res}));
    if let Ok(Ok(range)) = r {
        let (single, lo, hi) = match range { PortRange::Single(p) => (true, p, p), PortRange::Range(a, b) => (false, a, b) };
        let span = (hi as u32).saturating_sub(lo as u32);
        let mut counts: Vec<u32> = vec![0, 1, 2, span, span + 1, span + 2, 65535];
        counts.retain(|x| *x <= 65535);
        counts.sort();
        counts.dedup();
        for count in counts {
            let v = guarded(|| range.validate(count as u16));
            cx.t.emit(json!({"ev": "Validate", "src": c.src, "single": single, "lo": lo, "hi": hi, "count": count, "out": outcome(&v), "msg": msg_of(&v)}));
        }
        for p in [lo, hi] {
            inc_event(cx, Some(p), c.src);
        }
        // what `antctl add` does next with an accepted range: every port of it is compared with the recorded ones
        if (hi as u32) - (lo as u32).min(hi as u32) < 70_000 {
            avail_event(cx, &range, &[], c.src);
            // ... and with the ports a non-empty registry records (0, 65535 and 8081 among them)
            let nodes = cx.avail_nodes.clone();
            for k in 0..nodes.len() {
                avail_event(cx, &range, &nodes[k], c.src);
            }
        }
    }
}
fn avail_event(cx: &mut Ctx, range: &PortRange, nodes: &[NodeServiceData], src: &str) {
    let (single, lo, hi) = match range { PortRange::Single(p) => (true, *p, *p), PortRange::Range(a, b) => (false, *a, *b) };
    let recorded: Vec<u16> = nodes.iter().flat_map(|n| [n.metrics_port, n.node_port, Some(n.rpc_socket_addr.port())]).flatten().collect();
    let used = recorded.iter().any(|p| lo <= *p && *p <= hi);
    let a = guarded(|| ant_node_manager::helpers::check_port_availability(range, nodes));
    let out = match &a { Ok(Ok(())) => "ok", Ok(Err(_)) => "err", Err(_) => "panic" };
    cx.t.emit(json!({"ev": "Avail", "src": src, "single": single, "lo": lo, "hi": hi, "nodes": nodes.len(), "recorded": recorded, "used": used,
        "out": out, "msg": msg_of(&a)}));
}

// ------------------------------------------------------------------ add_node on a loaded registry (u16 numbering)
struct NoOs;
impl ServiceControl for NoOs {
    fn create_service_user(&self, _username: &str) -> SvcResult<()> { Ok(()) }
    fn get_available_port(&self) -> SvcResult<u16> { Ok(40000) }
    fn install(&self, _install_ctx: ServiceInstallCtx, _user_mode: bool) -> SvcResult<()> { Ok(()) }
    fn get_process_pid(&self, _path: &Path) -> SvcResult<u32> { Ok(1) }
    fn start(&self, _service_name: &str, _user_mode: bool) -> SvcResult<()> { Ok(()) }
    fn stop(&self, _service_name: &str, _user_mode: bool) -> SvcResult<()> { Ok(()) }
    fn uninstall(&self, _service_name: &str, _user_mode: bool) -> SvcResult<()> { Ok(()) }
    fn wait(&self, _delay: u64) {}
}
/// A registry file holding one service with the given number is loaded, then `antctl add` (add_node) is run on
/// it with the given count and node port range: an answer (names or an error), never an overflow.
fn add_node_event(cx: &mut Ctx, number: u16, count: Option<u16>, ports: Option<&str>, src: &str) {
    let root = cx.dir.join("addnode");
    let _ = std::fs::remove_dir_all(&root);
    std::fs::create_dir_all(&root).expect("dir");
    std::env::set_var("XDG_DATA_HOME", root.join("xdg"));
    std::env::set_var("HOME", root.join("home"));
    let src_bin = root.join("antnode");
    std::fs::write(&src_bin, b"#!/bin/sh\n").expect("bin");
    let mut reg = sample_registry(&mut cx.r, &root.join("node_registry.json"), 0);
    reg.nodes[0].number = number;
    reg.nodes[0].service_name = format!("antnode{number}");
    reg.save().expect("save registry");
    let loaded = guarded(|| NodeRegistry::load(&root.join("node_registry.json")));
    let Ok(Ok(mut reg)) = loaded else {
        cx.t.emit(json!({"ev": "AddNode", "src": src, "number": number, "count": count.unwrap_or(0), "ports": ports.unwrap_or(""), "out": "err", "stage": "load", "msg": ""}));
        return;
    };
    let node_port = ports.map(|p| PortRange::parse(p).expect("port range of the scenario"));
    let options = AddNodeServiceOptions {
        antnode_dir_path: root.join("data"), antnode_src_path: src_bin, auto_restart: false, auto_set_nat_flags: false, count,
        delete_antnode_src: false, enable_metrics_server: false, env_variables: None, evm_network: EvmNetwork::ArbitrumOne, home_network: false,
        log_format: None, max_archived_log_files: None, max_log_files: None, metrics_port: None, network_id: None, node_ip: None, node_port,
        owner: None, peers_args: PeersArgs::default(), rewards_address: RewardsAddress::from_str("0x03B770D9cD32077cC0bF330c13C114a87643B124").expect("addr"),
        rpc_address: None, rpc_port: None, service_data_dir_path: root.join("data"), service_log_dir_path: root.join("log"), upnp: false,
        user: None, user_mode: true, version: "0.1.0".to_string(),
    };
    let rt = tokio::runtime::Builder::new_current_thread().enable_all().build().expect("runtime");
    let r = guarded(|| rt.block_on(async { add_node(options, &mut reg, &NoOs, VerbosityLevel::Minimal).await }));
    let added = match &r { Ok(Ok(names)) => names.len(), _ => 0 };
    // the numbers handed out are distinct
    let mut numbers: Vec<u16> = reg.nodes.iter().map(|n| n.number).collect();
    numbers.sort();
    let distinct = numbers.windows(2).all(|w| w[0] != w[1]);
    cx.t.emit(json!({"ev": "AddNode", "src": src, "number": number, "count": count.unwrap_or(0), "ports": ports.unwrap_or(""), "out": outcome(&r), "stage": "add", "added": added,
        "distinct": distinct, "msg": msg_of(&r)}));
    let _ = std::fs::remove_dir_all(&root);
}

// ------------------------------------------------------------------ register signing key (ant-cli access/keys.rs)
/// REGISTER_SIGNING_KEY read and parsed by get_register_signing_key (the variable is set in this process only)
fn do_signing_key(cx: &mut Ctx, c: &Call, s: &str, orig: Option<&SecretKey>) {
    if s.contains('\0') {
        return; // not a possible value of an environment variable
    }
    std::env::set_var("REGISTER_SIGNING_KEY", s);
    let r = guarded(|| keys::get_register_signing_key().map_err(|e| format!("{e}")));
    std::env::remove_var("REGISTER_SIGNING_KEY");
    let rt = match (&r, orig) {
        (Ok(Ok(k)), Some(o)) => if k == o { "same" } else { "diff" },
        (Ok(Ok(k)), None) => match guarded(|| SecretKey::from_hex(&k.to_hex())) { Ok(Ok(k2)) => if k2 == *k { "same" } else { "diff" }, Ok(Err(_)) => "err", Err(_) => "panic" },
        (Ok(Err(_)), Some(_)) => "err",
        _ => "na",
    };
    cx.log_text(c, s, outcome(&r), rt, &msg_of(&r), json!({}));
}

fn inc_event(cx: &mut Ctx, p: Option<u16>, src: &str) {
    let r = guarded(|| increment_port_option(p));
    let (out, outhas, outp) = match &r { Ok(Some(q)) => ("ok", true, *q), Ok(None) => ("ok", false, 0), Err(_) => ("panic", false, 0) };
    let msg = match &r { Err(m) => m.clone(), _ => String::new() };
    cx.t.emit(json!({"ev": "Inc", "src": src, "has": p.is_some(), "p": p.unwrap_or(0), "out": out, "outhas": outhas, "outp": outp, "msg": msg}));
}

// ------------------------------------------------------------------ amounts, multiaddresses
fn atto_segment(r: &mut StdRng, seg: &str) -> String {
    match seg {
        "0" | "1" | "9" => seg.to_string(),
        "dot" => ".".into(),
        "us" => "_".into(),
        "plus" => "+".into(),
        "x" => pick(r, &["x", "b", "o", "X"]).into(),
        "sp" => pick(r, &[" ", "\t"]).into(),
        "e" => pick(r, &["e", "E"]).into(),
        "minus" => "-".into(),
        "u8" => pick(r, &["١", "é", "😀", "\u{0}"]).into(),
        "max" => "115792089237316195423570985008687907853269984665640564039457".into(),
        "frac18" => (0..18).map(|_| char::from_digit(r.gen_range(0..10), 10).expect("d")).collect(),
        "frac19" => (0..19).map(|_| char::from_digit(r.gen_range(1..10), 10).expect("d")).collect(),
        other => panic!("unknown amount segment {other}"),
    }
}
fn do_atto(cx: &mut Ctx, c: &Call, s: &str) {
    let r = guarded(|| AttoTokens::from_str(s));
    let rt = match &r {
        Ok(Ok(a)) => match guarded(|| AttoTokens::from_str(&format!("{a}"))) { Ok(Ok(b)) => if b == *a { "same" } else { "diff" }, Ok(Err(_)) => "err", Err(_) => "panic" },
        _ => "na",
    };
    cx.log_text(c, s, outcome(&r), rt, &msg_of(&r), json!({}));
}
fn valid_peer(r: &mut StdRng) -> String {
    let mut b = vec![0x12u8, 0x20];
    let mut d = [0u8; 32];
    r.fill_bytes(&mut d);
    b.extend_from_slice(&d);
    PeerId::from_bytes(&b).expect("peer id").to_string()
}
/// an ed25519 peer id (identity multihash of the protobuf-encoded public key): prints as 12D3KooW...
fn ed_peer(r: &mut StdRng) -> String {
    let mut b = vec![0x00u8, 0x24, 0x08, 0x01, 0x12, 0x20];
    let mut d = [0u8; 32];
    r.fill_bytes(&mut d);
    b.extend_from_slice(&d);
    let s = PeerId::from_bytes(&b).expect("ed25519 peer id").to_string();
    assert!(s.starts_with("12D3KooW"), "identity peer id {s}");
    s
}
fn ip4_udp(r: &mut StdRng) -> String {
    format!("/ip4/10.{}.{}.{}/udp/{}", r.gen_range(0..256), r.gen_range(0..256), r.gen_range(0..256), pick(r, &["0", "1", "1024", "65535"]))
}
fn maddr_segment(r: &mut StdRng, seg: &str) -> String {
    match seg {
        // complete addresses
        "fullquic" => format!("{}/quic-v1/p2p/{}", ip4_udp(r), valid_peer(r)),
        "fullws" => format!("/ip4/10.{}.{}.{}/tcp/{}/ws/p2p/{}", r.gen_range(0..256), r.gen_range(0..256), r.gen_range(0..256), pick(r, &["0", "80", "65535"]), valid_peer(r)),
        "fulled" => format!("{}/quic-v1/p2p/{}", ip4_udp(r), ed_peer(r)),
        "relay" => {
            let (a, b) = if r.gen_bool(0.5) { (valid_peer(r), ed_peer(r)) } else { (ed_peer(r), valid_peer(r)) };
            format!("{}/quic-v1/p2p/{a}/p2p-circuit/p2p/{b}", ip4_udp(r))
        }
        "bare" => format!("{}/quic-v1", ip4_udp(r)),
        "p2ped" => format!("/p2p/{}", ed_peer(r)),
        "ip4" => format!("/ip4/10.{}.{}.{}", r.gen_range(0..256), r.gen_range(0..256), r.gen_range(0..256)),
        "ip6" => "/ip6/::1".into(),
        "dns" => "/dns/example.com".into(),
        "udp" => format!("/udp/{}", r.gen_range(0..=65535)),
        "tcp" => format!("/tcp/{}", pick(r, &["0", "1", "80", "65535"])),
        "tcpbig" => format!("/tcp/{}", pick(r, &["65536", "99999999999", "-1", ""])),
        "quic" => "/quic-v1".into(),
        "ws" => "/ws".into(),
        "p2p" => format!("/p2p/{}", valid_peer(r)),
        "p2pbad" => format!("/p2p/{}", pick(r, &["notanid", "", "Qm", "12D3KooW", "1"])),
        "circuit" => "/p2p-circuit".into(),
        "slash" => "/".into(),
        "junk" => pick(r, &["garbage", "//", "/ip4", "/ip4/999.1.1.1", "/unknownproto/1", " "]).into(),
        "u8" => pick(r, &["/ü", "é", "/ip4/١.٢.٣.٤", "\u{0}"]).into(),
        other => panic!("unknown multiaddr segment {other}"),
    }
}
/// What libp2p (trusted) says about the input and the crafted address: peer ids of the /p2p components as small
/// integers in order of first appearance in the input (0 = not in the input), relay shape, canonical shape.
fn craft_obs(s: &str, ignore: bool, out: Option<&Multiaddr>) -> Value {
    let Ok(input) = s.parse::<Multiaddr>() else {
        let outp: Vec<u32> = out.map(|m| m.iter().filter(|p| matches!(p, Protocol::P2p(_))).map(|_| 0).collect()).unwrap_or_default();
        return json!({"inp": [], "relay": false, "canon": false, "ident": false, "outp": outp});
    };
    let protos: Vec<Protocol> = input.iter().collect();
    let mut ids: Vec<PeerId> = vec![];
    let mut inp: Vec<u32> = vec![];
    for p in &protos {
        if let Protocol::P2p(id) = p {
            if !ids.contains(id) {
                ids.push(*id);
            }
            inp.push(ids.iter().position(|x| x == id).expect("id") as u32 + 1);
        }
    }
    let shape: String = protos.iter().map(|p| match p {
        Protocol::Ip4(_) => '4', Protocol::Udp(_) => 'u', Protocol::Tcp(_) => 't', Protocol::QuicV1 => 'q', Protocol::Ws(_) => 'w',
        Protocol::P2p(_) => 'p', Protocol::P2pCircuit => 'c', _ => '?',
    }).collect();
    let transport = ["4u", "4uq", "4t", "4tw"];
    let canon = transport.iter().any(|t| shape == format!("{t}p") || (ignore && shape == *t));
    let relay = transport.iter().any(|t| shape == format!("{t}pcp"));
    let outp: Vec<u32> = out.map(|m| m.iter().filter_map(|p| match p {
        Protocol::P2p(id) => Some(ids.iter().position(|x| *x == id).map(|i| i as u32 + 1).unwrap_or(0)),
        _ => None,
    }).collect()).unwrap_or_default();
    json!({"inp": inp, "relay": relay, "canon": canon, "ident": out == Some(&input), "outp": outp})
}
fn do_craft(cx: &mut Ctx, c: &Call, s: &str, ignore_peer_id: bool) {
    let r = guarded(|| craft_valid_multiaddr_from_str(s, ignore_peer_id).ok_or(()));
    let rt = match &r {
        Ok(Ok(m)) => match guarded(|| craft_valid_multiaddr_from_str(&m.to_string(), ignore_peer_id)) {
            Ok(Some(m2)) => if m2 == *m { "same" } else { "diff" },
            Ok(None) => "err",
            Err(_) => "panic",
        },
        _ => "na",
    };
    let mut extra = craft_obs(s, ignore_peer_id, match &r { Ok(Ok(m)) => Some(m), _ => None });
    extra["ignore"] = json!(ignore_peer_id);
    cx.log_text(c, s, outcome(&r), rt, &msg_of(&r), extra);
}
/// ANT_PEERS (a comma separated list) read by PeersArgs::read_bootstrap_addr_from_env. The variable is set in
/// this (single-threaded) process only and removed again.
fn env_peers_event(cx: &mut Ctx, list: &std::ffi::OsStr, src: &str) {
    std::env::set_var(ANT_PEERS_ENV, list);
    let r = guarded(PeersArgs::read_bootstrap_addr_from_env);
    std::env::remove_var(ANT_PEERS_ENV);
    let text = list.to_string_lossy().to_string();
    // the items that are addresses on their own (none when the value is not UTF-8: there is no list then)
    let nok = match list.to_str() {
        Some(t) => t.split(',').filter(|i| matches!(guarded(|| craft_valid_multiaddr_from_str(i, false)), Ok(Some(_)))).count(),
        None => 0,
    };
    let (out, nout, msg) = match &r { Ok(v) => ("ok", v.len(), String::new()), Err(m) => ("panic", 0, m.chars().take(100).collect()) };
    // every returned address is one an item gives, in order
    let same = match (&r, list.to_str()) {
        (Ok(v), Some(t)) => {
            let want: Vec<Multiaddr> = t.split(',').filter_map(|i| craft_valid_multiaddr_from_str(i, false)).collect();
            want == v.iter().map(|a| a.addr.clone()).collect::<Vec<_>>()
        }
        (Ok(v), None) => v.is_empty(),
        _ => false,
    };
    cx.t.emit(json!({"ev": "EnvPeers", "src": src, "out": out, "nitems": text.split(',').count(), "nok": nok, "same": same,
        "nout": nout, "len": text.chars().count(), "text": text.chars().take(64).collect::<String>(), "msg": msg}));
}

// ------------------------------------------------------------------ files
fn cache_full(cx: &mut Ctx, n_peers: u64) -> Vec<u8> {
    let d = cx.dir.join("mk");
    let _ = std::fs::remove_dir_all(&d);
    let file = d.join("cache.json");
    let cfg = BootstrapCacheConfig::empty().with_cache_path(&file);
    let mut st = BootstrapCacheStore::new(cfg).expect("store");
    for k in 0..n_peers {
        let id = valid_peer(&mut cx.r);
        st.add_addr(format!("/ip4/10.0.{}.{}/udp/{}/quic-v1/p2p/{id}", k / 200, k % 200, 1000 + k).parse().expect("addr"));
        if k % 2 == 0 {
            st.add_addr(format!("/ip4/10.0.{}.{}/tcp/{}/p2p/{id}", k / 200, k % 200, 2000 + k).parse().expect("addr"));
        }
    }
    st.sync_and_flush_to_disk(true).expect("flush");
    std::fs::read(&file).expect("read cache")
}
fn file_segment(r: &mut StdRng, seg: &str, full: &[u8]) -> Vec<u8> {
    let text = String::from_utf8_lossy(full).to_string();
    match seg {
        "FULL" => full.to_vec(),
        "CUTA" => full[..r.gen_range(1..full.len().max(2))].to_vec(),
        "CUTB" => full[..full.len().saturating_sub(r.gen_range(1..4))].to_vec(),
        "lb" => b"{".to_vec(),
        "rb" => b"}".to_vec(),
        "lq" => b"[".to_vec(),
        "null" => b"null".to_vec(),
        "ff" => vec![0xff],
        "u8" => "é".as_bytes().to_vec(),
        "num" => pick(r, &["0", "-1", "123", "1e999", "18446744073709551616"]).as_bytes().to_vec(),
        "wsp" => pick(r, &[" ", "\n", "\t \r\n"]).as_bytes().to_vec(),
        "bom" => vec![0xef, 0xbb, 0xbf],
        "huge" => {
            let a = text.replacen("\"success_count\": 1", "\"success_count\": 4294967295", 2);
            a.replacen("\"failure_count\": 0", "\"failure_count\": 4294967295", 2).into_bytes()
        }
        "tmax" | "tnear" | "tday" | "tu64" => {
            let v = match seg { "tmax" => "9223372036854775807", "tnear" => "9223372036854775806", "tday" => "9223372036854689408", _ => "18446744073709551615" };
            // replace the number after every "secs_since_epoch":
            let pat = "\"secs_since_epoch\": ";
            let mut out = String::new();
            let mut rest = text.as_str();
            while let Some(i) = rest.find(pat) {
                out.push_str(&rest[..i + pat.len()]);
                out.push_str(v);
                let tail = &rest[i + pat.len()..];
                let n = tail.find(|c: char| !c.is_ascii_digit()).unwrap_or(tail.len());
                rest = &tail[n..];
            }
            out.push_str(rest);
            out.into_bytes()
        }
        "wrongtype" => {
            let opts = [
                text.replacen("\"success_count\": 1", "\"success_count\": \"1\"", 1),
                text.replacen("\"peers\": {", "\"peers\": [{", 1),
                text.replacen("\"nodes\":[", "\"nodes\":{", 1),
                text.replacen("\"number\":", "\"number\":-", 1),
                text.replacen("\"number\":", "\"number\":65536", 1),
                text.replacen("\"secs_since_epoch\": ", "\"secs_since_epoch\": -", 1),
                text.replacen("\"nanos_since_epoch\": ", "\"nanos_since_epoch\": 4294967295", 1),
                text.replacen("\"secs_since_epoch\": ", "\"secs_since_epoch\": 1844674407370955161", 1),
            ];
            opts[r.gen_range(0..opts.len())].clone().into_bytes()
        }
        other => panic!("unknown file segment {other}"),
    }
}
fn cache_keys(d: &std::collections::HashMap<PeerId, ant_bootstrap::BootstrapAddresses>) -> BTreeSet<String> {
    d.values().flat_map(|a| a.0.iter().map(|b| b.addr.to_string())).collect()
}
fn do_cache_load(cx: &mut Ctx, c: &Call, bytes: &[u8], max_addrs: usize) {
    do_cache_load_cfg(cx, c, bytes, max_addrs, None)
}
/// max_peers: Some(n) makes the third stage of the clean-up (removal of the oldest peers) run on small files
fn do_cache_load_cfg(cx: &mut Ctx, c: &Call, bytes: &[u8], max_addrs: usize, max_peers: Option<usize>) {
    let p = cx.scratch_file(bytes);
    let with_peers = |cfg: BootstrapCacheConfig| match max_peers { Some(n) => cfg.with_max_peers(n), None => cfg };
    let cfg = with_peers(BootstrapCacheConfig::empty().with_cache_path(&p).with_addrs_per_peer(max_addrs));
    let r = guarded(|| BootstrapCacheStore::load_cache_data(&cfg));
    let rt = match &r {
        // save what was loaded and load it again: same peers and addresses
        Ok(Ok(d)) if max_addrs >= 6 => {
            let want = cache_keys(&d.peers);
            let p2 = cx.dir.join("rt").join("cache.json");
            let _ = std::fs::create_dir_all(p2.parent().expect("parent"));
            match serde_json::to_string(d) {
                Ok(text) => {
                    std::fs::write(&p2, text).expect("write");
                    let cfg2 = with_peers(BootstrapCacheConfig::empty().with_cache_path(&p2).with_addrs_per_peer(max_addrs));
                    match guarded(|| BootstrapCacheStore::load_cache_data(&cfg2)) {
                        Ok(Ok(d2)) => if cache_keys(&d2.peers) == want { "same" } else { "diff" },
                        Ok(Err(_)) => "err",
                        Err(_) => "panic",
                    }
                }
                Err(_) => "err",
            }
        }
        Ok(Err(_)) if c.fmt => "err",
        _ => "na",
    };
    cx.log_bytes(c, bytes, outcome(&r), rt, &msg_of(&r));
}

fn sample_registry(r: &mut StdRng, path: &Path, variant: u64) -> NodeRegistry {
    let mk = |i: u16, r: &mut StdRng| NodeServiceData {
        antnode_path: PathBuf::from(format!("/var/antctl/services/antnode{i}/antnode")),
        auto_restart: variant % 2 == 0,
        connected_peers: if variant % 3 == 0 { None } else { Some(vec![PeerId::from_str(&valid_peer(r)).expect("peer")]) },
        data_dir_path: PathBuf::from(format!("/var/antctl/services/antnode{i}")),
        evm_network: EvmNetwork::ArbitrumOne,
        home_network: variant % 2 == 1,
        listen_addr: if variant % 2 == 0 { None } else { Some(vec![format!("/ip4/127.0.0.1/udp/{}/quic-v1", 1000 + i).parse().expect("addr")]) },
        log_dir_path: PathBuf::from(format!("/var/log/antnode/antnode{i}")),
        log_format: None,
        max_archived_log_files: if variant % 2 == 0 { None } else { Some(usize::MAX) },
        max_log_files: Some(0),
        metrics_port: [None, Some(0u16), Some(65535)][(variant % 3) as usize],
        owner: if variant % 2 == 0 { None } else { Some("owner \"quoted\" é".to_string()) },
        network_id: [None, Some(0u8), Some(255)][(variant % 3) as usize],
        node_ip: if variant % 2 == 0 { None } else { Some(Ipv4Addr::new(255, 255, 255, 255)) },
        node_port: [None, Some(65535u16), Some(0)][(variant % 3) as usize],
        number: [1u16, 65535, 0][(variant % 3) as usize].wrapping_add(i),
        peer_id: if variant % 2 == 0 { None } else { Some(PeerId::from_str(&valid_peer(r)).expect("peer")) },
        peers_args: Default::default(),
        pid: [None, Some(u32::MAX), Some(0)][(variant % 3) as usize],
        rewards_address: RewardsAddress::from_str("0x03B770D9cD32077cC0bF330c13C114a87643B124").expect("address"),
        reward_balance: [None, Some(AttoTokens::zero()), Some(AttoTokens::from_u64(u64::MAX))][(variant % 3) as usize],
        rpc_socket_addr: SocketAddr::new(IpAddr::V4(Ipv4Addr::new(127, 0, 0, 1)), [8081u16, 65535, 0][(variant % 3) as usize]),
        service_name: format!("antnode{i}"),
        status: [ServiceStatus::Added, ServiceStatus::Running, ServiceStatus::Removed][(variant % 3) as usize].clone(),
        upnp: variant % 2 == 0,
        user: Some("ant".to_string()),
        user_mode: variant % 2 == 1,
        version: "0.1.0".to_string(),
    };
    let mut reg = NodeRegistry {
        auditor: None,
        daemon: None,
        environment_variables: if variant % 2 == 0 { None } else { Some(vec![("K".into(), "v=\n".into())]) },
        faucet: None,
        nat_status: None,
        nodes: (1..=(variant % 3) as u16 + 1).map(|i| mk(i, r)).collect(),
        save_path: path.to_path_buf(),
    };
    if variant % 4 == 3 {
        enrich(&mut reg, r);
    }
    reg
}
/// every optional part of a registry present: daemon, faucet, auditor, NAT status, a custom EVM network, and
/// every optional field of every node set
fn enrich(reg: &mut NodeRegistry, r: &mut StdRng) {
    reg.auditor = Some(AuditorServiceData { auditor_path: "/usr/bin/auditor".into(), log_dir_path: "/var/log/auditor".into(), pid: Some(u32::MAX),
        service_name: "auditor".into(), status: ServiceStatus::Stopped, user: "ant".into(), version: "0.1.0".into() });
    reg.daemon = Some(DaemonServiceData { daemon_path: "/usr/bin/antctld".into(), endpoint: Some(SocketAddr::new(IpAddr::V4(Ipv4Addr::new(0, 0, 0, 0)), 65535)),
        pid: Some(0), service_name: "antctld".into(), status: ServiceStatus::Running, version: "0.1.0".into() });
    reg.faucet = Some(FaucetServiceData { faucet_path: "/usr/bin/faucet".into(), local: true, log_dir_path: "/var/log/faucet".into(), pid: None,
        service_name: "faucet".into(), status: ServiceStatus::Added, user: "ant".into(), version: "0.1.0".into() });
    reg.nat_status = Some([NatDetectionStatus::Public, NatDetectionStatus::UPnP, NatDetectionStatus::Private][r.gen_range(0..3)].clone());
    reg.environment_variables = Some(vec![("K".into(), "v".into()), ("".into(), "".into())]);
    for (i, n) in reg.nodes.iter_mut().enumerate() {
        n.evm_network = EvmNetwork::new_custom("http://localhost:8545/", "0x5FbDB2315678afecb367f032d93F642f64180aa3", "0x8464135c8F25Da09e49BC8782676a84730C318bC");
        n.connected_peers = Some(vec![PeerId::from_str(&valid_peer(r)).expect("peer"), PeerId::from_str(&ed_peer(r)).expect("peer")]);
        n.listen_addr = Some(vec![format!("/ip4/127.0.0.1/udp/{}/quic-v1", 1000 + i).parse().expect("addr"), "/ip4/10.0.0.1/tcp/80/ws".parse().expect("addr")]);
        n.log_format = Some(if i % 2 == 0 { LogFormat::Json } else { LogFormat::Default });
        n.max_archived_log_files = Some(usize::MAX);
        n.max_log_files = Some(1);
        n.metrics_port = Some(65535);
        n.owner = Some("owner".into());
        n.network_id = Some(255);
        n.node_ip = Some(Ipv4Addr::new(255, 255, 255, 255));
        n.node_port = Some(65535);
        n.peer_id = Some(PeerId::from_str(&ed_peer(r)).expect("peer"));
        n.pid = Some(u32::MAX);
        n.reward_balance = Some(AttoTokens::from_atto(ant_evm::Amount::MAX));
        n.user = Some("ant".into());
    }
}

// ------------------------------------------------------------------ invalid field values inside valid files
fn obj<'a>(v: &'a mut Value, what: &str) -> &'a mut serde_json::Map<String, Value> {
    v.as_object_mut().unwrap_or_else(|| panic!("{what} is not an object"))
}
/// replace the value of an existing key (a mutation that silently does nothing would be a blind spot)
fn set_key(v: &mut Value, key: &str, new: Value) {
    let o = obj(v, key);
    assert!(o.contains_key(key), "no field {key} to mutate");
    o.insert(key.to_string(), new);
}
fn registry_field(reg: &mut Value, f: &str) {
    if let Some((key, new)) = match f {
        "nat_bad" => Some(("nat_status", json!("Symmetric"))),
        "daemon_bad" => Some(("daemon", json!({"daemon_path": "/x", "endpoint": "127.0.0.1:99999", "pid": -1, "service_name": "d", "status": "Running", "version": "1"}))),
        _ => None,
    } {
        return set_key(reg, key, new);
    }
    let node = reg.get_mut("nodes").and_then(|n| n.get_mut(0)).expect("first node");
    let (key, new) = match f {
        "pid_bad" => ("peer_id", json!("notanid")),
        "pid_empty" => ("peer_id", json!("")),
        "pid_num" => ("peer_id", json!(5)),
        "cp_empty" => ("connected_peers", json!([""])),
        "cp_bad" => ("connected_peers", json!(["12D3KooW", "Qm"])),
        "cp_num" => ("connected_peers", json!([1])),
        "rpc_port" => ("rpc_socket_addr", json!("1.2.3.4:65536")),
        "rpc_noport" => ("rpc_socket_addr", json!("1.2.3.4")),
        "ip_256" => ("node_ip", json!("256.0.0.1")),
        "ip_short" => ("node_ip", json!("1.2.3")),
        "listen_short" => ("listen_addr", json!(["/ip4"])),
        "listen_bad" => ("listen_addr", json!(["garbage", ""])),
        "num_max" => ("number", json!(65535)),
        "num_over" => ("number", json!(65536)),
        "port_over" => ("node_port", json!(65536)),
        "evm_bad" => ("evm_network", json!({"Custom": {"rpc_url_http": "not a url", "payment_token_address": "0x12", "data_payments_address": "zz"}})),
        "status_bad" => ("status", json!("Exploded")),
        other => panic!("unknown registry field mutation {other}"),
    };
    set_key(node, key, new);
}
fn cache_field(cache: &mut Value, f: &str, r: &mut StdRng) {
    let peers = obj(cache.get_mut("peers").expect("peers"), "peers");
    // the first peer that still has an address
    let k0 = peers.iter().find(|(_, a)| a.as_array().is_some_and(|a| !a.is_empty())).map(|(k, _)| k.clone()).expect("a peer with an address");
    if let Some(newkey) = match f { "key_notid" => Some("notanid".to_string()), "key_empty" => Some(String::new()), "key_other" => Some(valid_peer(r)), _ => None } {
        let v = peers.remove(&k0).expect("peer");
        peers.insert(newkey, v);
        return;
    }
    if f == "addrs_empty" {
        peers.insert(k0, json!([]));
        return;
    }
    let first = peers.get_mut(&k0).and_then(|a| a.get_mut(0)).expect("first address");
    match f {
        "addr_nop2p" => set_key(first, "addr", json!("/ip4/10.0.0.1/udp/1000/quic-v1")),
        "addr_short" => set_key(first, "addr", json!("/ip4")),
        "cnt_neg" => set_key(first, "success_count", json!(-1)),
        // ONE last-seen time at the edge of the representable range among fresh ones
        "edge1_tmax" | "edge1_tnear" | "edge1_tday" | "edge1_tu64" | "edge1_zero" => {
            let v = match f { "edge1_tmax" => json!(9223372036854775807u64), "edge1_tnear" => json!(9223372036854775806u64),
                "edge1_tday" => json!(9223372036854689408u64), "edge1_tu64" => json!(18446744073709551615u64), _ => json!(0) };
            set_key(first.get_mut("last_seen").expect("last_seen"), "secs_since_epoch", v);
        }
        other => panic!("unknown cache field mutation {other}"),
    }
}
fn field_case(cx: &mut Ctx, parser: &str, wordv: &Value, full_cache: &[u8]) {
    let word = word_of(wordv);
    let fmt = word.len() == 1;
    if parser == "cache_load" {
        assert_eq!(word[0], "c3", "cache base");
        let mut v: Value = serde_json::from_slice(full_cache).expect("cache json");
        for f in &word[1..] {
            cache_field(&mut v, f, &mut cx.r);
        }
        // the untouched base is the file as the store wrote it
        let b = if fmt { full_cache.to_vec() } else { serde_json::to_vec(&v).expect("json") };
        for (m, (addrs, peers)) in [(6usize, None), (1, Some(1usize)), (6, Some(1)), (1, None)].into_iter().enumerate() {
            let c = Call { parser, word: wordv, m: m as u64, src: "tlc", fmt, pw: "field" };
            do_cache_load_cfg(cx, &c, &b, addrs, peers);
        }
    } else {
        let reg = match word[0].as_str() {
            "plain" => sample_registry(&mut cx.r, &cx.dir.join("reg.json"), 0),
            "rich" => sample_registry(&mut cx.r, &cx.dir.join("reg.json"), 7),
            other => panic!("unknown registry base {other}"),
        };
        let full = serde_json::to_string(&reg).expect("registry json");
        let mut v: Value = serde_json::from_str(&full).expect("registry json");
        for f in &word[1..] {
            registry_field(&mut v, f);
        }
        let b = if fmt { full.into_bytes() } else { serde_json::to_vec(&v).expect("json") };
        let c = Call { parser, word: wordv, m: 0, src: "tlc", fmt, pw: "field" };
        do_registry(cx, &c, &b);
    }
}
fn registry_rt(reg: &NodeRegistry) -> &'static str {
    let Ok(a) = serde_json::to_string(reg) else { return "err" };
    match guarded(|| NodeRegistry::from_json(&a)) {
        Ok(Ok(r2)) => match serde_json::to_string(&r2) { Ok(b) => if a == b { "same" } else { "diff" }, Err(_) => "err" },
        Ok(Err(_)) => "err",
        Err(_) => "panic",
    }
}
fn do_registry(cx: &mut Ctx, c: &Call, bytes: &[u8]) {
    if c.parser == "registry_load" {
        let p = cx.scratch_file(bytes);
        let r = guarded(|| NodeRegistry::load(&p));
        let rt = match &r { Ok(Ok(reg)) => registry_rt(reg), Ok(Err(_)) if c.fmt => "err", _ => "na" };
        cx.log_bytes(c, bytes, outcome(&r), rt, &msg_of(&r));
    } else {
        let s = String::from_utf8_lossy(bytes).to_string();
        let r = guarded(|| NodeRegistry::from_json(&s));
        let rt = match &r { Ok(Ok(reg)) => registry_rt(reg), Ok(Err(_)) if c.fmt => "err", _ => "na" };
        cx.log_bytes(c, s.as_bytes(), outcome(&r), rt, &msg_of(&r));
    }
}

// ------------------------------------------------------------------ records
const KINDS: [RecordKind; 8] = [
    RecordKind::Chunk, RecordKind::ChunkWithPayment, RecordKind::Transaction, RecordKind::TransactionWithPayment,
    RecordKind::Register, RecordKind::RegisterWithPayment, RecordKind::Scratchpad, RecordKind::ScratchpadWithPayment,
];
/// valid records are expensive to make (BLS signatures): a pool of 8 per parser is reused
fn pooled_record(cx: &mut Ctx, parser: &str, m: u64) -> (Vec<u8>, RecordKind) {
    let key = (parser.to_string(), m % 8);
    if let Some(x) = cx.pool.get(&key) {
        return x.clone();
    }
    let x = full_record(&mut cx.r, parser, m % 8);
    cx.pool.insert(key, x.clone());
    x
}
fn full_record(r: &mut StdRng, parser: &str, m: u64) -> (Vec<u8>, RecordKind) {
    let sk = SecretKey::random();
    match parser {
        "record_scratchpad" => {
            let mut pad = Scratchpad::new(sk.public_key(), m);
            let mut b = vec![0u8; [0usize, 1, 100][(m % 3) as usize]];
            r.fill_bytes(&mut b);
            pad.update_and_sign(Bytes::from(b), &sk);
            (try_serialize_record(&pad, RecordKind::Scratchpad).expect("ser").to_vec(), RecordKind::Scratchpad)
        }
        "record_register" => {
            let reg = Register::new(sk.public_key(), XorName::random(r), Permissions::default());
            let sig = sk.sign(reg.bytes().expect("bytes"));
            let sreg = SignedRegister::new(reg, sig, BTreeSet::new());
            (try_serialize_record(&sreg, RecordKind::Register).expect("ser").to_vec(), RecordKind::Register)
        }
        "record_transaction" => {
            let other = SecretKey::random().public_key();
            let mut content = [0u8; 32];
            r.fill_bytes(&mut content);
            let parents = if m % 2 == 0 { vec![] } else { vec![other] };
            let tx = Transaction::new(sk.public_key(), parents, content, vec![(other, content)], &sk);
            (try_serialize_record(&vec![tx], RecordKind::Transaction).expect("ser").to_vec(), RecordKind::Transaction)
        }
        _ => {
            // chunk records; for the header parser every kind
            let kind = if parser == "header_from_record" { KINDS[(m % 8) as usize] } else { RecordKind::Chunk };
            let mut b = vec![0u8; [0usize, 1, 2, 100, 1000][(m % 5) as usize]];
            r.fill_bytes(&mut b);
            (try_serialize_record(&Chunk::new(Bytes::from(b)), kind).expect("ser").to_vec(), kind)
        }
    }
}
fn rec_segment(r: &mut StdRng, seg: &str, full: &[u8]) -> Vec<u8> {
    match seg {
        "HDR" => full[..2].to_vec(),
        "FULL" => full.to_vec(),
        "CUT1" => full[..full.len() - 1].to_vec(),
        "b00" => vec![0x00],
        "b91" => vec![0x91],
        "bc0" => vec![0xc0],
        "bff" => vec![0xff],
        "arr32" => vec![0xdd, 0xff, 0xff, 0xff, 0xff],
        "bin32" => vec![0xc6, 0xff, 0xff, 0xff, 0xff],
        "map32" => vec![0xdf, 0xff, 0xff, 0xff, 0xff],
        "rnd" => { let mut b = vec![0u8; r.gen_range(1..=8)]; r.fill_bytes(&mut b); b }
        other => panic!("unknown record segment {other}"),
    }
}
fn do_record(cx: &mut Ctx, c: &Call, bytes: &[u8], kind: RecordKind) {
    let record = Record { key: RecordKey::new(&[1u8, 2, 3]), value: bytes.to_vec(), publisher: None, expires: None };
    fn rt_of<T: serde::Serialize + serde::de::DeserializeOwned>(v: &T, kind: RecordKind) -> &'static str {
        let Ok(b) = try_serialize_record(v, kind) else { return "err" };
        let rec = Record { key: RecordKey::new(&[9u8]), value: b.to_vec(), publisher: None, expires: None };
        match guarded(|| try_deserialize_record::<T>(&rec)) {
            Ok(Ok(v2)) => match try_serialize_record(&v2, kind) { Ok(b2) => if b2 == b { "same" } else { "diff" }, Err(_) => "err" },
            Ok(Err(_)) => "err",
            Err(_) => "panic",
        }
    }
    let (out, rt, msg) = match c.parser {
        "header_from_record" => {
            let r = guarded(|| RecordHeader::from_record(&record));
            let rt = match &r { Ok(Ok(h)) if c.fmt => if h.kind == kind { "same" } else { "diff" }, Ok(Err(_)) if c.fmt => "err", _ => "na" };
            (outcome(&r), rt, msg_of(&r))
        }
        "record_chunk" => {
            let r = guarded(|| try_deserialize_record::<Chunk>(&record));
            let rt = match &r { Ok(Ok(v)) => rt_of(v, RecordKind::Chunk), Ok(Err(_)) if c.fmt => "err", _ => "na" };
            (outcome(&r), rt, msg_of(&r))
        }
        "record_scratchpad" => {
            let r = guarded(|| try_deserialize_record::<Scratchpad>(&record));
            let rt = match &r { Ok(Ok(v)) => rt_of(v, RecordKind::Scratchpad), Ok(Err(_)) if c.fmt => "err", _ => "na" };
            (outcome(&r), rt, msg_of(&r))
        }
        "record_register" => {
            let r = guarded(|| try_deserialize_record::<SignedRegister>(&record));
            let rt = match &r { Ok(Ok(v)) => rt_of(v, RecordKind::Register), Ok(Err(_)) if c.fmt => "err", _ => "na" };
            (outcome(&r), rt, msg_of(&r))
        }
        "record_transaction" => {
            let r = guarded(|| try_deserialize_record::<Vec<Transaction>>(&record));
            let rt = match &r { Ok(Ok(v)) => rt_of(v, RecordKind::Transaction), Ok(Err(_)) if c.fmt => "err", _ => "na" };
            (outcome(&r), rt, msg_of(&r))
        }
        other => panic!("unknown record parser {other}"),
    };
    cx.log_bytes(c, bytes, out, rt, &msg);
}

// ------------------------------------------------------------------ one TLC case
fn run_case(cx: &mut Ctx, case: &Value, members: u64, full_cache: &[u8]) {
    let parser = case["parser"].as_str().expect("parser").to_string();
    let wordv = case["word"].clone();
    let word = word_of(&wordv);
    let pw = case["pw"].as_str().unwrap_or("na").to_string();
    let fmt = word.len() == 1 && word[0] == "FULL";
    if pw == "field" {
        return field_case(cx, &parser, &wordv, full_cache);
    }
    match parser.as_str() {
        "reg_from_hex" | "pad_from_hex" | "str_to_addr" | "dmc_from_hex" => {
            for m in 0..members {
                hex_case(cx, &parser, &wordv, &pw, m, "tlc");
            }
        }
        "decrypt" => hex_case(cx, &parser, &wordv, &pw, 0, "tlc"),
        "port_parse" => {
            let lit: String = case["codes"].as_array().expect("codes").iter().map(|x| char::from_u32(x.as_u64().expect("code") as u32).expect("char")).collect();
            let c = Call { parser: &parser, word: &wordv, m: 0, src: "tlc", fmt: false, pw: "na" };
            port_events(cx, &c, &lit);
            if lit.contains('x') || lit.contains(' ') {
                // other members of the letter / white-space classes
                let alt = lit.replace('x', pick(&mut cx.r, &["a", "e", "_", ",", ":", "٣"])).replace(' ', pick(&mut cx.r, &["\t", "\n", "\u{a0}"]));
                let c = Call { parser: &parser, word: &wordv, m: 1, src: "tlc", fmt: false, pw: "na" };
                port_events(cx, &c, &alt);
            }
        }
        "atto_from_str" => {
            for m in 0..(members / 4).max(1) {
                let s: String = word.iter().map(|g| atto_segment(&mut cx.r, g)).collect();
                let c = Call { parser: &parser, word: &wordv, m, src: "tlc", fmt: false, pw: "na" };
                do_atto(cx, &c, &s);
            }
        }
        "craft_multiaddr" => {
            for m in 0..(members / 4).max(1) {
                let s: String = word.iter().map(|g| maddr_segment(&mut cx.r, g)).collect();
                let c = Call { parser: &parser, word: &wordv, m, src: "tlc", fmt: false, pw: "na" };
                do_craft(cx, &c, &s, m % 2 == 1);
            }
        }
        "cache_load" => {
            for m in 0..(members / 4).max(2) {
                let b: Vec<u8> = word.iter().flat_map(|g| file_segment(&mut cx.r, g, full_cache)).collect();
                let c = Call { parser: &parser, word: &wordv, m, src: "tlc", fmt, pw: "na" };
                // member 0 with the default limits (round trip comparable), member 1 with one address per peer (forces the
                // sort) and one peer (forces the removal of the oldest peers)
                if m % 2 == 0 { do_cache_load(cx, &c, &b, 6) } else { do_cache_load_cfg(cx, &c, &b, 1, Some(1)) }
            }
        }
        "registry_load" | "registry_from_json" => {
            for m in 0..(members / 4).max(1) {
                let reg = sample_registry(&mut cx.r, &cx.dir.join("reg.json"), m + word.len() as u64);
                let full = serde_json::to_string(&reg).expect("registry json").into_bytes();
                let b: Vec<u8> = word.iter().flat_map(|g| file_segment(&mut cx.r, g, &full)).collect();
                let c = Call { parser: &parser, word: &wordv, m, src: "tlc", fmt, pw: "na" };
                do_registry(cx, &c, &b);
            }
        }
        "header_from_record" | "record_chunk" | "record_scratchpad" | "record_register" | "record_transaction" => {
            for m in 0..(members / 2).max(1) {
                let (full, kind) = pooled_record(cx, &parser, m);
                let b: Vec<u8> = word.iter().flat_map(|g| rec_segment(&mut cx.r, g, &full)).collect();
                let c = Call { parser: &parser, word: &wordv, m, src: "tlc", fmt, pw: "na" };
                do_record(cx, &c, &b, kind);
            }
        }
        other => panic!("unknown parser in case {other}"),
    }
}

// ------------------------------------------------------------------ boundary classes and random inputs
fn class_and_random(cx: &mut Ctx, n_rand: usize, full_cache: &[u8]) {
    let w = json!(["class"]);
    // decoded byte lengths around every fixed offset the hex parsers use
    for nbytes in [0usize, 1, 7, 8, 9, 19, 20, 21, 31, 32, 33, 35, 36, 37, 47, 48, 49, 79, 80, 81, 96, 160] {
        for odd in [false, true] {
            let s = rand_hex(&mut cx.r, nbytes * 2 + odd as usize);
            for p in ["reg_from_hex", "pad_from_hex", "str_to_addr", "dmc_from_hex"] {
                let c = Call { parser: p, word: &w, m: nbytes as u64, src: "class", fmt: false, pw: "na" };
                match p { "reg_from_hex" => do_reg(cx, &c, &s, None), "pad_from_hex" => do_pad(cx, &c, &s, None), "str_to_addr" => do_addr(cx, &c, &s, None), _ => do_dmc(cx, &c, &s, None) }
            }
            if nbytes <= 37 {
                let c = Call { parser: "decrypt", word: &w, m: nbytes as u64, src: "class", fmt: false, pw: "empty" };
                do_decrypt(cx, &c, &s, "", None);
            }
        }
    }
    // a well-formed ciphertext of bytes that are not UTF-8 (made with the same primitives, known password)
    {
        use ring::aead::{Aad, BoundKey, Nonce, NonceSequence, SealingKey, UnboundKey, CHACHA20_POLY1305};
        struct One([u8; 12]);
        impl NonceSequence for One {
            fn advance(&mut self) -> Result<Nonce, ring::error::Unspecified> { Nonce::try_assume_unique_for_key(&self.0) }
        }
        for plain in [vec![0xffu8, 0xfe, 0x80], vec![], vec![0xc3]] {
            let (salt, nonce) = ([7u8; 8], [9u8; 12]);
            let mut key = [0u8; 32];
            ring::pbkdf2::derive(ring::pbkdf2::PBKDF2_HMAC_SHA512, std::num::NonZeroU32::new(100_000).expect("nz"), &salt, b"pw", &mut key);
            let mut sk = SealingKey::new(UnboundKey::new(&CHACHA20_POLY1305, &key).expect("key"), One(nonce));
            let mut data = plain.clone();
            sk.seal_in_place_append_tag(Aad::from(&[]), &mut data).expect("seal");
            let mut all = salt.to_vec();
            all.extend_from_slice(&nonce);
            all.extend_from_slice(&data);
            let wv = json!(["class-non-utf8-plaintext"]);
            let c = Call { parser: "decrypt", word: &wv, m: plain.len() as u64, src: "class", fmt: false, pw: "na" };
            do_decrypt(cx, &c, &hex::encode(all), "pw", None);
        }
    }
    // ports: every boundary
    for s in ["0", "1", "65534", "65535", "65536", "0-65535", "1-65535", "0-65534", "65534-65535", "65535-65535", "65535-65534", "0-0", "0-1",
              "00000-00001", "+1", "1-+2", "-1", "1-", "-", "", " 1", "1 ", "1--2", "1-2-3", "１", "1e3", "0x10", "4294967296", "18446744073709551616-1"] {
        let c = Call { parser: "port_parse", word: &w, m: 0, src: "class", fmt: false, pw: "na" };
        port_events(cx, &c, s);
    }
    for p in [None, Some(0u16), Some(1), Some(65534), Some(65535)] {
        inc_event(cx, p, "class");
    }
    // add_node on a loaded registry: ordinary numbers, and numbers and counts at the edge of u16 (the unchanged tree
    // overflowed there: fixed in /repo by ee54c19, known_findings.json C17-add-node-u16-overflow)
    for (number, count, ports) in [(1u16, None, None), (7, Some(2), Some("12000-12001")), (1, Some(1), Some("65535")), (65533, Some(1), None)] {
        add_node_event(cx, number, count, ports, "class");
    }
    for (number, count, ports) in [(65535u16, None, None), (65534, Some(1), None), (65534, Some(2), None), (65535, Some(0), None), (65535, Some(65535), None)] {
        add_node_event(cx, number, count, ports, "class");
    }
    // (a batch of 65535 services is only run on request: it installs 65535 simulated services)
    if std::env::var("VERIF_ENABLE_ADDNODE_U16").is_ok_and(|v| !v.is_empty() && v != "0") {
        add_node_event(cx, 1, Some(65535), Some("1-65535"), "class");
    }
    // ANT_PEERS: lists of 0-4 items, each a word of one or two multiaddress segments
    {
        use std::os::unix::ffi::OsStringExt;
        let segs = ["fullquic", "fullws", "fulled", "relay", "bare", "ip4", "udp", "p2p", "p2pbad", "junk", "u8", "slash", "tcpbig"];
        let mut lists: Vec<String> = vec![String::new(), ",".into(), ",,".into(), " ".into()];
        for n in 1..=4usize {
            for _ in 0..12 {
                let items: Vec<String> = (0..n).map(|_| {
                    let k = cx.r.gen_range(1..=2);
                    let mut it: String = (0..k).map(|_| { let g = segs[cx.r.gen_range(0..segs.len())]; maddr_segment(&mut cx.r, g) }).collect();
                    it.retain(|ch| ch != '\0');
                    match cx.r.gen_range(0..8) { 0 => format!(" {it}"), 1 => format!("{it} "), 2 => format!("{it}\n"), _ => it }
                }).collect();
                lists.push(items.join(","));
            }
        }
        for l in lists {
            env_peers_event(cx, std::ffi::OsStr::new(&l), "class");
        }
        let valid = maddr_segment(&mut cx.r, "fullquic").into_bytes();
        for bad in [vec![0xffu8], [valid.clone(), vec![b',', 0xff, 0xfe]].concat(), [vec![0xc3u8, b','], valid].concat()] {
            env_peers_event(cx, &std::ffi::OsString::from_vec(bad), "class");
        }
    }
    // complete multiaddresses of every composite form, both settings of the ignore flag
    for i in 0..30u64 {
        for g in ["fullquic", "fullws", "fulled", "relay", "bare"] {
            let s = maddr_segment(&mut cx.r, g);
            let wv = json!([g]);
            do_craft(cx, &Call { parser: "craft_multiaddr", word: &wv, m: i, src: "class", fmt: false, pw: "na" }, &s, i % 2 == 0);
            // the same address in a non-canonical order / with the transport after the peer id
            if g == "fullquic" && i < 6 {
                let parts: Vec<&str> = s.split("/p2p/").collect();
                let swapped = format!("/p2p/{}{}", parts[1], parts[0]);
                let wv = json!(["p2p-first"]);
                do_craft(cx, &Call { parser: "craft_multiaddr", word: &wv, m: i, src: "class", fmt: false, pw: "na" }, &swapped, i % 2 == 0);
            }
        }
    }
    // RegisterAddress: Display is documented as "hex format that can be parsed by RegisterAddress::from_hex"
    for _ in 0..8 {
        let v = RegisterAddress::new(XorName::random(&mut cx.r), SecretKey::random().public_key());
        let wv = json!(["DISPLAY"]);
        do_reg(cx, &Call { parser: "reg_from_hex", word: &wv, m: 0, src: "class", fmt: true, pw: "na" }, &format!("{v}"), Some(v));
    }
    // register signing key from the environment: lengths around 32 bytes, foreign characters, keys outside the field
    {
        let wv = json!(["FULL"]);
        for m in 0..4 {
            let k = SecretKey::random();
            do_signing_key(cx, &Call { parser: "signing_key", word: &wv, m, src: "class", fmt: true, pw: "na" }, &k.to_hex(), Some(&k));
            let full = k.to_hex();
            for (name, text) in [("upper", full.to_uppercase()), ("0x", format!("0x{full}")), ("nl", format!("{full}\n")), ("sp", format!(" {full}")), ("cut1", cut(&full, 1)),
                                 ("cut2", cut(&full, 2)), ("plus1", format!("{full}0")), ("plus2", format!("{full}00")), ("twice", format!("{full}{full}")), ("u8", format!("{}é", cut(&full, 2)))] {
                let wv = json!(["class", name]);
                do_signing_key(cx, &Call { parser: "signing_key", word: &wv, m, src: "class", fmt: false, pw: "na" }, &text, None);
            }
        }
        for text in ["".to_string(), "0".repeat(64), "f".repeat(64), "F".repeat(64), "0".repeat(63) + "1",
                     // the order of the BLS12-381 scalar field, one less, one more
                     "73eda753299d7d483339d80809a1d80553bda402fffe5bfeffffffff00000001".to_string(),
                     "73eda753299d7d483339d80809a1d80553bda402fffe5bfeffffffff00000000".to_string(),
                     "73eda753299d7d483339d80809a1d80553bda402fffe5bfeffffffff00000002".to_string(), "g".repeat(64), "0".repeat(10_000)] {
            let wv = json!(["class", "edge"]);
            do_signing_key(cx, &Call { parser: "signing_key", word: &wv, m: 0, src: "class", fmt: false, pw: "na" }, &text, None);
        }
    }
    // crafted cache files at the counter boundaries, loaded with both address limits
    for (s, f) in [(u32::MAX, 1u32), (u32::MAX, u32::MAX), (1 << 31, 1 << 31), (u32::MAX - 1, 1), (0, u32::MAX)] {
        let text = String::from_utf8_lossy(full_cache).replace("\"success_count\": 1", &format!("\"success_count\": {s}")).replace("\"failure_count\": 0", &format!("\"failure_count\": {f}"));
        let wv = json!(["class-counters"]);
        for lim in [6usize, 1] {
            let c = Call { parser: "cache_load", word: &wv, m: lim as u64, src: "class", fmt: false, pw: "na" };
            do_cache_load(cx, &c, text.as_bytes(), lim);
        }
    }
    // long text with a multi-byte character at every byte offset (a parser that cuts its input at a fixed byte position --
    // for a fixed-width field or to shorten a log line -- must not cut inside a character): one 4-byte character, which
    // straddles the three byte positions behind its offset, at every offset 0..=300 of a 300-byte line of hex digits / of
    // letters that are not hex digits / behind a complete multiaddress (seeded/C17-8)
    {
        let wv = json!(["class-utf8-offset"]);
        let valid = maddr_segment(&mut cx.r, "fullquic");
        for off in 0..=300usize {
            for (fi, filler) in ["a", "x", "/"].iter().enumerate() {
                let mut s = filler.repeat(off);
                s.push('𝄞');
                s.push_str(&filler.repeat(300 - off));
                if fi == 2 {
                    // an address first, then the line goes on
                    s = format!("{valid}{}", &s[valid.len().min(off)..]);
                }
                let m = off as u64;
                if fi < 2 {
                    do_reg(cx, &Call { parser: "reg_from_hex", word: &wv, m, src: "class", fmt: false, pw: "na" }, &s, None);
                    do_pad(cx, &Call { parser: "pad_from_hex", word: &wv, m, src: "class", fmt: false, pw: "na" }, &s, None);
                    do_addr(cx, &Call { parser: "str_to_addr", word: &wv, m, src: "class", fmt: false, pw: "na" }, &s, None);
                    do_dmc(cx, &Call { parser: "dmc_from_hex", word: &wv, m, src: "class", fmt: false, pw: "na" }, &s, None);
                    do_decrypt(cx, &Call { parser: "decrypt", word: &wv, m, src: "class", fmt: false, pw: "empty" }, &s, "", None);
                    do_signing_key(cx, &Call { parser: "signing_key", word: &wv, m, src: "class", fmt: false, pw: "na" }, &s, None);
                    do_atto(cx, &Call { parser: "atto_from_str", word: &wv, m, src: "class", fmt: false, pw: "na" }, &s.replace('a', "1").replace('x', "."));
                    if off <= 40 {
                        let short: String = s.chars().take(off + 2).collect::<String>().replace('a', "1").replace('x', "-");
                        port_events(cx, &Call { parser: "port_parse", word: &wv, m, src: "class", fmt: false, pw: "na" }, &short);
                    }
                }
                do_craft(cx, &Call { parser: "craft_multiaddr", word: &wv, m, src: "class", fmt: false, pw: "na" }, &s, off % 2 == 0);
                if off % 3 == 0 {
                    env_peers_event(cx, std::ffi::OsStr::new(&s), "class");
                    do_registry(cx, &Call { parser: "registry_from_json", word: &wv, m, src: "class", fmt: false, pw: "na" }, s.as_bytes());
                }
            }
        }
    }
    // random strings and bytes into everything
    let wr = json!(["random"]);
    for i in 0..n_rand {
        let n = [0usize, 1, 2, 3, 8, 16, 39, 40, 41, 64, 96, 160, 161, 300][cx.r.gen_range(0..14)];
        let mut b = vec![0u8; n];
        cx.r.fill_bytes(&mut b);
        let style = i % 4;
        let s: String = match style {
            0 => rand_hex(&mut cx.r, n),
            1 => b.iter().map(|x| (b' ' + x % 95) as char).collect(),
            2 => String::from_utf8_lossy(&b).to_string(),
            _ => b.iter().map(|x| ['0', '9', '-', '+', '.', '/', 'a', 'f', 'x', ' ', 'é', '1', '6', '5'][(*x % 14) as usize]).collect(),
        };
        let m = i as u64;
        do_reg(cx, &Call { parser: "reg_from_hex", word: &wr, m, src: "random", fmt: false, pw: "na" }, &s, None);
        do_pad(cx, &Call { parser: "pad_from_hex", word: &wr, m, src: "random", fmt: false, pw: "na" }, &s, None);
        do_addr(cx, &Call { parser: "str_to_addr", word: &wr, m, src: "random", fmt: false, pw: "na" }, &s, None);
        do_dmc(cx, &Call { parser: "dmc_from_hex", word: &wr, m, src: "random", fmt: false, pw: "na" }, &s, None);
        if n < 20 || i % 16 == 0 {
            do_decrypt(cx, &Call { parser: "decrypt", word: &wr, m, src: "random", fmt: false, pw: "empty" }, &s, "", None);
        }
        let short: String = s.chars().take(24).collect();
        port_events(cx, &Call { parser: "port_parse", word: &wr, m, src: "random", fmt: false, pw: "na" }, &short);
        do_atto(cx, &Call { parser: "atto_from_str", word: &wr, m, src: "random", fmt: false, pw: "na" }, &s);
        do_craft(cx, &Call { parser: "craft_multiaddr", word: &wr, m, src: "random", fmt: false, pw: "na" }, &s, i % 2 == 0);
        do_signing_key(cx, &Call { parser: "signing_key", word: &wr, m, src: "random", fmt: false, pw: "na" }, &s, None);
        if !s.contains('\0') {
            env_peers_event(cx, std::ffi::OsStr::new(&s), "random");
        }
        do_cache_load(cx, &Call { parser: "cache_load", word: &wr, m, src: "random", fmt: false, pw: "na" }, &b, 1);
        do_registry(cx, &Call { parser: "registry_load", word: &wr, m, src: "random", fmt: false, pw: "na" }, &b);
        do_registry(cx, &Call { parser: "registry_from_json", word: &wr, m, src: "random", fmt: false, pw: "na" }, s.as_bytes());
        for p in ["header_from_record", "record_chunk", "record_scratchpad", "record_register", "record_transaction"] {
            do_record(cx, &Call { parser: p, word: &wr, m, src: "random", fmt: false, pw: "na" }, &b, RecordKind::Chunk);
        }
        let port: u16 = cx.r.gen();
        inc_event(cx, Some(port), "random");
        // formatter round trips of random values
        let v = XorName::random(&mut cx.r);
        do_addr(cx, &Call { parser: "str_to_addr", word: &json!(["FULL"]), m, src: "random", fmt: true, pw: "na" }, &addr_to_str(v), Some(v));
    }
}

fn main() {
    quiet_panics();
    let out = arg("--out").expect("--out");
    let dir = PathBuf::from(arg("--dir").expect("--dir"));
    assert!(dir.starts_with("/verif/work"), "scratch must live under /verif/work");
    let _ = std::fs::remove_dir_all(&dir);
    std::fs::create_dir_all(&dir).expect("dir");
    let seed = vtrace::seed_from_env();
    let n_rand: usize = arg("--random").and_then(|s| s.parse().ok()).unwrap_or(200);
    let members: u64 = arg("--members").and_then(|s| s.parse().ok()).unwrap_or(8);
    let mut cx = Ctx { t: Trace::create(&out), r: rng(seed), dir: dir.clone(), nfile: 0, pool: Default::default(), avail_nodes: vec![] };
    // variant 1: ports 0 / 65535 recorded (metrics 0, node 65535, rpc 65535); variant 3: two nodes, rpc 8081
    cx.avail_nodes = [1u64, 3].iter().map(|v| sample_registry(&mut rng(seed ^ 0x5eed), &dir.join("reg.json"), *v).nodes).collect();
    let full_cache = cache_full(&mut cx, 3);
    let mut ncases = 0u64;
    if let Some(cases) = arg("--cases") {
        for case in read_ndjson(&cases) {
            ncases += 1;
            run_case(&mut cx, &case, members, &full_cache);
        }
    }
    if !std::env::args().any(|a| a == "--only-cases") {
        class_and_random(&mut cx, n_rand, &full_cache);
    }
    let n = cx.t.finish();
    let _ = std::fs::remove_dir_all(&dir);
    println!("{}", json!({"events": n, "cases": ncases, "seed": seed}));
}
