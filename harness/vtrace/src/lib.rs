//! Shared helpers for the conformance drivers: ndjson trace writer, scenario reader,
//! panic-capturing call wrapper, seeded rng.
use rand::{rngs::StdRng, SeedableRng};
use serde_json::Value;
use std::fs::File;
use std::io::{BufRead, BufReader, BufWriter, Write};
use std::panic::{catch_unwind, AssertUnwindSafe};

pub struct Trace {
    out: BufWriter<File>,
    pub lines: u64,
}

impl Trace {
    pub fn create(path: &str) -> Self {
        let f = File::create(path).unwrap_or_else(|e| panic!("cannot create {path}: {e}"));
        Trace { out: BufWriter::new(f), lines: 0 }
    }
    pub fn emit(&mut self, v: Value) {
        serde_json::to_writer(&mut self.out, &v).expect("trace write");
        self.out.write_all(b"\n").expect("trace write");
        self.lines += 1;
    }
    pub fn finish(mut self) -> u64 {
        self.out.flush().expect("trace flush");
        self.lines
    }
}

/// Read an ndjson file (one JSON value per non-empty line).
pub fn read_ndjson(path: &str) -> Vec<Value> {
    let f = File::open(path).unwrap_or_else(|e| panic!("cannot open {path}: {e}"));
    BufReader::new(f)
        .lines()
        .map(|l| l.expect("read line"))
        .filter(|l| !l.trim().is_empty())
        .map(|l| serde_json::from_str(&l).unwrap_or_else(|e| panic!("bad json line {l}: {e}")))
        .collect()
}

/// Run `f`, turning a panic into `Err(message)`. A panic in code under test is data.
pub fn guarded<T>(f: impl FnOnce() -> T) -> Result<T, String> {
    match catch_unwind(AssertUnwindSafe(f)) {
        Ok(v) => Ok(v),
        Err(e) => {
            let msg = if let Some(s) = e.downcast_ref::<&str>() {
                s.to_string()
            } else if let Some(s) = e.downcast_ref::<String>() {
                s.clone()
            } else {
                "panic".to_string()
            };
            Err(msg)
        }
    }
}

pub fn quiet_panics() {
    std::panic::set_hook(Box::new(|_| {}));
}

pub fn seed_from_env() -> u64 {
    std::env::var("VERIF_SEED").ok().and_then(|s| s.parse().ok()).unwrap_or(1)
}

pub fn rng(seed: u64) -> StdRng {
    StdRng::seed_from_u64(seed)
}

/// Characters of a string as an array of code points (TLC has no string indexing).
pub fn codes(s: &str) -> Value {
    Value::Array(s.chars().map(|c| Value::from(c as u32)).collect())
}

pub fn arg(name: &str) -> Option<String> {
    let a: Vec<String> = std::env::args().collect();
    a.iter().position(|x| x == name).and_then(|i| a.get(i + 1).cloned())
}

/// Async variant of `guarded`: a panic while polling the future is data.
pub async fn guarded_async<F: std::future::Future>(f: F) -> Result<F::Output, String> {
    use futures::FutureExt;
    match AssertUnwindSafe(f).catch_unwind().await {
        Ok(v) => Ok(v),
        Err(e) => Err(if let Some(s) = e.downcast_ref::<&str>() { s.to_string() } else if let Some(s) = e.downcast_ref::<String>() { s.clone() } else { "panic".to_string() }),
    }
}
