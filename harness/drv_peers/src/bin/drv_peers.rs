//! Bad-node accounting driver (specs/peers): one REAL node (`build_node`, real `SwarmDriver` handlers) and one
//! peer in its routing table. Reports go through the real `RecordNodeIssue` command handler, time passes through
//! hook H10 (the recorded issue times are made older by whole seconds), the `PeerConsideredAsBad` request the node
//! sends is held by the harness and answered when the scenario says so, the `AddPeerToBlockList` command that
//! follows is observed before it is handled, and advertisements of the peer go through the real
//! `Cmd::Replicate` handler.
#[path = "../../../drv_net/src/nodeworld.rs"]
mod nodeworld;
use nodeworld::*;

use ant_networking::verif_hooks::{LocalSwarmCmd, NetworkSwarmCmd};
use ant_networking::{NetworkError, NodeIssue};
use ant_protocol::messages::{Cmd, CmdResponse, Request, Response};
use ant_protocol::storage::RecordType;
use ant_protocol::NetworkAddress;
use libp2p::PeerId;
use rand::{rngs::StdRng, Rng, SeedableRng};
use serde_json::{json, Value};
use std::path::PathBuf;
use std::time::Instant;
use tokio::sync::oneshot;
use vtrace::{arg, read_ndjson, Trace};

fn uz(v: &Value) -> u64 { v.as_u64().unwrap_or(0) }
fn st<'a>(v: &'a Value, d: &'a str) -> &'a str { v.as_str().unwrap_or(d) }

type Reply = oneshot::Sender<Result<Response, NetworkError>>;

struct World {
    n: NodeH,
    peer: PeerId,
    told: bool,
    blocked: bool,
    pending: Option<Reply>,
    rng: StdRng,
}

fn issue_of(k: &str) -> NodeIssue {
    match k {
        "ReplicationFailure" => NodeIssue::ReplicationFailure,
        "CloseNodesShunning" => NodeIssue::CloseNodesShunning,
        "BadQuoting" => NodeIssue::BadQuoting,
        _ => NodeIssue::FailedChunkProofCheck,
    }
}

/// Serve the node; returns (notifications sent to the peer in this step, fetch events)
async fn serve(w: &mut World) -> (u64, u64) {
    let mut notified = 0;
    let mut fetches = 0;
    let mut quiet = 0;
    while quiet < 4 {
        tokio::task::yield_now().await;
        let mut progressed = 0;
        gates_tick();
        // local commands: the block-list command is observed before it is handled
        while let Some(cmd) = w.n.driver.verif_try_recv_local_cmd() {
            if let LocalSwarmCmd::AddPeerToBlockList { peer_id } = &cmd {
                if *peer_id == w.peer { w.blocked = true; }
            }
            let _ = w.n.driver.verif_handle_local_cmd(cmd);
            progressed += 1;
        }
        while let Some(cmd) = w.n.driver.verif_try_recv_network_cmd() {
            progressed += 1;
            if let NetworkSwarmCmd::SendRequest { req: Request::Cmd(Cmd::PeerConsideredAsBad { bad_peer, .. }), peer, sender } = cmd {
                if peer == w.peer && bad_peer.as_peer_id() == Some(w.peer) {
                    notified += 1;
                    w.told = true;
                    if let Some(tx) = sender { w.pending = Some(tx); }
                }
            }
        }
        while let Ok(ev) = w.n.events.try_recv() {
            progressed += 1;
            if let ant_networking::NetworkEvent::KeysToFetchForReplication(k) = ev { fetches += k.len() as u64; }
        }
        if progressed == 0 { quiet += 1 } else { quiet = 0 }
    }
    (notified, fetches)
}

fn view(w: &mut World) -> Value {
    let (issues, bad, in_rt) = w.n.driver.verif_node_issues(&w.peer);
    let iss: Vec<Value> = issues.iter().map(|(k, a)| json!({"kind": k, "age": a})).collect();
    json!({"issues": iss, "bad": bad, "inRT": in_rt, "told": w.told, "blocked": w.blocked})
}

async fn step(w: &mut World, t: &mut Trace, s: &Value) {
    let ev = st(&s["ev"], "");
    let (mut notified, mut fetches) = (0, 0);
    let mut done = true;
    match ev {
        "Report" => {
            let _ = w.n.driver.verif_handle_local_cmd(LocalSwarmCmd::RecordNodeIssue { peer_id: w.peer, issue: issue_of(st(&s["k"], "")) });
            let r = serve(w).await;
            notified = r.0;
            fetches = r.1;
        }
        "Age" => w.n.driver.verif_age_node_issues(&w.peer, uz(&s["d"])),
        "Answer" => {
            match w.pending.take() {
                Some(tx) => { let _ = tx.send(Ok(Response::Cmd(CmdResponse::PeerConsideredAsBad(Ok(()))))); }
                None => done = false,
            }
            let r = serve(w).await;
            notified = r.0;
        }
        "Rejoin" => {
            if w.blocked { done = false } else { w.n.add_peer(&w.peer.clone(), 44001); }
        }
        "Advert" => {
            // the peer advertises a chunk the node does not hold (a fresh address every time)
            let name = xor_name::XorName(w.rng.gen());
            let addr = NetworkAddress::from_chunk_address(ant_protocol::storage::ChunkAddress::new(name));
            w.n.driver.verif_handle_replicate(NetworkAddress::from_peer(w.peer), vec![(addr, RecordType::Chunk)]);
            let r = serve(w).await;
            notified = r.0;
            fetches = r.1;
        }
        other => panic!("unknown step {other}"),
    }
    let state = view(w);
    t.emit(json!({"ev": if done { ev } else { "Skipped" }, "what": ev, "k": s["k"], "d": s["d"], "notified": notified, "fetches": fetches, "state": state}));
}

async fn run() {
    let out = arg("--out").expect("--out");
    let work = PathBuf::from(arg("--work").expect("--work"));
    let seed = vtrace::seed_from_env();
    let mut t = Trace::create(&out);
    let scns = arg("--scenarios").map(|p| read_ndjson(&p)).unwrap_or_default();
    let stub = EvmStub::start();
    let mut run_no = 0u64;
    let mut slow = 0u64;
    for scn in scns {
        run_no += 1;
        let mut rng = StdRng::seed_from_u64(seed.wrapping_mul(41).wrapping_add(run_no));
        let dir = work.join(format!("run-{run_no}"));
        let mut n = NodeH::new(&mut rng, dir.join("n0"), stub.network());
        let peer = PeerId::from(keypair(&mut rng).public());
        n.add_peer(&peer, 44001);
        // two more ordinary peers
        for i in 0..2 { let p = PeerId::from(keypair(&mut rng).public()); n.add_peer(&p, 44002 + i); }
        let mut w = World { n, peer, told: false, blocked: false, pending: None, rng };
        let first = t.lines;
        let t0 = Instant::now();
        let init = view(&mut w);
        t.emit(json!({"ev":"Reset","run":run_no,"state":init}));
        for s in scn.as_array().expect("steps") {
            step(&mut w, &mut t, s).await;
        }
        // ages are whole seconds: a run that took long enough for a second to tick over says nothing reliable
        if t0.elapsed().as_millis() > 700 { slow += 1; t.emit(json!({"ev":"Void","run":run_no,"from":first + 1})); }
        drop(w);
        let _ = std::fs::remove_dir_all(&dir);
    }
    let n = t.finish();
    println!("{}", json!({"events": n, "runs": run_no, "slow": slow, "seed": seed}));
}

fn main() {
    if std::env::var("VERIF_LOUD").is_err() { vtrace::quiet_panics(); }
    let rt = tokio::runtime::Builder::new_current_thread().enable_all().build().expect("runtime");
    rt.block_on(run());
}
