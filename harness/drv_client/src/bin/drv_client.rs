//! C14 / C15 driver: the REAL autonomi client (`self_encryption::encrypt`, `Client::data_get_public`,
//! `data_get`, `chunk_get`, `fetch_and_decrypt_vault`, `get_vault_from_network`) over a real `Network`
//! handle whose commands are answered by this harness instead of a swarm event loop.
//!
//! The client future runs on a current-thread runtime and is polled by hand; `GetNetworkRecord`
//! commands are pulled from the (never run) `SwarmDriver` through the cfg-guarded accessor and are
//! answered only when the client is quiescent, in the order the scenario prescribes ("answer the j-th
//! oldest outstanding fetch"). No sleeps, no wall clock.
//!
//! Everything the clauses talk about is recomputed here independently of the code under test:
//! chunk addresses with this file's own SHA3-256, returned bytes compared with the bytes that went in,
//! scratchpads built byte-by-byte through a mirror struct with real BLS keys.
use ant_evm::EvmNetwork;
use ant_networking::verif_hooks::NetworkSwarmCmd;
use ant_networking::{GetRecordCfg, GetRecordError, NetworkBuilder, NetworkEvent, SwarmDriver};
use ant_protocol::storage::{try_deserialize_record, try_serialize_record, Chunk, ChunkAddress, RecordKind, Scratchpad, ScratchpadAddress};
use ant_protocol::NetworkAddress;
use autonomi::client::data::DataMapChunk;
use autonomi::Client;
use bytes::Bytes;
use libp2p::identity::Keypair;
use libp2p::kad::{Record, RecordKey};
use libp2p::PeerId;
use rand::{rngs::StdRng, Rng, SeedableRng};
use self_encryption::{DataMap, EncryptedChunk};
use serde::{Deserialize, Serialize};
use serde_json::{json, Value};
use std::collections::{BTreeSet, HashMap, HashSet, VecDeque};
use std::future::Future;
use std::task::Poll;
use tiny_keccak::{Hasher, Sha3};
use tokio::sync::{mpsc, oneshot};
use vtrace::{arg, guarded, read_ndjson, Trace};
use xor_name::XorName;

// ------------------------------------------------------------------------------------------ helpers
fn sha3(b: &[u8]) -> [u8; 32] {
    let mut h = Sha3::v256();
    let mut out = [0u8; 32];
    h.update(b);
    h.finalize(&mut out);
    out
}

/// digest -> small integer id (1-based, in order of first appearance)
#[derive(Default)]
struct Ids {
    map: HashMap<[u8; 32], usize>,
}
impl Ids {
    fn id(&mut self, bytes: &[u8]) -> usize {
        let n = self.map.len() + 1;
        *self.map.entry(sha3(bytes)).or_insert(n)
    }
}

fn err_name<E: std::fmt::Debug>(e: &E) -> String {
    let s = format!("{e:?}");
    let mut out = String::new();
    let mut depth = 0;
    // keep the chain of variant names: Network(GetRecordError(RecordNotFound)) -> Network.GetRecordError.RecordNotFound
    let mut cur = String::new();
    for c in s.chars() {
        if c.is_alphanumeric() || c == '_' {
            cur.push(c);
        } else {
            if !cur.is_empty() && cur.chars().next().map(|x| x.is_uppercase()).unwrap_or(false) && depth < 3 {
                if !out.is_empty() {
                    out.push('.');
                }
                out.push_str(&cur);
                depth += 1;
            }
            cur.clear();
            if c != '(' {
                break;
            }
        }
    }
    if !cur.is_empty() && depth < 3 && cur.chars().next().map(|x| x.is_uppercase()).unwrap_or(false) {
        if !out.is_empty() {
            out.push('.');
        }
        out.push_str(&cur);
    }
    if out.is_empty() {
        s.chars().take(40).collect()
    } else {
        out
    }
}

fn chunk_key(addr: XorName) -> RecordKey {
    NetworkAddress::from_chunk_address(ChunkAddress::new(addr)).to_record_key()
}
fn chunk_record(key: RecordKey, content: &Bytes) -> Record {
    let value = try_serialize_record(&Chunk::new(content.clone()), RecordKind::Chunk).expect("serialise chunk").to_vec();
    Record { key, value, publisher: None, expires: None }
}
fn peer(rng: &mut StdRng) -> PeerId {
    let mut seed = [0u8; 32];
    rng.fill(&mut seed);
    PeerId::from(Keypair::ed25519_from_bytes(seed).expect("ed25519 seed").public())
}

// ------------------------------------------------------------------------------ harness-served Network
struct Pending {
    key: RecordKey,
    sender: oneshot::Sender<Result<Record, GetRecordError>>,
    cfg: GetRecordCfg,
}
struct Net {
    driver: SwarmDriver,
    pending: VecDeque<Pending>,
    other_cmds: usize,
    max_out: usize,
    _events: mpsc::Receiver<NetworkEvent>,
}
impl Net {
    fn drain(&mut self) -> usize {
        let mut n = 0;
        while let Some(cmd) = self.driver.verif_try_recv_network_cmd() {
            n += 1;
            match cmd {
                NetworkSwarmCmd::GetNetworkRecord { key, sender, cfg } => self.pending.push_back(Pending { key, sender, cfg }),
                _other => self.other_cmds += 1, // dropped: the issuer sees a closed channel
            }
        }
        while let Some(_cmd) = self.driver.verif_try_recv_local_cmd() {
            n += 1;
            self.other_cmds += 1;
        }
        self.max_out = self.max_out.max(self.pending.len());
        n
    }
    /// let every spawned sender task run (they are all ready) until nothing new arrives
    async fn settle(&mut self) -> usize {
        let mut total = 0;
        let mut empty = 0;
        while empty < 3 {
            tokio::task::yield_now().await;
            let n = self.drain();
            total += n;
            if n == 0 {
                empty += 1;
            } else {
                empty = 0;
            }
        }
        total
    }
    fn reset(&mut self) {
        self.pending.clear();
        self.max_out = 0;
        self.other_cmds = 0;
    }
}

struct WakeFlag(std::sync::atomic::AtomicBool);
impl futures::task::ArcWake for WakeFlag {
    fn wake_by_ref(arc_self: &std::sync::Arc<Self>) {
        arc_self.0.store(true, std::sync::atomic::Ordering::SeqCst);
    }
}

/// Poll `fut` by hand (with a waker that only records that it was woken). When the client is
/// quiescent -- pending, not woken since the poll began (a self-wake is how FuturesUnordered and tokio's
/// cooperative budget yield in the middle of their work), and no new command after the spawned senders
/// ran -- `policy` answers one or more outstanding commands; `policy` returning false with the
/// future still pending = the client waits for something the harness does not serve.
async fn drive<F: Future, P: FnMut(&mut Net) -> bool>(net: &mut Net, fut: F, mut policy: P) -> Result<F::Output, String> {
    use std::sync::atomic::Ordering;
    tokio::pin!(fut);
    let flag = std::sync::Arc::new(WakeFlag(std::sync::atomic::AtomicBool::new(false)));
    let waker = futures::task::waker(flag.clone());
    loop {
        flag.0.store(false, Ordering::SeqCst);
        let mut cx = std::task::Context::from_waker(&waker);
        if let Poll::Ready(v) = fut.as_mut().poll(&mut cx) {
            net.settle().await;
            return Ok(v);
        }
        // settle() yields to the runtime (which also renews tokio's cooperative budget for the next poll)
        if net.settle().await > 0 || flag.0.load(Ordering::SeqCst) {
            continue;
        }
        if !policy(net) {
            return Err(format!("client future pending with {} outstanding commands and nothing to answer", net.pending.len()));
        }
    }
}

async fn guarded_async<F: Future>(fut: F) -> Result<F::Output, String> {
    use futures::FutureExt;
    match std::panic::AssertUnwindSafe(fut).catch_unwind().await {
        Ok(v) => Ok(v),
        Err(e) => Err(if let Some(s) = e.downcast_ref::<&str>() {
            s.to_string()
        } else if let Some(s) = e.downcast_ref::<String>() {
            s.clone()
        } else {
            "panic".to_string()
        }),
    }
}

// ---------------------------------------------------------------------- independent data-map reader
#[derive(Serialize, Deserialize)]
enum LevelMirror {
    First(DataMap),
    Additional(DataMap),
}

struct Structure {
    /// chunk addresses per level, top level first (the level the root data map points to), in index order
    levels: Vec<Vec<XorName>>,
    max_src: usize,
    data: Option<Bytes>,
}

/// Reference reader used for the shape of the tree and for locating chunks by (level, index); it decodes
/// the chunk wrapper of additional levels, i.e. it reads what `pack_data_map` writes.
fn structure(root: &Bytes, store: &HashMap<XorName, Bytes>) -> Result<Structure, String> {
    let mut levels = vec![];
    let mut max_src = 0;
    let mut bytes = root.clone();
    for _ in 0..12 {
        let lvl: LevelMirror = rmp_serde::from_slice(&bytes).map_err(|e| format!("level parse: {e}"))?;
        let (map, first) = match &lvl {
            LevelMirror::First(m) => (m, true),
            LevelMirror::Additional(m) => (m, false),
        };
        let mut infos: Vec<_> = map.infos().into_iter().collect();
        infos.sort_by_key(|i| i.index);
        levels.push(infos.iter().map(|i| i.dst_hash).collect::<Vec<_>>());
        max_src = max_src.max(infos.iter().map(|i| i.src_size).max().unwrap_or(0));
        let mut enc = vec![];
        for i in &infos {
            let c = store.get(&i.dst_hash).ok_or_else(|| "chunk of the data map not produced".to_string())?;
            enc.push(EncryptedChunk { index: i.index, content: c.clone() });
        }
        let data = self_encryption::decrypt_full_set(map, &enc).map_err(|e| format!("decrypt: {e}"))?;
        if first {
            return Ok(Structure { levels, max_src, data: Some(data) });
        }
        let inner: Bytes = rmp_serde::from_slice(&data).map_err(|e| format!("wrapper parse: {e}"))?;
        bytes = inner;
    }
    Err("more than 12 levels".into())
}

// ------------------------------------------------------------------------------------------- C14
#[derive(Clone, PartialEq)]
struct InputSpec {
    len: usize,
    content: String,
    seed: u64,
}
fn gen_content(s: &InputSpec) -> Bytes {
    let mut v = vec![0u8; s.len];
    match s.content.as_str() {
        "rand" => StdRng::seed_from_u64(s.seed.wrapping_mul(1_000_003).wrapping_add(s.len as u64)).fill(&mut v[..]),
        "zeros" => {}
        "rep" => {
            for (i, b) in v.iter_mut().enumerate() {
                *b = b"autonomi"[i % 8];
            }
        }
        "text" => {
            // compressible, non-periodic: decimal counters
            let mut i = 0usize;
            let mut n = s.seed;
            while i < v.len() {
                for b in format!("{n},").bytes() {
                    if i < v.len() {
                        v[i] = b;
                        i += 1;
                    }
                }
                n += 1;
            }
        }
        other => panic!("unknown content kind {other}"),
    }
    Bytes::from(v)
}

struct Encd {
    root: Chunk,
    store: HashMap<XorName, Bytes>,
    records: HashMap<RecordKey, Record>,
    st: Result<Structure, String>,
}

struct DataWorld {
    tr: Trace,
    ids: Ids,
    inputs: Vec<InputSpec>,
    max: usize,
    batch: usize, // 0 = unbounded
    client: Client,
    net: Net,
    seed: u64,
}

fn order_pick(order: &[usize], pos: usize, npending: usize) -> usize {
    // order entry j >= 1: the j-th oldest outstanding fetch (wrapped); 0: the newest
    if order.is_empty() {
        return 0;
    }
    let j = order[pos % order.len()];
    if j == 0 {
        npending - 1
    } else {
        (j - 1) % npending
    }
}

impl DataWorld {
    fn inp_id(&mut self, s: &InputSpec) -> usize {
        if let Some(i) = self.inputs.iter().position(|x| x == s) {
            return i + 1;
        }
        self.inputs.push(s.clone());
        self.inputs.len()
    }

    /// one real call of `autonomi::self_encryption::encrypt`, logged
    fn encrypt(&mut self, s: &InputSpec, data: &Bytes, cls: &str, src: &str, call: usize) -> Option<Encd> {
        let inp = self.inp_id(s);
        let d2 = data.clone();
        let r = guarded(move || autonomi::self_encryption::encrypt(d2));
        let base = json!({"ev": "Encrypt", "inp": inp, "seed": s.seed, "len": s.len, "cls": cls, "content": s.content, "max": self.max, "min": self_encryption::MIN_ENCRYPTABLE_BYTES,
                          "call": call, "src": src});
        let mut e = base.as_object().cloned().expect("object");
        let mut out = None;
        match r {
            Err(p) => {
                e.insert("res".into(), json!("panic"));
                e.insert("what".into(), json!(p.chars().take(120).collect::<String>()));
                for k in ["n", "maxsz", "maxenc", "nover", "maxsrc", "badaddr", "dm", "set", "levels", "rootsz"] {
                    e.insert(k.into(), json!(0));
                }
                e.insert("shape".into(), json!([]));
            }
            Ok(Err(err)) => {
                e.insert("res".into(), json!("err"));
                e.insert("what".into(), json!(err_name(&err)));
                for k in ["n", "maxsz", "maxenc", "nover", "maxsrc", "badaddr", "dm", "set", "levels", "rootsz"] {
                    e.insert(k.into(), json!(0));
                }
                e.insert("shape".into(), json!([]));
            }
            Ok(Ok((root, chunks))) => {
                let mut store = HashMap::new();
                let mut records = HashMap::new();
                let mut maxsz = 0;
                let maxenc = chunks.iter().map(|c| c.value().len()).max().unwrap_or(0);
                let mut nover = 0;
                let mut bad = 0;
                let mut addrs = BTreeSet::new();
                for c in chunks.iter().chain(std::iter::once(&root)) {
                    let own = XorName(sha3(c.value()));
                    if own != *c.address().xorname() {
                        bad += 1;
                    }
                    maxsz = maxsz.max(c.value().len());
                    if c.value().len() > self.max {
                        nover += 1;
                    }
                    addrs.insert(own.0);
                    store.insert(own, c.value().clone());
                    records.insert(chunk_key(own), chunk_record(chunk_key(own), c.value()));
                }
                let mut cat = vec![];
                for a in &addrs {
                    cat.extend_from_slice(a);
                }
                let st = structure(root.value(), &store);
                let (shape, maxsrc): (Vec<usize>, usize) = match &st {
                    Ok(s) => (s.levels.iter().map(|l| l.len()).collect(), s.max_src),
                    Err(_) => (vec![], 0),
                };
                e.insert("res".into(), json!("ok"));
                e.insert("what".into(), json!(match &st {
                    Ok(s) if s.data.as_ref() == Some(data) => "ref-reader-ok".to_string(),
                    Ok(_) => "ref-reader-differs".to_string(),
                    Err(x) => format!("ref-reader: {x}"),
                }));
                e.insert("refok".into(), json!(matches!(&st, Ok(s) if s.data.as_ref() == Some(data))));
                e.insert("n".into(), json!(chunks.len() + 1));
                e.insert("maxsz".into(), json!(maxsz));
                e.insert("maxenc".into(), json!(maxenc));
                e.insert("rootsz".into(), json!(root.value().len()));
                e.insert("nover".into(), json!(nover));
                e.insert("maxsrc".into(), json!(maxsrc));
                e.insert("badaddr".into(), json!(bad));
                e.insert("dm".into(), json!(self.ids.id(root.value())));
                e.insert("set".into(), json!(self.ids.id(&cat)));
                e.insert("levels".into(), json!(shape.len()));
                e.insert("shape".into(), json!(shape));
                out = Some(Encd { root, store, records, st });
            }
        }
        self.tr.emit(Value::Object(e));
        out
    }

    /// one real `data_get_public` / `data_get` with the chunk fetches answered in the prescribed order
    async fn fetch(&mut self, s: &InputSpec, data: &Bytes, enc: &Encd, api: &str, order: &[usize], burst: bool, src: &str, exp_levels: usize) {
        let inp = self.inp_id(s);
        self.net.reset();
        let client = self.client.clone();
        let root = enc.root.clone();
        let public = api == "public";
        let fut = async move {
            if public {
                client.data_get_public(*root.address().xorname()).await
            } else {
                client.data_get(DataMapChunk::from(root)).await
            }
        };
        let mut pos = 0usize;
        let mut served = 0usize;
        let mut missing = 0usize;
        let mut picked: Vec<usize> = vec![];
        let mut rounds = 0usize;
        let records = &enc.records;
        let res = drive(&mut self.net, guarded_async(fut), |net| {
            if net.pending.is_empty() {
                return false;
            }
            rounds += 1;
            let k = if burst { net.pending.len() } else { 1 };
            for _ in 0..k {
                let i = order_pick(order, pos, net.pending.len());
                pos += 1;
                if picked.len() < 48 {
                    picked.push(i + 1);
                }
                let p = net.pending.remove(i).expect("index in range");
                let ans = match records.get(&p.key) {
                    Some(r) => Ok(r.clone()),
                    None => {
                        missing += 1;
                        Err(GetRecordError::RecordNotFound)
                    }
                };
                let _ = p.sender.send(ans);
                served += 1;
            }
            true
        })
        .await;
        let resj = match res {
            Err(stuck) => json!({"k": "stuck", "e": stuck, "same": false, "rid": 0}),
            Ok(Err(p)) => json!({"k": "panic", "e": p.chars().take(120).collect::<String>(), "same": false, "rid": 0}),
            Ok(Ok(Err(e))) => json!({"k": "err", "e": err_name(&e), "same": false, "rid": 0}),
            Ok(Ok(Ok(bytes))) => json!({"k": "ok", "e": "", "same": bytes == *data, "rid": self.ids.id(&bytes)}),
        };
        let shape: Vec<usize> = enc.st.as_ref().map(|s| s.levels.iter().map(|l| l.len()).collect()).unwrap_or_default();
        self.tr.emit(json!({"ev": "Fetch", "inp": inp, "seed": s.seed, "len": s.len, "content": s.content, "api": api, "batch": self.batch, "burst": burst,
            "order": order.iter().take(48).collect::<Vec<_>>(), "picked": picked, "res": resj, "served": served, "missing": missing, "rounds": rounds,
            "maxout": self.net.max_out, "other": self.net.other_cmds, "levels": shape.len(), "explevels": exp_levels, "shape": shape, "max": self.max, "src": src}));
    }

    async fn run_input(&mut self, s: &InputSpec, cls: &str, src: &str, scheds: &[(String, Vec<usize>, bool)], exp_levels: usize) -> Option<usize> {
        let data = gen_content(s);
        let e1 = self.encrypt(s, &data, cls, src, 1);
        let _e2 = self.encrypt(s, &data, cls, src, 2);
        let enc = e1?;
        let levels = enc.st.as_ref().map(|s| s.levels.len()).unwrap_or(0);
        if exp_levels != 0 && levels != exp_levels {
            // the scenario asks for a tree depth this input does not have: not executable as prescribed
            let inp = self.inp_id(s);
            self.tr.emit(json!({"ev": "Skipped", "inp": inp, "why": format!("input has {levels} levels, scenario wants {exp_levels}"), "src": src}));
        }
        for (api, order, burst) in scheds {
            self.fetch(s, &data, &enc, api, order, *burst, src, exp_levels).await;
        }
        Some(levels)
    }

    fn levels_of(&mut self, nchunks: usize, content: &str) -> usize {
        let s = InputSpec { len: nchunks * self.max, content: content.into(), seed: self.seed };
        let data = gen_content(&s);
        match autonomi::self_encryption::encrypt(data) {
            Ok((root, chunks)) => {
                let mut store = HashMap::new();
                for c in chunks.iter() {
                    store.insert(XorName(sha3(c.value())), c.value().clone());
                }
                // a tree that cannot be walked with the chunks `encrypt` handed out counts as "deep": it must be
                // selected and judged, not skipped
                structure(root.value(), &store).map(|s| s.levels.len()).unwrap_or(99)
            }
            Err(_) => 0,
        }
    }
    /// smallest chunk count (multiple of MAX bytes) whose tree has at least `want` levels, searched in [lo, hi]
    fn first_with_levels(&mut self, want: usize, mut lo: usize, mut hi: usize) -> Option<usize> {
        if self.levels_of(hi, "rand") < want {
            return None;
        }
        while lo < hi {
            let mid = (lo + hi) / 2;
            if self.levels_of(mid, "rand") >= want {
                hi = mid;
            } else {
                lo = mid + 1;
            }
        }
        Some(lo)
    }
}

fn rand_order(rng: &mut StdRng, n: usize) -> Vec<usize> {
    (0..n).map(|_| rng.gen_range(0..9usize)).collect()
}

async fn data_mode(out: &str, scenarios: Option<String>, classes: bool, random: usize, thorough: bool) {
    let seed = vtrace::seed_from_env();
    let max = *self_encryption::MAX_CHUNK_SIZE;
    let batch_env: usize = std::env::var("CHUNK_DOWNLOAD_BATCH_SIZE").ok().and_then(|s| s.parse().ok()).expect("CHUNK_DOWNLOAD_BATCH_SIZE must be set");
    assert_eq!(*autonomi::client::data::CHUNK_DOWNLOAD_BATCH_SIZE, batch_env);
    let batch = if batch_env >= 100_000 { 0 } else { batch_env };
    let (client, net) = make_client(seed);
    let mut w = DataWorld { tr: Trace::create(out), ids: Ids::default(), inputs: vec![], max, batch, client, net, seed };
    let small = max <= 65536;
    let mut rng = StdRng::seed_from_u64(seed ^ 0xC14);
    w.tr.emit(json!({"ev": "Config", "max": max, "batch": batch, "min": self_encryption::MIN_ENCRYPTABLE_BYTES, "seed": seed, "small": small}));

    // replay of explicit inputs + schedules (bin/check replay)
    if let Some(path) = arg("--replay") {
        for r in read_ndjson(&path) {
            let s = InputSpec { len: r["len"].as_u64().expect("len") as usize, content: r["content"].as_str().expect("content").into(), seed: r["seed"].as_u64().expect("seed") };
            let scheds: Vec<(String, Vec<usize>, bool)> = r["scheds"]
                .as_array()
                .expect("scheds")
                .iter()
                .map(|x| {
                    (x["api"].as_str().expect("api").to_string(), x["order"].as_array().expect("order").iter().map(|j| j.as_u64().expect("j") as usize).collect(), x["burst"].as_bool().unwrap_or(false))
                })
                .collect();
            w.run_input(&s, "replay", "replay", &scheds, 0).await;
        }
        w.tr.finish();
        return;
    }

    // lengths with 2 and 3 levels (small build only)
    let (n2, n3) = if small {
        let n2 = w.first_with_levels(2, 3, 4 * (max / 64).max(8));
        let n3 = n2.and_then(|n2| w.first_with_levels(3, n2, (n2 + 2) * (n2 + 2) * 2));
        (n2, n3)
    } else {
        (None, None)
    };
    w.tr.emit(json!({"ev": "Probe", "n2": n2.unwrap_or(0), "n3": n3.unwrap_or(0), "max": max}));
    // The search above asks the implementation how deep its trees are. If it never builds a tree of 2 (3) levels
    // inside the searched range -- where the data map cannot fit one chunk otherwise -- the input at the end of
    // the range is judged as it is (chunk bound, addressing, round trip), whatever its depth.
    if small {
        let hi2 = 4 * (max / 64).max(8);
        let fallback = match (n2, n3) {
            (None, _) => Some(hi2),
            (Some(n2), None) => Some((n2 + 2) * (n2 + 2) * 2),
            _ => None,
        };
        if let Some(n) = fallback {
            let s = InputSpec { len: n * max, content: "rand".into(), seed };
            w.run_input(&s, "depth-fallback", "class", &[("public".to_string(), vec![], false)], 0).await;
        }
    }

    // (a0) root data-map size boundary (small build): the serialised first-level data map of an input of n2-1 chunks is
    // about MAX bytes long and varies with the chunk hashes (msgpack writes a byte >= 128 in two bytes). Sweep seeded
    // inputs of that chunk count until the serialised map is exactly MAX-1, MAX and MAX+1 bytes (fits / fits exactly /
    // must be packed into a second level); the inputs found are then judged like every other input. The search itself
    // uses the crate's encrypt and this file's mirror of DataMapLevel; misses are recorded.
    if let (true, true, Some(n2)) = (small, classes, n2) {
        let targets = [max - 1, max, max + 1];
        let mut found: Vec<Option<InputSpec>> = vec![None, None, None];
        let mut closest: Vec<i64> = vec![i64::MAX, i64::MAX, i64::MAX];
        let mut tries = 0usize;
        let budget = if thorough { 4000 } else { 600 };
        'sweep: for nchunks in [n2 - 1, n2, n2.saturating_sub(2).max(3)] {
            for t in 0..budget {
                if found.iter().all(|f| f.is_some()) {
                    break 'sweep;
                }
                let s = InputSpec { len: nchunks * max - (t % 5), content: "rand".into(), seed: seed.wrapping_add(5000 + t as u64) };
                let Ok((map, _chunks)) = self_encryption::encrypt(gen_content(&s)) else { continue };
                let Ok(ser) = rmp_serde::to_vec(&LevelMirror::First(map)) else { continue };
                tries += 1;
                for (i, want) in targets.iter().enumerate() {
                    let d = ser.len() as i64 - *want as i64;
                    if d.abs() < closest[i].abs() {
                        closest[i] = d;
                    }
                    if d == 0 && found[i].is_none() {
                        found[i] = Some(s.clone());
                    }
                }
            }
        }
        w.tr.emit(json!({"ev": "RootSweep", "max": max, "tries": tries, "targets": targets, "found": found.iter().map(|f| f.as_ref().map(|s| s.len).unwrap_or(0)).collect::<Vec<_>>(),
            "closest": closest.iter().map(|d| if *d == i64::MAX { 99999 } else { *d }).collect::<Vec<_>>()}));
        for (i, f) in found.iter().enumerate() {
            if let Some(s) = f {
                let cls = ["rootsz-M-1", "rootsz-M", "rootsz-M+1"][i];
                w.run_input(s, cls, "class", &[("public".to_string(), vec![1usize], false), ("private".to_string(), vec![0usize], true)], 0).await;
            }
        }
    }

    // (a) TLC scenarios: levels, n1 (for one-level trees), api, batch, order
    if let Some(path) = scenarios {
        for (i, sc) in read_ndjson(&path).into_iter().enumerate() {
            let b = sc["batch"].as_u64().expect("batch") as usize;
            if b != batch {
                continue;
            }
            let levels = sc["levels"].as_u64().expect("levels") as usize;
            let n1 = sc["n1"].as_u64().expect("n1") as usize;
            let api = sc["api"].as_str().expect("api").to_string();
            let order: Vec<usize> = sc["order"].as_array().expect("order").iter().map(|x| x.as_u64().expect("j") as usize).collect();
            let len = match levels {
                0 => n1, // too small: n1 is the byte length
                1 if n1 == 3 => 3 * max,
                1 if !small && n1 > 5 => continue,
                1 if n1 >= n2.unwrap_or(usize::MAX) => continue,
                1 => (n1 - 1) * max + 1,
                2 if n2.is_some() => n2.expect("n2") * max,
                3 if n3.is_some() => n3.expect("n3") * max,
                _ => continue,
            };
            if !small && !thorough && i % 7 != 0 && levels == 1 {
                continue; // default build, quick tier: a sample of the one-level schedules (3-5 MiB each)
            }
            let s = InputSpec { len, content: "rand".into(), seed };
            let burst = i % 5 == 4;
            w.run_input(&s, &format!("tlc-l{levels}-n{n1}"), "tlc", &[(api, order, burst)], levels).await;
        }
    }

    // (b) size-class boundaries x contents x a few schedules
    if classes {
        let mut lens: Vec<(usize, String)> = vec![];
        for l in 0..=5usize {
            lens.push((l, format!("tiny{l}")));
        }
        let ks: Vec<usize> = if small { vec![3, 4, 5, 7] } else { vec![3, 4] };
        for k in ks {
            for d in [-1i64, 0, 1] {
                if !small && k == 4 && d != 1 && !thorough {
                    continue;
                }
                lens.push((k * max + (d + 1) as usize - 1, format!("{k}M{d:+}")));
            }
        }
        lens.push((max, "1M".into()));
        lens.push((2 * max + 1, "2M+1".into()));
        if let Some(n2) = n2 {
            for d in [-2i64, -1, 0, 1] {
                let n = (n2 as i64 + d) as usize;
                lens.push((n * max, format!("L2{d:+}")));
            }
            lens.push((n2 * max + 1, "L2+1B".into()));
            lens.push((2 * n2 * max + 17, "2xL2".into()));
        }
        if let Some(n3) = n3 {
            for d in [-1i64, 0] {
                let n = (n3 as i64 + d) as usize;
                lens.push((n * max, format!("L3{d:+}")));
            }
            if thorough {
                lens.push(((n3 + 1) * max + 5, "L3+1".into()));
            }
        }
        for (len, cls) in lens {
            let contents: Vec<&str> = if len > 64 * max && !thorough { vec!["rand", "text"] } else { vec!["rand", "zeros", "rep", "text"] };
            for content in contents {
                if !small && content == "rep" {
                    continue;
                }
                let s = InputSpec { len, content: content.into(), seed };
                let mut scheds = vec![("public".to_string(), vec![1usize], false)];
                if content == "rand" || thorough {
                    scheds.push(("private".to_string(), vec![0usize], false));
                    scheds.push(("public".to_string(), rand_order(&mut rng, 37), false));
                    scheds.push(("private".to_string(), rand_order(&mut rng, 41), true));
                }
                if !small && !thorough {
                    scheds.truncate(2);
                }
                w.run_input(&s, &cls, "class", &scheds, 0).await;
            }
        }
    }

    // (c) seeded random lengths
    for _ in 0..random {
        let hi = if small { 70 * max } else { 4 * max };
        let len = match rng.gen_range(0..4) {
            0 => rng.gen_range(0..8usize),
            1 => rng.gen_range(3..4 * max),
            2 => rng.gen_range(3..8usize) * max + rng.gen_range(0..3usize) - 1,
            _ => rng.gen_range(3..hi),
        };
        let content = ["rand", "rand", "text", "rep"][rng.gen_range(0..4)];
        let s = InputSpec { len, content: content.into(), seed: seed + rng.gen_range(0..1000u64) };
        let api = if rng.gen_bool(0.5) { "public" } else { "private" };
        let scheds = vec![(api.to_string(), rand_order(&mut rng, 29), rng.gen_bool(0.3)), (api.to_string(), rand_order(&mut rng, 31), false)];
        w.run_input(&s, "random", "random", &scheds, 0).await;
    }
    w.tr.finish();
}

fn make_client(seed: u64) -> (Client, Net) {
    let mut s = [0u8; 32];
    StdRng::seed_from_u64(seed ^ 0x5eed).fill(&mut s);
    let kp = Keypair::ed25519_from_bytes(s).expect("seed");
    let (network, events, driver) = NetworkBuilder::new(kp, true).build_client().expect("build_client");
    let client = Client::verif_from_network(network, EvmNetwork::default());
    (client, Net { driver, pending: VecDeque::new(), other_cmds: 0, max_out: 0, _events: events })
}

// ------------------------------------------------------------------------------------------- C15
/// byte-for-byte mirror of `ant_protocol::storage::Scratchpad` (fields are private there): lets the
/// harness play a holder that returns arbitrary pads
#[derive(Serialize)]
struct PadMirror {
    address: ScratchpadAddress,
    data_encoding: u64,
    encrypted_data: Bytes,
    counter: u64,
    signature: Option<bls::Signature>,
}
fn signing_bytes(counter: u64, enc: &Bytes) -> Vec<u8> {
    let mut b = counter.to_be_bytes().to_vec();
    b.extend_from_slice(&sha3(enc));
    b
}

struct PadKind {
    name: &'static str,
    record: Record,
    plain: Bytes,
    /// content type (data_encoding) of the pad in the record
    ctype: u64,
}

/// reply kinds of a vault read (ClientAuth.tla PadKinds). "encoding" takes part only with VERIF_ENABLE_ENCODING=1.
const PAD_KINDS_BASE: [&str; 15] = [
    "valid1", "valid2", "valid3", "unsigned", "badsig", "inflated", "foreign", "wrongkey", "wrongkind", "paidforeign", "paidunsigned", "paidinflated", "padbody-chunkhdr", "swapdata",
    "valid3b",
];
fn encoding_enabled() -> bool {
    std::env::var("VERIF_ENABLE_ENCODING").map(|v| v == "1").unwrap_or(false)
}
fn pad_kinds() -> Vec<&'static str> {
    let mut v = PAD_KINDS_BASE.to_vec();
    if encoding_enabled() {
        v.push("encoding");
    }
    v
}
/// the content type a holder writes into the "encoding" version (the owner wrote 0)
const TAMPERED_CTYPE: u64 = 7;
const CHUNK_KINDS: [&str; 7] = ["authentic", "wrongcontent", "wrongkey", "wrongkind", "padkind", "paidkind", "paidsubst"];
/// a with-payment record wrapping (a proof of payment without quotes, a chunk of `bytes`)
fn paid_wrapped(key: libp2p::kad::RecordKey, bytes: &Bytes) -> Record {
    let proof = ant_evm::ProofOfPayment { peer_quotes: vec![] };
    let value = try_serialize_record(&(proof, Chunk::new(bytes.clone())), RecordKind::ChunkWithPayment).expect("ser").to_vec();
    Record { key, value, publisher: None, expires: None }
}

fn build_pads(owner: &bls::SecretKey, other: &bls::SecretKey) -> Vec<PadKind> {
    let pk = owner.public_key();
    let pk2 = other.public_key();
    let key = NetworkAddress::from_scratchpad_address(ScratchpadAddress::new(pk)).to_record_key();
    let key2 = NetworkAddress::from_scratchpad_address(ScratchpadAddress::new(pk2)).to_record_key();
    // the version the tampered ones are made from
    let plain3 = Bytes::from("pad:valid3".to_string());
    let enc3 = Bytes::from(pk.encrypt(&plain3).to_bytes());
    let sig3 = owner.sign(signing_bytes(3, &enc3));
    let mut out = vec![];
    for name in pad_kinds() {
        let mut plain = Bytes::from(format!("pad:{name}"));
        // always readable by the requesting owner: a holder needs only the public key to encrypt
        let mut enc = Bytes::from(pk.encrypt(&plain).to_bytes());
        let mut ctype = 0u64;
        let mut header = RecordKind::Scratchpad;
        let (addr_owner, counter, sig, rkey) = match name {
            "valid1" => (pk, 1, Some(owner.sign(signing_bytes(1, &enc))), key.clone()),
            "valid2" => (pk, 2, Some(owner.sign(signing_bytes(2, &enc))), key.clone()),
            "valid3" => {
                enc = enc3.clone();
                (pk, 3, Some(sig3.clone()), key.clone())
            }
            "unsigned" => (pk, 5, None, key.clone()),
            "badsig" => (pk, 6, Some(other.sign(signing_bytes(6, &enc))), key.clone()),
            // the most extreme inflation: the largest counter value there is (boundary member of the class)
            "inflated" => (pk, u64::MAX, Some(owner.sign(signing_bytes(2, &enc))), key.clone()),
            "foreign" => (pk2, 7, Some(other.sign(signing_bytes(7, &enc))), key.clone()),
            "wrongkey" => (pk2, 8, Some(other.sign(signing_bytes(8, &enc))), key2.clone()),
            "wrongkind" => {
                out.push(PadKind { name, record: chunk_record(key.clone(), &plain), plain, ctype });
                continue;
            }
            // well-formed (proof, pad) pairs under the with-payment header
            "paidforeign" => {
                header = RecordKind::ScratchpadWithPayment;
                (pk2, 7, Some(other.sign(signing_bytes(7, &enc))), key.clone())
            }
            "paidunsigned" => {
                header = RecordKind::ScratchpadWithPayment;
                (pk, 5, None, key.clone())
            }
            "paidinflated" => {
                header = RecordKind::ScratchpadWithPayment;
                (pk, u64::MAX, Some(owner.sign(signing_bytes(2, &enc))), key.clone())
            }
            // the body of an (unsigned) pad behind a Chunk header
            "padbody-chunkhdr" => {
                header = RecordKind::Chunk;
                (pk, 4, None, key.clone())
            }
            // counter and signature of valid3 over other encrypted data
            "swapdata" => (pk, 3, Some(sig3.clone()), key.clone()),
            // valid3 (same counter, data and signature) with the content type changed
            "encoding" => {
                plain = plain3.clone();
                enc = enc3.clone();
                ctype = TAMPERED_CTYPE;
                (pk, 3, Some(sig3.clone()), key.clone())
            }
            // a second validly signed version with the highest counter
            "valid3b" => (pk, 3, Some(owner.sign(signing_bytes(3, &enc))), key.clone()),
            _ => unreachable!(),
        };
        let m = PadMirror { address: ScratchpadAddress::new(addr_owner), data_encoding: ctype, encrypted_data: enc, counter, signature: sig };
        let value = if header == RecordKind::ScratchpadWithPayment {
            let proof = ant_evm::ProofOfPayment { peer_quotes: vec![] };
            try_serialize_record(&(proof, m), header).expect("serialise paid pad").to_vec()
        } else {
            try_serialize_record(&m, header).expect("serialise pad").to_vec()
        };
        out.push(PadKind { name, record: Record { key: rkey, value, publisher: None, expires: None }, plain, ctype });
    }
    // self-check of the mirror against the real type
    for p in &out {
        if p.name == "wrongkind" {
            continue;
        }
        let want_valid = matches!(p.name, "valid1" | "valid2" | "valid3" | "foreign" | "wrongkey" | "paidforeign" | "valid3b" | "encoding");
        let want_owner = if matches!(p.name, "foreign" | "wrongkey" | "paidforeign") { pk2 } else { pk };
        let real: Scratchpad = if p.name.starts_with("paid") {
            // a (proof, pad) pair is not a bare pad ...
            assert!(try_deserialize_record::<Scratchpad>(&p.record).is_err(), "self-check: {} parses as a bare pad", p.name);
            // ... but it is the well-formed pair a node stores
            let (_proof, pad): (ant_evm::ProofOfPayment, Scratchpad) = try_deserialize_record(&p.record).expect("paid pad must deserialise as (proof, pad)");
            pad
        } else {
            try_deserialize_record(&p.record).expect("mirror must deserialise as the real Scratchpad")
        };
        assert_eq!(real.is_valid(), want_valid, "mirror self-check: is_valid of {}", p.name);
        assert_eq!(*real.owner(), want_owner, "mirror self-check: owner of {}", p.name);
        assert_eq!(real.decrypt_data(owner).expect("decrypt"), p.plain);
        assert_eq!(real.data_encoding(), p.ctype);
    }
    out
}

/// a std HashMap holding `entries` that ITERATES in the order of `entries`: rebuilt with a fresh RandomState until it
/// does (the iteration order of a small map is a function of the hasher's random keys). Returns the map and the order
/// it really iterates in (indices into `entries`).
fn ordered_map<V: Clone>(entries: &[(XorName, V)]) -> (HashMap<XorName, V>, Vec<usize>) {
    let mut last = None;
    for _ in 0..200_000 {
        let mut m = HashMap::new();
        for (k, v) in entries {
            m.insert(*k, v.clone());
        }
        if m.len() == entries.len() && m.keys().zip(entries.iter()).all(|(a, (b, _))| a == b) {
            return (m, (0..entries.len()).collect());
        }
        last = Some(m);
    }
    let m = last.expect("at least one attempt");
    let order = m.keys().map(|k| entries.iter().position(|(b, _)| b == k).expect("own key")).collect();
    (m, order)
}

/// the answer of the network layer's event loop for outcome `oc`, and (for a split) the kinds in the order in which
/// the delivered result map iterates
fn outcome_answer(rng: &mut StdRng, oc: &Value, rec_of: &dyn Fn(&str) -> Record) -> (Result<Record, GetRecordError>, Vec<String>) {
    let ans = match oc["k"].as_str().expect("outcome kind") {
        "Ok" => Ok(rec_of(oc["v"].as_str().expect("v"))),
        "NotFound" => Err(GetRecordError::RecordNotFound),
        "Timeout" => Err(GetRecordError::QueryTimeout),
        "NotEnough" => Err(GetRecordError::NotEnoughCopies { record: rec_of(oc["v"].as_str().expect("v")), expected: 3, got: 1 }),
        "Split" => {
            let mut entries = vec![];
            let mut names = vec![];
            for v in oc["vs"].as_array().expect("vs") {
                let name = v.as_str().expect("v");
                let rec = rec_of(name);
                let mut peers = HashSet::new();
                peers.insert(peer(rng));
                entries.push((XorName::from_content(&rec.value), (rec, peers)));
                names.push(name.to_string());
            }
            let (result_map, order) = ordered_map(&entries);
            let realised = order.iter().map(|i| names[*i].clone()).collect();
            return (Err(GetRecordError::SplitRecord { result_map }), realised);
        }
        other => panic!("unknown outcome {other}"),
    };
    (ans, vec![])
}

struct AuthWorld {
    tr: Trace,
    client: Client,
    net: Net,
    rng: StdRng,
    pads: Vec<PadKind>,
    owner: bls::SecretKey,
    // chunk world: X (requested) and Y (other content)
    x: Bytes,
    y: Bytes,
}

impl AuthWorld {
    fn pad_record(&self, name: &str) -> Record {
        self.pads.iter().find(|p| p.name == name).unwrap_or_else(|| panic!("pad kind {name}")).record.clone()
    }
    /// which of the pads came back: identified by the decrypted data AND the content type
    fn pad_of_bytes(&self, value_or_plain: &[u8], ctype: u64) -> String {
        for p in &self.pads {
            if p.plain == value_or_plain && p.ctype == ctype {
                return p.name.to_string();
            }
        }
        "unknown".into()
    }
    fn chunk_reply(&self, kind: &str) -> Record {
        let ax = XorName(sha3(&self.x));
        let ay = XorName(sha3(&self.y));
        match kind {
            "authentic" => chunk_record(chunk_key(ax), &self.x),
            "wrongcontent" => chunk_record(chunk_key(ax), &self.y),
            "wrongkey" => chunk_record(chunk_key(ay), &self.y),
            "wrongkind" => {
                let value = try_serialize_record(&Chunk::new(self.x.clone()), RecordKind::Register).expect("ser").to_vec();
                Record { key: chunk_key(ax), value, publisher: None, expires: None }
            }
            "paidkind" => {
                let value = try_serialize_record(&Chunk::new(self.x.clone()), RecordKind::ChunkWithPayment).expect("ser").to_vec();
                Record { key: chunk_key(ax), value, publisher: None, expires: None }
            }
            "padkind" => {
                let mut r = self.pad_record("valid2");
                r.key = chunk_key(ax);
                r
            }
            "paidsubst" => paid_wrapped(chunk_key(ax), &self.y),
            other => panic!("chunk reply kind {other}"),
        }
    }

    async fn chunk_get(&mut self, oc: &Value, src: &str) {
        self.net.reset();
        let client = self.client.clone();
        let ax = XorName(sha3(&self.x));
        let ay = XorName(sha3(&self.y));
        let (ans, order) = {
            let me = &*self;
            let mut rng = me.rng.clone();
            outcome_answer(&mut rng, oc, &|k| me.chunk_reply(k))
        };
        let mut ans = Some(ans);
        let mut asked_key_ok = true;
        let want_key = chunk_key(ax);
        let res = drive(&mut self.net, guarded_async(async move { client.chunk_get(ax).await }), |net| {
            let Some(p) = net.pending.pop_front() else { return false };
            if p.key != want_key {
                asked_key_ok = false;
            }
            let a = ans.take().unwrap_or(Err(GetRecordError::RecordNotFound));
            let _ = p.sender.send(a);
            let _ = &p.cfg;
            true
        })
        .await;
        let resj = match res {
            Err(stuck) => json!({"k": "stuck", "e": stuck, "addr": 0}),
            Ok(Err(p)) => json!({"k": "panic", "e": p.chars().take(120).collect::<String>(), "addr": 0}),
            Ok(Ok(Err(e))) => json!({"k": "err", "e": err_name(&e), "addr": 0}),
            Ok(Ok(Ok(chunk))) => {
                let h = XorName(sha3(chunk.value()));
                json!({"k": "ok", "e": "", "addr": if h == ax { 1 } else if h == ay { 2 } else { 0 }})
            }
        };
        self.tr.emit(json!({"ev": "ChunkGet", "req": 1, "outcome": oc, "order": order, "res": resj, "keyok": asked_key_ok, "src": src}));
    }

    async fn vault_get(&mut self, api: &str, oc: &Value, src: &str) {
        self.net.reset();
        let client = self.client.clone();
        let (ans, order) = {
            let me = &*self;
            let mut rng = me.rng.clone();
            outcome_answer(&mut rng, oc, &|k| me.pad_record(k))
        };
        let _ = self.rng.gen::<u64>();
        let mut ans = Some(ans);
        let want_key = NetworkAddress::from_scratchpad_address(ScratchpadAddress::new(self.owner.public_key())).to_record_key();
        let mut asked_key_ok = true;
        let sk = self.owner.clone();
        let decrypt = api == "decrypt";
        let fut = async move {
            if decrypt {
                client.fetch_and_decrypt_vault(&sk).await.map(|(b, ctype)| (b, 0u64, ctype))
            } else {
                client.verif_get_vault_from_network(&sk).await.map(|pad| {
                    let plain = pad.decrypt_data(&sk).unwrap_or_default();
                    (plain, pad.count(), pad.data_encoding())
                })
            }
        };
        let res = drive(&mut self.net, guarded_async(fut), |net| {
            let Some(p) = net.pending.pop_front() else { return false };
            if p.key != want_key {
                asked_key_ok = false;
            }
            let a = ans.take().unwrap_or(Err(GetRecordError::RecordNotFound));
            let _ = p.sender.send(a);
            true
        })
        .await;
        let resj = match res {
            Err(stuck) => json!({"k": "stuck", "e": stuck, "pad": "none", "count": 0, "ctype": 0}),
            Ok(Err(p)) => json!({"k": "panic", "e": p.chars().take(120).collect::<String>(), "pad": "none", "count": 0, "ctype": 0}),
            Ok(Ok(Err(e))) => json!({"k": "err", "e": err_name(&e), "pad": "none", "count": 0, "ctype": 0}),
            // ctype: the content type handed to the caller (small values only; anything else is logged as 99)
            Ok(Ok(Ok((plain, count, ctype)))) => json!({"k": "ok", "e": "", "pad": self.pad_of_bytes(&plain, ctype), "count": count, "ctype": ctype.min(99)}),
        };
        // order: the order in which the delivered split map really iterates (= outcome.vs unless the rebuild gave up)
        self.tr.emit(json!({"ev": "VaultGet", "api": api, "owner": 1, "outcome": oc, "order": order, "res": resj, "keyok": asked_key_ok, "src": src}));
    }
}

/// data_get_public (api "public") / data_get with the data map in hand (api "private") of D1 with ONE position of its
/// tree answered by an adversarial holder
#[allow(clippy::too_many_arguments)]
async fn data_get_subst(w: &mut AuthWorld, d1: &Bytes, e1: &Encd, d2: &Bytes, e2: &Encd, api: &str, lvl: &str, idx: &str, kind: &str, src: &str) {
    w.net.reset();
    let (Ok(s1), Ok(s2)) = (&e1.st, &e2.st) else {
        w.tr.emit(json!({"ev": "Skipped", "why": "tree of the input not readable by the reference reader", "src": src}));
        return;
    };
    let nl = s1.levels.len();
    if api == "private" && lvl == "root" {
        w.tr.emit(json!({"ev": "Skipped", "why": "the private read does not fetch the root", "src": src}));
        return;
    }
    let sibling = kind.starts_with("sibling");
    // target position -> (address in D1, replacement content: from D2 at the same position, or -- sibling kinds -- the
    // content of ANOTHER chunk of D1's own tree)
    let (target, repl): (XorName, Bytes) = if lvl == "root" {
        (*e1.root.address().xorname(), if sibling { e1.store[&s1.levels[0][0]].clone() } else { e2.root.value().clone() })
    } else {
        let li = match lvl {
            "top" => 0,
            "bottom" => nl - 1,
            _ => panic!("lvl {lvl}"),
        };
        if s2.levels.len() != nl {
            w.tr.emit(json!({"ev": "Skipped", "why": "the two inputs have different tree depths", "src": src}));
            return;
        }
        let n = s1.levels[li].len().min(s2.levels[li].len());
        let i = match idx {
            "first" => 0,
            "last" => n - 1,
            _ => n / 2,
        };
        let repl = if sibling { e1.store[&s1.levels[li][(i + 1) % s1.levels[li].len()]].clone() } else { e2.store[&s2.levels[li][i]].clone() };
        (s1.levels[li][i], repl)
    };
    let tkey = chunk_key(target);
    let client = w.client.clone();
    let addr = *e1.root.address().xorname();
    let root = e1.root.clone();
    let public = api == "public";
    let mut hit = false;
    let mut served = 0usize;
    let r1 = &e1.records;
    let r2 = &e2.records;
    let fut = async move {
        if public {
            client.data_get_public(addr).await
        } else {
            client.data_get(DataMapChunk::from(root)).await
        }
    };
    let res = drive(&mut w.net, guarded_async(fut), |net| {
        let Some(p) = net.pending.pop_front() else { return false };
        served += 1;
        let ans = if p.key == tkey && !hit {
            hit = true;
            match kind {
                "authentic" => Ok(r1[&p.key].clone()),
                "wrongcontent" | "sibling" => Ok(chunk_record(p.key.clone(), &repl)),
                "wrongkey" | "siblingkey" => Ok(chunk_record(chunk_key(XorName(sha3(&repl))), &repl)),
                "wrongkind" => Ok(Record { key: p.key.clone(), value: try_serialize_record(&Chunk::new(repl.clone()), RecordKind::Register).expect("ser").to_vec(), publisher: None, expires: None }),
                "missing" => Err(GetRecordError::RecordNotFound),
                "paidsubst" => Ok(paid_wrapped(p.key.clone(), &repl)),
                other => panic!("kind {other}"),
            }
        } else {
            // every other chunk (of either data) is served honestly
            match r1.get(&p.key).or_else(|| r2.get(&p.key)) {
                Some(r) => Ok(r.clone()),
                None => Err(GetRecordError::RecordNotFound),
            }
        };
        let _ = p.sender.send(ans);
        true
    })
    .await;
    let resj = match res {
        Err(stuck) => json!({"k": "stuck", "e": stuck, "data": 0}),
        Ok(Err(p)) => json!({"k": "panic", "e": p.chars().take(120).collect::<String>(), "data": 0}),
        Ok(Ok(Err(e))) => json!({"k": "err", "e": err_name(&e), "data": 0}),
        Ok(Ok(Ok(b))) => json!({"k": "ok", "e": "", "data": if b == *d1 { 1 } else if b == *d2 { 2 } else { 0 }}),
    };
    w.tr.emit(json!({"ev": "DataGet", "api": api, "req": 1, "levels": nl, "lvl": lvl, "idx": idx, "kind": kind, "hit": hit, "served": served, "res": resj, "src": src}));
}

fn plain_encrypt(data: &Bytes) -> Option<Encd> {
    let (root, chunks) = autonomi::self_encryption::encrypt(data.clone()).ok()?;
    let mut store = HashMap::new();
    let mut records = HashMap::new();
    for c in chunks.iter().chain(std::iter::once(&root)) {
        let own = XorName(sha3(c.value()));
        store.insert(own, c.value().clone());
        records.insert(chunk_key(own), chunk_record(chunk_key(own), c.value()));
    }
    let st = structure(root.value(), &store);
    Some(Encd { root, store, records, st })
}

async fn auth_mode(out: &str, cases: Option<String>, random: usize) {
    // which api runs the split cases that are a NON-first iteration order of their version set (both | get | decrypt):
    // the vault read does not depend on the build, so the two builds may share that work
    let perm_api = arg("--perm-api").unwrap_or_else(|| "both".into());
    // ... and this run takes the k-th of every n such cases ("k/n", default all)
    let (perm_k, perm_n): (usize, usize) = arg("--perm-part")
        .map(|s| {
            let (k, n) = s.split_once('/').expect("--perm-part k/n");
            (k.parse().expect("k"), n.parse().expect("n"))
        })
        .unwrap_or((0, 1));
    let mut perm_seen = 0usize;
    let kinds = pad_kinds();
    let seed = vtrace::seed_from_env();
    let max = *self_encryption::MAX_CHUNK_SIZE;
    let small = max <= 65536;
    let (client, net) = make_client(seed);
    let mut rng = StdRng::seed_from_u64(seed ^ 0xC15);
    // the vault owner key is derived exactly as the client derives it: from an EVM secret key
    let mut evm = [0u8; 32];
    rng.fill(&mut evm);
    evm[0] &= 0x7f;
    evm[31] |= 1;
    let owner = autonomi::client::vault::derive_vault_key(&hex::encode(evm)).expect("derive_vault_key");
    let other = bls::SecretKey::random();
    let pads = build_pads(&owner, &other);
    let mut xb = vec![0u8; 300];
    rng.fill(&mut xb[..]);
    let mut yb = vec![0u8; 200];
    rng.fill(&mut yb[..]);
    let mut w = AuthWorld { tr: Trace::create(out), client, net, rng, pads, owner, x: Bytes::from(xb), y: Bytes::from(yb) };
    w.tr.emit(json!({"ev": "Config", "max": max, "seed": seed, "small": small, "padkinds": kinds, "chunkkinds": CHUNK_KINDS, "encoding": encoding_enabled(), "permapi": perm_api, "permpart": [perm_k, perm_n]}));

    // inputs for data_get_public substitution: one tree per reachable depth, two data of equal length each
    let mut trees: Vec<(Bytes, Encd, Bytes, Encd)> = vec![];
    {
        let mut lens = vec![3 * max + 1];
        if small {
            let dw_probe = |n: usize| -> usize {
                let s = InputSpec { len: n * max, content: "rand".into(), seed };
                plain_encrypt(&gen_content(&s)).and_then(|e| e.st.ok().map(|s| s.levels.len())).unwrap_or(0)
            };
            // first chunk count with 2 levels
            let mut lo = 3usize;
            let mut hi = 4 * (max / 64).max(8);
            if dw_probe(hi) >= 2 {
                while lo < hi {
                    let mid = (lo + hi) / 2;
                    if dw_probe(mid) >= 2 {
                        hi = mid;
                    } else {
                        lo = mid + 1;
                    }
                }
                lens.push((lo + 1) * max + 3);
                let n2 = lo;
                let mut lo3 = n2;
                let mut hi3 = (n2 + 2) * (n2 + 2) * 2;
                if dw_probe(hi3) >= 3 {
                    while lo3 < hi3 {
                        let mid = (lo3 + hi3) / 2;
                        if dw_probe(mid) >= 3 {
                            hi3 = mid;
                        } else {
                            lo3 = mid + 1;
                        }
                    }
                    lens.push((lo3 + 1) * max + 3);
                }
            }
        }
        for len in lens {
            let d1 = gen_content(&InputSpec { len, content: "rand".into(), seed });
            let d2 = gen_content(&InputSpec { len, content: "rand".into(), seed: seed + 77 });
            if let (Some(e1), Some(e2)) = (plain_encrypt(&d1), plain_encrypt(&d2)) {
                trees.push((d1, e1, d2, e2));
            }
        }
    }

    let cases: Vec<Value> = cases.map(|p| read_ndjson(&p)).unwrap_or_default();
    for c in &cases {
        match c["op"].as_str().expect("op") {
            "ChunkGet" => w.chunk_get(&c["outcome"], "tlc").await,
            "VaultGet" => {
                let vs: Vec<&str> = c["outcome"]["vs"].as_array().map(|a| a.iter().filter_map(|x| x.as_str()).collect()).unwrap_or_default();
                let v1 = c["outcome"]["v"].as_str().unwrap_or("");
                if vs.iter().chain(std::iter::once(&v1)).any(|k| !k.is_empty() && !kinds.contains(k)) {
                    continue; // a reply kind that is not enabled in this run
                }
                let mut sorted = vs.clone();
                sorted.sort();
                let first_order = sorted == vs;
                let mut mine = true;
                if !first_order {
                    mine = perm_seen % perm_n == perm_k;
                    perm_seen += 1;
                }
                for api in ["get", "decrypt"] {
                    if first_order || (mine && (perm_api == "both" || perm_api == api)) {
                        w.vault_get(api, &c["outcome"], "tlc").await;
                    }
                }
            }
            "DataGet" => {
                let want = c["levels"].as_u64().expect("levels") as usize;
                let Some(t) = trees.iter().find(|t| t.1.st.as_ref().map(|s| s.levels.len()).unwrap_or(0) == want) else {
                    continue; // this build cannot produce a tree of that depth
                };
                let (d1, e1, d2, e2) = (t.0.clone(), &t.1, t.2.clone(), &t.3);
                let api = c["api"].as_str().unwrap_or("public");
                data_get_subst(&mut w, &d1, e1, &d2, e2, api, c["lvl"].as_str().expect("lvl"), c["idx"].as_str().expect("idx"), c["kind"].as_str().expect("kind"), "tlc").await;
            }
            other => panic!("unknown op {other}"),
        }
    }
    // seeded random outcomes (larger splits than the model's, random order of versions)
    for _ in 0..random {
        let n = w.rng.gen_range(0..5usize);
        let mut vs: Vec<&str> = vec![];
        for _ in 0..n {
            let k = kinds[w.rng.gen_range(0..kinds.len())];
            if !vs.contains(&k) {
                vs.push(k);
            }
        }
        let oc = match vs.len() {
            0 => json!({"k": if w.rng.gen_bool(0.5) { "NotFound" } else { "Timeout" }, "v": "", "vs": []}),
            1 if w.rng.gen_bool(0.3) => json!({"k": "NotEnough", "v": vs[0], "vs": []}),
            1 => json!({"k": "Ok", "v": vs[0], "vs": []}),
            _ => json!({"k": "Split", "v": "", "vs": vs}),
        };
        let api = if w.rng.gen_bool(0.5) { "get" } else { "decrypt" };
        w.vault_get(api, &oc, "random").await;
        let ck = CHUNK_KINDS[w.rng.gen_range(0..CHUNK_KINDS.len())];
        w.chunk_get(&json!({"k": "Ok", "v": ck, "vs": []}), "random").await;
    }
    w.tr.finish();
}

fn main() {
    vtrace::quiet_panics();
    let mode = arg("--mode").expect("--mode data|auth");
    let out = arg("--out").expect("--out");
    let random: usize = arg("--random").and_then(|s| s.parse().ok()).unwrap_or(0);
    let thorough = arg("--tier").map(|t| t == "thorough").unwrap_or(false);
    let rt = tokio::runtime::Builder::new_current_thread().enable_all().build().expect("runtime");
    rt.block_on(async {
        match mode.as_str() {
            "data" => data_mode(&out, arg("--scenarios"), arg("--classes").map(|s| s == "1").unwrap_or(true), random, thorough).await,
            "auth" => auth_mode(&out, arg("--cases"), random).await,
            other => panic!("unknown mode {other}"),
        }
    });
}
