fn main(){}
