//! C18 driver: drives REAL `ant_bootstrap::BootstrapCacheStore` objects (several store objects sharing
//! one cache file) with (a) the scenarios TLC generated from MCBootCache and (b) seeded random
//! operation sequences, crafted cache files (chosen timestamps / counters / corrupt contents), a torn
//! write (writer process that hits a file-size limit in the middle of the write) and several writer
//! processes flushing to one file while this process keeps loading it, and several tasks of ONE process flushing
//! clones of a store (the way the node's event loop does it) while the main thread keeps loading.
//! Addresses are judged by IDENTITY, not only by shape: an entry is well formed (`wf`) only if its text has the
//! dialable shape ip4/(udp/quic-v1 | tcp[/ws])/p2p/<id>, is the canonical text of a (peer, address) pair the
//! driver presented, and is stored under the peer id it carries (raw file and load: the map key).
//! After every call it logs the projected state: peers and addresses as small integers, counters,
//! expired flag, shape flag -- computed from the public API and from the raw file by this driver.
//!
//!   drv_bootcache run --scenarios <ndjson> --out <trace.ndjson> --dir <scratch> --random <n> --stress <flushes>
//!   drv_bootcache writer --file <cache> --id <w> --flushes <n> --peers <n> [--fsize <bytes>]   (child)
use ant_bootstrap::{craft_valid_multiaddr, BootstrapCacheConfig, BootstrapCacheStore, PeersArgs};
use libp2p::{Multiaddr, PeerId};
use rand::{rngs::StdRng, Rng};
use serde::Deserialize;
use serde_json::{json, Value};
use sha2::{Digest, Sha256};
use std::collections::HashMap;
use std::path::{Path, PathBuf};
use std::time::{Duration, SystemTime, UNIX_EPOCH};
use vtrace::{arg, guarded, quiet_panics, read_ndjson, rng, Trace};

const HOUR: u64 = 3600;

// ------------------------------------------------------------------ ids <-> real objects
fn peer_id(k: u64) -> PeerId {
    let d = Sha256::digest(format!("verif-bootcache-peer-{k}").as_bytes());
    let mut b = vec![0x12u8, 0x20];
    b.extend_from_slice(&d);
    PeerId::from_bytes(&b).expect("sha256 multihash is a peer id")
}
/// transport class of address id a: 2 tcp, 3 ws, 0 and 1 quic (udp without quic-v1 is not dialable: see plain_udp)
fn canonical(k: u64, a: u64) -> String {
    let ip = format!("10.{}.{}.{}", (k / 200) % 200, k % 200, a % 200);
    let port = 4000 + a;
    let id = peer_id(k);
    match a % 4 {
        2 => format!("/ip4/{ip}/tcp/{port}/p2p/{id}"),
        3 => format!("/ip4/{ip}/tcp/{port}/ws/p2p/{id}"),
        _ => format!("/ip4/{ip}/udp/{port}/quic-v1/p2p/{id}"),
    }
}
/// udp WITHOUT quic-v1: no transport of the network dials it (scenario class VERIF_ENABLE_PLAINUDP)
fn plain_udp(k: u64, a: u64) -> String {
    format!("/ip4/10.{}.{}.{}/udp/{}/p2p/{}", (k / 200) % 200, k % 200, a % 200, 4000 + a, peer_id(k))
}
fn enabled(name: &str) -> bool {
    std::env::var(name).map(|v| !v.is_empty() && v != "0").unwrap_or(false)
}
/// presentations of (k, a) that must be accepted and stored as the canonical address
fn presentation_ok(k: u64, a: u64, v: u64) -> String {
    let c = canonical(k, a);
    let id = peer_id(k);
    let other = peer_id(k + 7777);
    let ip = format!("10.{}.{}.{}", (k / 200) % 200, k % 200, a % 200);
    let port = 4000 + a;
    match v % 5 {
        0 => c,
        // relay circuit THROUGH k towards another peer: the dialable part is k's own address
        1 => format!("{c}/p2p-circuit/p2p/{other}"),
        // peer id first
        2 => match a % 4 {
            2 => format!("/p2p/{id}/ip4/{ip}/tcp/{port}"),
            3 => format!("/p2p/{id}/ip4/{ip}/tcp/{port}/ws"),
            _ => format!("/p2p/{id}/ip4/{ip}/udp/{port}/quic-v1"),
        },
        // extra protocols that are dropped
        3 => match a % 4 {
            1 => format!("/ip4/{ip}/udp/{port}/quic-v1/webtransport/p2p/{id}"),
            2 => format!("/ip4/{ip}/tcp/{port}/noise/p2p/{id}"),
            3 => format!("/ip4/{ip}/tcp/{port}/tls/ws/p2p/{id}"),
            _ => format!("/ip4/{ip}/udp/{port}/utp/quic-v1/p2p/{id}"),
        },
        // a second ip / dns component after the first
        _ => match a % 4 {
            1 => format!("/ip4/{ip}/ip6/::1/udp/{port}/quic-v1/p2p/{id}"),
            2 => format!("/ip4/{ip}/dns/example.com/tcp/{port}/p2p/{id}"),
            3 => format!("/ip4/{ip}/tcp/{port}/ws/p2p/{id}/p2p/{other}"),
            // quic-v1 AFTER the peer id, then a circuit towards another peer
            _ => format!("/ip4/{ip}/udp/{port}/p2p/{id}/quic-v1/p2p-circuit/p2p/{other}"),
        },
    }
}
/// shapes that cannot be crafted into ip4/(udp|tcp)/p2p: must not enter the cache
fn presentation_bad(k: u64, a: u64, v: u64) -> String {
    let id = peer_id(k);
    let port = 4000 + a;
    match v % 8 {
        0 => format!("/ip4/10.0.0.{}/udp/{port}/quic-v1", a % 200),  // no peer id
        1 => format!("/dns/example.com/udp/{port}/quic-v1/p2p/{id}"), // dns
        2 => format!("/ip6/::1/tcp/{port}/p2p/{id}"),                 // ip6
        3 => format!("/ip4/10.0.0.{}/p2p/{id}", a % 200),             // no transport
        4 => format!("/p2p/{id}"),                                    // only a peer id
        5 => format!("/dns4/example.com/tcp/{port}/ws/p2p/{id}"),
        6 => format!("/ip4/10.0.0.{}/sctp/{port}/p2p/{id}", a % 200),
        _ => format!("/memory/{port}/p2p/{id}"),
    }
}

struct Ids {
    by_addr: HashMap<String, (u64, u64)>,
    by_peer: HashMap<String, u64>,
    other: HashMap<String, (u64, u64)>,
    extra: u64,
}
impl Ids {
    fn new(max_k: u64, max_a: u64) -> Self {
        let mut ids = Ids { by_addr: HashMap::new(), by_peer: HashMap::new(), other: HashMap::new(), extra: 0 };
        for k in 1..=max_k {
            for a in 1..=max_a {
                ids.ensure(k, a);
            }
        }
        ids
    }
    fn ensure(&mut self, k: u64, a: u64) {
        self.by_addr.insert(canonical(k, a), (k, a));
        self.by_peer.insert(peer_id(k).to_string(), k);
    }
    /// (k, a) of a canonical text the driver presented, or None
    fn known(&self, addr: &str) -> Option<(u64, u64)> {
        self.by_addr.get(addr).copied()
    }
    /// small id of a peer id (map key of the cache); an unknown one gets a fresh id >= 9000
    fn peer(&mut self, pid: &str) -> u64 {
        if let Some(k) = self.by_peer.get(pid) {
            return *k;
        }
        self.extra += 1;
        let k = 9000 + self.extra;
        self.by_peer.insert(pid.to_string(), k);
        k
    }
    /// ids of an entry that is NOT a canonical text stored under its own peer: stable per (key, text)
    fn foreign(&mut self, key: Option<&str>, addr: &str) -> (u64, u64) {
        // (where the observation does not show the key -- a store's memory -- the peer id the text carries stands for it,
        // so that an entry has the same ids in the memory and in the file it is flushed to)
        let carried = first_p2p(addr);
        let key = key.or(carried.as_deref());
        let tag = format!("{}|{addr}", key.unwrap_or(""));
        if let Some(x) = self.other.get(&tag) {
            return *x;
        }
        self.extra += 1;
        let x = match key {
            Some(pid) => (self.peer(pid), 1000 + self.extra),
            None => (9000 + self.extra, 1),
        };
        self.other.insert(tag, x);
        x
    }
}

/// ip4/(udp/quic-v1 | tcp[/ws])/p2p/<id>, decided on the printed form (independent of craft_valid_multiaddr).
/// "dialable": the transports of the network are QUIC over udp, tcp and websocket over tcp; a bare udp port is not.
fn well_formed(addr: &str) -> bool {
    let c: Vec<&str> = addr.split('/').collect();
    if c.len() < 7 || !c[0].is_empty() || c[1] != "ip4" || c[2].parse::<std::net::Ipv4Addr>().is_err() {
        return false;
    }
    if c[4].parse::<u16>().is_err() {
        return false;
    }
    let rest: &[&str] = match (c[3], c.get(5).copied()) {
        ("udp", Some("quic-v1")) => &c[6..],
        ("tcp", Some("ws")) => &c[6..],
        ("tcp", _) => &c[5..],
        _ => return false,
    };
    rest.len() == 2 && rest[0] == "p2p" && rest[1].parse::<PeerId>().is_ok()
}
/// the first /p2p component of a printed multiaddress
fn first_p2p(addr: &str) -> Option<String> {
    let c: Vec<&str> = addr.split('/').collect();
    c.iter().position(|x| *x == "p2p").and_then(|i| c.get(i + 1)).map(|x| x.to_string())
}

// counters can be as large as u32::MAX (crafted files); TLC has 32-bit signed integers
fn proj_counts(s: u32, f: u32) -> (u64, u64) {
    const CAP: u32 = 1_000_000_000;
    if s <= CAP && f <= CAP {
        (s as u64, f as u64)
    } else if s > f {
        (CAP as u64 + 2, CAP as u64 + 1)
    } else if s < f {
        (CAP as u64 + 1, CAP as u64 + 2)
    } else {
        (CAP as u64 + 1, CAP as u64 + 1)
    }
}
/// (expired, future-dated): the statement is silent on an address last seen in the future
fn age_class(last_seen: SystemTime, expiry: Duration) -> (bool, bool) {
    match SystemTime::now().duration_since(last_seen) {
        Ok(d) => (d >= expiry, false),
        Err(_) => (false, true),
    }
}
/// `key`: the peer id the entry is stored under (map key), where the observation shows it
fn entry(ids: &mut Ids, key: Option<&str>, addr: &str, s: u32, f: u32, last_seen: SystemTime, expiry: Duration) -> Value {
    let shape = well_formed(addr);
    let known = ids.known(addr);
    let keyok = match key {
        None => true,
        Some(pid) => first_p2p(addr).as_deref() == Some(pid),
    };
    let (k, a) = match known {
        Some(x) if keyok => x,
        _ => ids.foreign(key, addr),
    };
    let (s, f) = proj_counts(s, f);
    let (old, fut) = age_class(last_seen, expiry);
    json!({"k": k, "a": a, "s": s, "f": f, "old": old, "fut": fut, "wf": shape && known.is_some() && keyok,
           "shape": shape, "ident": known.is_some(), "keyok": keyok})
}
fn sorted(mut v: Vec<Value>) -> Value {
    v.sort_by_key(|e| (e["k"].as_u64(), e["a"].as_u64()));
    Value::Array(v)
}

// ------------------------------------------------------------------ the raw file, read by the driver itself
#[derive(Deserialize)]
struct RawAddr {
    addr: String,
    success_count: u32,
    failure_count: u32,
    last_seen: SystemTime,
}
#[derive(Deserialize)]
#[allow(dead_code)]
struct RawCache {
    peers: HashMap<String, Vec<RawAddr>>,
    last_updated: SystemTime,
    network_version: String,
}
fn raw_file(ids: &mut Ids, path: &Path, expiry: Duration) -> Value {
    let bytes = match std::fs::read(path) {
        Ok(b) => b,
        Err(_) => return json!({"kind": "absent", "c": []}),
    };
    let Ok(text) = String::from_utf8(bytes) else { return json!({"kind": "corrupt", "c": []}) };
    let Ok(rc) = serde_json::from_str::<RawCache>(&text) else { return json!({"kind": "corrupt", "c": []}) };
    let mut out = vec![];
    let mut mp = 0usize;
    for (pid, addrs) in rc.peers.iter() {
        if pid.parse::<PeerId>().is_err() {
            return json!({"kind": "corrupt", "c": []});
        }
        mp = mp.max(addrs.len());
        for ra in addrs {
            if ra.addr.parse::<Multiaddr>().is_err() {
                return json!({"kind": "corrupt", "c": []});
            }
            out.push(entry(ids, Some(pid), &ra.addr, ra.success_count, ra.failure_count, ra.last_seen, expiry));
        }
    }
    json!({"kind": "cache", "c": sorted(out), "np": rc.peers.len(), "mp": mp})
}

// ------------------------------------------------------------------ real objects
#[derive(Clone)]
struct Cfg {
    max_p: usize,
    max_a: usize,
    expiry: Duration,
}
fn real_cfg(c: &Cfg, file: &Path) -> BootstrapCacheConfig {
    BootstrapCacheConfig::empty()
        .with_cache_path(file)
        .with_max_peers(c.max_p)
        .with_addrs_per_peer(c.max_a)
        .with_addr_expiry_duration(c.expiry)
}
fn cfg_json(c: &Cfg) -> Value {
    json!({"maxP": c.max_p, "maxA": c.max_a, "exp": c.expiry.as_secs().min(1_000_000_000)})
}
fn load(ids: &mut Ids, c: &Cfg, file: &Path) -> Value {
    let rc = real_cfg(c, file);
    match guarded(|| BootstrapCacheStore::load_cache_data(&rc)) {
        Err(msg) => json!({"kind": "panic", "c": [], "msg": msg.chars().take(120).collect::<String>()}),
        Ok(Err(e)) => json!({"kind": "none", "c": [], "err": format!("{e}").chars().take(60).collect::<String>()}),
        Ok(Ok(data)) => {
            let mut out = vec![];
            let mut key_mismatch = false;
            let mut mp = 0usize;
            for (pid, addrs) in data.peers.iter() {
                let pid = pid.to_string();
                mp = mp.max(addrs.0.len());
                for ba in addrs.0.iter() {
                    let s = ba.addr.to_string();
                    if first_p2p(&s).as_deref() != Some(pid.as_str()) {
                        key_mismatch = true;
                    }
                    out.push(entry(ids, Some(&pid), &s, ba.success_count, ba.failure_count, ba.last_seen, c.expiry));
                }
            }
            json!({"kind": "data", "c": sorted(out), "np": data.peers.len(), "mp": mp, "key_mismatch": key_mismatch})
        }
    }
}
fn obs(ids: &mut Ids, st: &BootstrapCacheStore, c: &Cfg) -> Value {
    // (the public API of a store does not show under which peer an address is kept: the raw file and a load do)
    let mut per: HashMap<String, usize> = HashMap::new();
    let v: Vec<Value> = st
        .get_all_addrs()
        .map(|ba| {
            let s = ba.addr.to_string();
            *per.entry(first_p2p(&s).unwrap_or_default()).or_insert(0) += 1;
            entry(ids, None, &s, ba.success_count, ba.failure_count, ba.last_seen, c.expiry)
        })
        .collect();
    json!({"mem": sorted(v), "np": st.peer_count(), "mp": per.values().copied().max().unwrap_or(0),
           "dis": st.config().disable_cache_writing})
}

struct World {
    dir: PathBuf,
    file: PathBuf,
    stores: HashMap<u64, (BootstrapCacheStore, Cfg)>,
    ids: Ids,
    run: u64,
    seq: u64,
    nvar: u64,
    obs_cfg: Cfg,
}
impl World {
    fn new(base: &Path, run: u64, max_k: u64, max_a: u64, obs_cfg: Cfg) -> Self {
        let dir = base.join(format!("run{run}"));
        let _ = std::fs::remove_dir_all(&dir);
        std::fs::create_dir_all(&dir).expect("scratch dir");
        let file = dir.join("cache").join("bootstrap_cache.json");
        World { dir, file, stores: HashMap::new(), ids: Ids::new(max_k, max_a), run, seq: 0, nvar: 0, obs_cfg }
    }
    fn done(self) {
        let _ = std::fs::remove_dir_all(&self.dir);
    }
    /// common tail of every event: where the file stands (driver's own reading) and what a load returns
    fn emit(&mut self, t: &mut Trace, mut e: Value, cfg: &Cfg, src: &str) {
        self.seq += 1;
        let m = e.as_object_mut().expect("object");
        m.insert("run".into(), json!(self.run));
        m.insert("seq".into(), json!(self.seq));
        m.insert("src".into(), json!(src));
        m.insert("cfg".into(), cfg_json(cfg));
        m.insert("raw".into(), raw_file(&mut self.ids, &self.file, cfg.expiry));
        m.insert("load".into(), load(&mut self.ids, cfg, &self.file));
        t.emit(e);
    }
    fn new_store(&mut self, t: &mut Trace, p: u64, c: Cfg, src: &str) {
        let rc = real_cfg(&c, &self.file);
        let r = guarded(|| BootstrapCacheStore::new(rc));
        let res = match r {
            Ok(Ok(st)) => {
                self.stores.insert(p, (st, c.clone()));
                "Ok"
            }
            Ok(Err(_)) => "Err",
            Err(_) => "Panic",
        };
        let o = match self.stores.get(&p) {
            Some((st, c)) => obs(&mut self.ids, st, c),
            None => json!({"mem": [], "np": 0, "mp": 0, "dis": false}),
        };
        self.emit(t, json!({"ev": "New", "p": p, "k": 0, "a": 0, "x": false, "res": res, "obs": o, "first": false}), &c, src);
    }
    /// a store made by new_from_peers_args. `use_dir`: PeersArgs::bootstrap_cache_dir names the directory of the world's
    /// cache file (it takes precedence, by the function's documentation) while the config names a decoy path;
    /// `first` writes an empty cache over the file; `local` / `disable` make flushes leave the file alone.
    #[allow(clippy::too_many_arguments)]
    fn new_store_args(&mut self, t: &mut Trace, p: u64, c: Cfg, first: bool, local: bool, disable: bool, use_dir: bool, dir_is_file: bool, src: &str) {
        let decoy = self.dir.join("decoy").join("bootstrap_cache.json");
        let cache_dir = if dir_is_file { self.dir.join("a_file") } else { self.file.parent().expect("parent").to_path_buf() };
        if dir_is_file {
            std::fs::write(&cache_dir, b"x").expect("file in place of the cache dir");
        }
        let rc = real_cfg(&c, if use_dir { &decoy } else { &self.file }).with_disable_cache_writing(disable);
        let args = PeersArgs {
            first,
            addrs: vec![],
            network_contacts_url: vec![],
            local,
            disable_mainnet_contacts: true,
            ignore_cache: false,
            bootstrap_cache_dir: if use_dir { Some(cache_dir) } else { None },
        };
        let r = guarded(|| BootstrapCacheStore::new_from_peers_args(&args, Some(rc)));
        let res = match r {
            Ok(Ok(st)) => {
                self.stores.insert(p, (st, c.clone()));
                "Ok"
            }
            Ok(Err(_)) => "Err",
            Err(_) => "Panic",
        };
        let o = match self.stores.get(&p) {
            Some((st, c)) if res == "Ok" => obs(&mut self.ids, st, c),
            _ => json!({"mem": [], "np": 0, "mp": 0, "dis": false}),
        };
        let decoy_written = decoy.exists();
        self.emit(t, json!({"ev": "New", "p": p, "k": 0, "a": 0, "x": false, "res": res, "obs": o, "first": first && res == "Ok",
            "args": {"first": first, "local": local, "disable": disable, "use_dir": use_dir, "dir_is_file": dir_is_file},
            "decoy_written": decoy_written}), &c, src);
    }
    fn store_op(&mut self, t: &mut Trace, op: &Value, src: &str) {
        let name = op["op"].as_str().expect("op").to_string();
        let p = op["p"].as_u64().unwrap_or(0);
        let k = op["k"].as_u64().unwrap_or(0);
        let a = op["a"].as_u64().unwrap_or(0);
        let x = op["x"].as_bool().unwrap_or(false);
        if !self.stores.contains_key(&p) {
            let c = self.obs_cfg.clone();
            self.new_store(t, p, c, src);
        }
        self.ids.ensure(k.max(1), a.max(1));
        self.nvar += 1;
        let nvar = op.get("v").and_then(|x| x.as_u64()).unwrap_or(self.nvar);
        let file = self.file.clone();
        let (st, c) = self.stores.get_mut(&p).expect("store");
        let c = c.clone();
        let mut extra = json!({});
        let res: Result<bool, String> = match name.as_str() {
            "Add" => {
                let text = presentation_ok(k, a, nvar);
                extra = json!({"text": text});
                match text.parse::<Multiaddr>() {
                    Ok(ma) => guarded(|| { st.add_addr(ma); true }),
                    Err(e) => panic!("driver presentation does not parse: {text}: {e}"),
                }
            }
            "AddPlain" => {
                let text = plain_udp(k.max(1), a.max(1));
                extra = json!({"text": text});
                match text.parse::<Multiaddr>() {
                    Ok(ma) => guarded(|| { st.add_addr(ma); true }),
                    Err(e) => panic!("driver presentation does not parse: {text}: {e}"),
                }
            }
            "AddBad" => {
                let text = presentation_bad(k.max(1), a.max(1), nvar);
                extra = json!({"text": text});
                match text.parse::<Multiaddr>() {
                    Ok(ma) => guarded(|| { st.add_addr(ma); true }),
                    Err(e) => panic!("driver presentation does not parse: {text}: {e}"),
                }
            }
            "Upd" => {
                let ma: Multiaddr = canonical(k, a).parse().expect("canonical");
                guarded(|| { st.update_addr_status(&ma, x); true })
            }
            "Rem" => {
                let ma: Multiaddr = canonical(k, a).parse().expect("canonical");
                guarded(|| { st.remove_addr(&ma); true })
            }
            "Cleanup" => guarded(|| { st.perform_cleanup(); true }),
            "Flush" | "Write" => {
                let pre = load(&mut self.ids, &c, &file);
                let rawpre = raw_file(&mut self.ids, &file, c.expiry);
                extra = json!({"pre": pre, "rawpre": rawpre, "dis": st.config().disable_cache_writing});
                if name == "Flush" {
                    guarded(|| st.sync_and_flush_to_disk(x).is_ok())
                } else {
                    guarded(|| st.write().is_ok())
                }
            }
            other => panic!("unknown store op {other}"),
        };
        let res_s = match &res { Ok(true) => "Ok", Ok(false) => "Err", Err(_) => "Panic" };
        let o = obs(&mut self.ids, st, &c);
        let mut e = json!({"ev": name, "p": p, "k": k, "a": a, "x": x, "res": res_s, "obs": o, "v": nvar});
        if let Err(msg) = &res {
            e["msg"] = json!(msg.chars().take(120).collect::<String>());
        }
        for (kk, vv) in extra.as_object().expect("obj") {
            e[kk] = vv.clone();
        }
        self.emit(t, e, &c, src);
    }
    /// environment actions on the file
    fn env_op(&mut self, t: &mut Trace, name: &str, k: u64, a: u64, bytes: Option<Vec<u8>>, label: &str, src: &str) {
        self.env_op_x(t, name, k, a, bytes, label, src, json!({}))
    }
    #[allow(clippy::too_many_arguments)]
    fn env_op_x(&mut self, t: &mut Trace, name: &str, k: u64, a: u64, bytes: Option<Vec<u8>>, label: &str, src: &str, extra: Value) {
        let c = self.obs_cfg.clone();
        if let Some(parent) = self.file.parent() {
            std::fs::create_dir_all(parent).expect("cache dir");
        }
        match name {
            "Corrupt" | "SetFile" => std::fs::write(&self.file, bytes.expect("bytes")).expect("write file"),
            "Delete" => { let _ = std::fs::remove_file(&self.file); }
            "ExpireFile" => {
                // rewrite the file with the entry's last_seen far beyond the expiry (I11: never near the edge)
                if let Ok(text) = std::fs::read_to_string(&self.file) {
                    if let Ok(mut v) = serde_json::from_str::<Value>(&text) {
                        let target = canonical(k, a);
                        let old = SystemTime::now() - c.expiry - Duration::from_secs(HOUR);
                        let d = old.duration_since(UNIX_EPOCH).expect("after epoch");
                        // (a file that is valid JSON but not a cache -- an array, say -- is left as it is)
                        let is_cache = v.get("peers").map(|p| p.is_object()).unwrap_or(false);
                        if let Some(peers) = v.get_mut("peers").and_then(|p| p.as_object_mut()) {
                            for (_, addrs) in peers.iter_mut() {
                                for ad in addrs.as_array_mut().into_iter().flatten() {
                                    if ad["addr"].as_str() == Some(&target) {
                                        ad["last_seen"] = json!({"secs_since_epoch": d.as_secs(), "nanos_since_epoch": 0});
                                    }
                                }
                            }
                        }
                        if is_cache {
                            std::fs::write(&self.file, serde_json::to_string_pretty(&v).expect("json")).expect("write file");
                        }
                    }
                }
            }
            other => panic!("unknown env op {other}"),
        }
        let mut e = json!({"ev": name, "p": 0, "k": k, "a": a, "x": false, "res": "Ok", "label": label});
        for (kk, vv) in extra.as_object().expect("obj") {
            e[kk] = vv.clone();
        }
        self.emit(t, e, &c, src);
    }
}

// ------------------------------------------------------------------ crafted files
fn ts(age_secs: i64) -> Value {
    let now = SystemTime::now().duration_since(UNIX_EPOCH).expect("epoch").as_secs() as i64;
    json!({"secs_since_epoch": (now - age_secs).max(0), "nanos_since_epoch": 0})
}
/// entries: (k, a, s, f, age in seconds)
fn cache_json(entries: &[(u64, u64, u64, u64, i64)]) -> String {
    let mut peers = serde_json::Map::new();
    for &(k, a, s, f, age) in entries {
        let pid = peer_id(k).to_string();
        let e = json!({"addr": canonical(k, a), "success_count": s, "failure_count": f, "last_seen": ts(age)});
        peers.entry(pid).or_insert_with(|| json!([])).as_array_mut().expect("arr").push(e);
    }
    serde_json::to_string_pretty(&json!({"peers": peers, "last_updated": ts(0), "network_version": "verif_1"})).expect("json")
}
/// An entry of a crafted file that may be abnormal: stored under peer `key` (normally k), written in `form`
/// (0 canonical; 1 udp without quic-v1; 2 no peer id; 3 dns4; 4 ip6; 5 a relay circuit kept whole); a = 0: the peer
/// `key` with an empty address list; age < 0: last seen in the future. The same (k, a) may occur twice.
#[derive(Clone, Copy)]
struct FE { k: u64, a: u64, s: u64, f: u64, age: i64, key: u64, form: u64 }
fn fe(k: u64, a: u64, s: u64, f: u64, age: i64) -> FE { FE { k, a, s, f, age, key: k, form: 0 } }
fn file_addr(k: u64, a: u64, form: u64) -> String {
    let ip = format!("10.{}.{}.{}", (k / 200) % 200, k % 200, a % 200);
    let port = 4000 + a;
    let id = peer_id(k);
    match form {
        0 => canonical(k, a),
        1 => plain_udp(k, a),
        2 => format!("/ip4/{ip}/udp/{port}/quic-v1"),
        3 => format!("/dns4/example.com/udp/{port}/quic-v1/p2p/{id}"),
        4 => format!("/ip6/::1/tcp/{port}/p2p/{id}"),
        _ => format!("{}/p2p-circuit/p2p/{}", canonical(k, a), peer_id(k + 7777)),
    }
}
fn cache_json_x(entries: &[FE]) -> String {
    let mut peers = serde_json::Map::new();
    for e in entries {
        let pid = peer_id(e.key).to_string();
        let list = peers.entry(pid).or_insert_with(|| json!([])).as_array_mut().expect("arr");
        if e.a > 0 {
            list.push(json!({"addr": file_addr(e.k, e.a, e.form), "success_count": e.s, "failure_count": e.f, "last_seen": ts(e.age)}));
        }
    }
    serde_json::to_string_pretty(&json!({"peers": peers, "last_updated": ts(0), "network_version": "verif_1"})).expect("json")
}
fn entries_text_x(es: &[FE]) -> Value {
    json!(serde_json::to_string(&es.iter().map(|e| json!([e.k, e.a, e.s, e.f, e.age, e.key, e.form])).collect::<Vec<_>>()).expect("json"))
}
fn set_file_x(t: &mut Trace, w: &mut World, es: &[FE], label: &str, src: &str) {
    for e in es {
        w.ids.ensure(e.k.max(1), e.a.max(1));
        w.ids.ensure(e.key.max(1), 1);
    }
    w.env_op_x(t, "SetFile", 0, 0, Some(cache_json_x(es).into_bytes()), label, src, json!({"entries": entries_text_x(es)}));
}
fn corrupt_contents(valid: &str) -> Vec<(String, Vec<u8>)> {
    let mut v: Vec<(String, Vec<u8>)> = vec![
        ("empty".into(), vec![]),
        ("space".into(), b" \n".to_vec()),
        ("null".into(), b"null".to_vec()),
        ("array".into(), b"[]".to_vec()),
        ("empty-object".into(), b"{}".to_vec()),
        ("foreign-json".into(), br#"{"nodes":[],"save_path":"/x","daemon":null}"#.to_vec()),
        ("peers-wrong-type".into(), br#"{"peers":[],"last_updated":{"secs_since_epoch":1,"nanos_since_epoch":0},"network_version":"x"}"#.to_vec()),
        ("count-string".into(), valid.replacen("\"success_count\": ", "\"success_count\": \"x\", \"was\": ", 1).into_bytes()),
        ("count-negative".into(), valid.replacen("\"success_count\": ", "\"success_count\": -", 1).into_bytes()),
        ("count-too-big".into(), valid.replacen("\"success_count\": ", "\"success_count\": 4294967296", 1).into_bytes()),
        ("count-float".into(), valid.replacen("\"success_count\": ", "\"success_count\": 0.5, \"was\": ", 1).into_bytes()),
        ("bad-peer-id".into(), valid.replacen("\"Qm", "\"Xx", 1).into_bytes()),
        ("bad-addr".into(), valid.replacen("\"/ip4/", "\"/ip4000/", 1).into_bytes()),
        ("nanos-huge".into(), valid.replacen("\"nanos_since_epoch\": 0", "\"nanos_since_epoch\": 4294967295", 1).into_bytes()),
        ("secs-huge".into(), valid.replacen("\"secs_since_epoch\": ", "\"secs_since_epoch\": 18446744073709551615, \"was\": ", 1).into_bytes()),
        ("non-utf8".into(), vec![0xff, 0xfe, 0x00, 0x7b, 0x80]),
        ("secs-max".into(), valid.replacen("\"secs_since_epoch\": ", "\"secs_since_epoch\": 18446744073709551615, \"secs_since_epoch_was\": ", 1).into_bytes()),
        ("last-seen-missing".into(), valid.replacen("\"last_seen\"", "\"last_seen_was\"", 1).into_bytes()),
        ("utf8-bom".into(), [b"\xef\xbb\xbf".to_vec(), valid.as_bytes().to_vec()].concat()),
        ("trailing-garbage".into(), [valid.as_bytes().to_vec(), b"}}".to_vec()].concat()),
        ("binary".into(), (0..=255u8).collect()),
        ("deep-nesting".into(), "[".repeat(5000).into_bytes()),
    ];
    // truncations at every boundary class of the JSON text: after each structural character class and mid-token
    let b = valid.as_bytes();
    let mut cuts: Vec<usize> = vec![1, 2, b.len() / 2, b.len() - 1, b.len() - 2, b.len() - 3];
    for pat in ["\"peers\"", ": {", "[", "\"addr\"", "/ip4", "\"success_count\": ", "\"last_seen\"", "secs_since_epoch", "}", "]", "\"network_version\""] {
        if let Some(i) = valid.find(pat) {
            cuts.push(i);
            cuts.push(i + pat.len());
            cuts.push(i + pat.len() / 2);
        }
    }
    cuts.sort();
    cuts.dedup();
    for c in cuts {
        if c < b.len() {
            v.push((format!("truncated-{c}"), b[..c].to_vec()));
        }
    }
    v
}

fn entries_text(es: &[(u64, u64, u64, u64, i64)]) -> Value {
    // kept as text: counters may exceed what TLC reads as an integer
    json!(serde_json::to_string(&es.iter().map(|e| json!([e.0, e.1, e.2, e.3, e.4])).collect::<Vec<_>>()).expect("json"))
}
fn set_file(t: &mut Trace, w: &mut World, es: &[(u64, u64, u64, u64, i64)], label: &str, src: &str) {
    w.env_op_x(t, "SetFile", 0, 0, Some(cache_json(es).into_bytes()), label, src, json!({"entries": entries_text(es)}));
}
fn corrupt(t: &mut Trace, w: &mut World, i: usize, src: &str) {
    let valid = cache_json(&[(1, 1, 1, 0, 0), (2, 2, 2, 1, 10)]);
    let cs = corrupt_contents(&valid);
    let (label, bytes) = cs[i % cs.len()].clone();
    w.env_op_x(t, "Corrupt", 0, 0, Some(bytes), &label, src, json!({"i": i % cs.len()}));
}
fn n_corrupt() -> usize {
    corrupt_contents(&cache_json(&[(1, 1, 1, 0, 0), (2, 2, 2, 1, 10)])).len()
}

// ------------------------------------------------------------------ multi-process part
fn writer_main() {
    let file = PathBuf::from(arg("--file").expect("--file"));
    let id: u64 = arg("--id").and_then(|s| s.parse().ok()).expect("--id");
    let flushes: u64 = arg("--flushes").and_then(|s| s.parse().ok()).unwrap_or(10);
    let peers: u64 = arg("--peers").and_then(|s| s.parse().ok()).unwrap_or(50);
    if let Some(limit) = arg("--fsize").and_then(|s| s.parse::<u64>().ok()) {
        // every write beyond `limit` bytes of any regular file fails with EFBIG (signal ignored)
        unsafe {
            libc::signal(libc::SIGXFSZ, libc::SIG_IGN);
            let rl = libc::rlimit { rlim_cur: limit, rlim_max: limit };
            assert_eq!(libc::setrlimit(libc::RLIMIT_FSIZE, &rl), 0, "setrlimit");
        }
    }
    let c = Cfg { max_p: 1500, max_a: 6, expiry: Duration::from_secs(24 * HOUR) };
    let (mut ok, mut err, mut panics) = (0u64, 0u64, 0u64);
    // addresses this writer knew before a flush that FAILED and that are neither in its memory nor in the file after it
    let mut lost = 0u64;
    for i in 0..flushes {
        let r = guarded(|| {
            let mut st = BootstrapCacheStore::new(real_cfg(&c, &file)).expect("store");
            let mut mine = vec![];
            for j in 0..peers {
                let k = 1000 * id + (i * 7 + j) % (peers * 2);
                let text = canonical(k, 1 + (i + j) % 4);
                st.add_addr(text.parse().expect("addr"));
                mine.push(text);
            }
            let flushed = st.sync_and_flush_to_disk(i % 2 == 0).is_ok();
            let mut gone = 0u64;
            if !flushed {
                let mut have: std::collections::HashSet<String> = st.get_all_addrs().map(|b| b.addr.to_string()).collect();
                if let Ok(d) = BootstrapCacheStore::load_cache_data(&real_cfg(&c, &file)) {
                    have.extend(d.peers.values().flat_map(|a| a.0.iter().map(|b| b.addr.to_string())));
                }
                gone = mine.iter().filter(|m| !have.contains(*m)).count() as u64;
            }
            (flushed, gone)
        });
        match r { Ok((true, _)) => ok += 1, Ok((false, g)) => { err += 1; lost += g; } Err(_) => panics += 1 }
    }
    println!("{}", json!({"id": id, "ok": ok, "err": err, "panics": panics, "lost": lost}));
}

fn spawn_writer(file: &Path, id: u64, flushes: u64, peers: u64, fsize: Option<u64>) -> std::process::Child {
    let exe = std::env::current_exe().expect("exe");
    let mut cmd = std::process::Command::new(exe);
    cmd.arg("writer").arg("--file").arg(file).arg("--id").arg(id.to_string())
        .arg("--flushes").arg(flushes.to_string()).arg("--peers").arg(peers.to_string());
    if let Some(l) = fsize {
        cmd.arg("--fsize").arg(l.to_string());
    }
    cmd.stdout(std::process::Stdio::piped()).stderr(std::process::Stdio::null());
    cmd.spawn().expect("spawn writer")
}
fn child_report(ch: std::process::Child) -> Value {
    let out = ch.wait_with_output().expect("child");
    let text = String::from_utf8_lossy(&out.stdout).to_string();
    let mut v = text.lines().last().and_then(|l| serde_json::from_str::<Value>(l).ok())
        .unwrap_or(json!({"ok": 0, "err": 0, "panics": 0, "lost": 0, "noreport": true}));
    v["exit"] = json!(out.status.code().unwrap_or(-1));
    v
}

/// several writer processes flush to one file while this process keeps loading it
fn stress(t: &mut Trace, base: &Path, run: u64, writers: u64, flushes: u64) {
    let c = Cfg { max_p: 1500, max_a: 6, expiry: Duration::from_secs(24 * HOUR) };
    let mut w = World::new(base, run, 1, 1, c.clone());
    std::fs::create_dir_all(w.file.parent().expect("parent")).expect("dir");
    // the file exists and is valid before the writers start, so that every load from now on must succeed
    {
        let mut st = BootstrapCacheStore::new(real_cfg(&c, &w.file)).expect("store");
        for k in 1..=150u64 {
            st.add_addr(canonical(500_000 + k, 1 + k % 4).parse().expect("addr"));
        }
        st.sync_and_flush_to_disk(true).expect("initial flush");
    }
    let mut children: Vec<_> = (1..=writers).map(|id| spawn_writer(&w.file, id, flushes, 120, None)).collect();
    let rc = real_cfg(&c, &w.file);
    let (mut loads, mut data, mut io_err, mut parse_err, mut panics) = (0u64, 0u64, 0u64, 0u64, 0u64);
    let mut first_bad: Option<String> = None;
    loop {
        let running = children.iter_mut().any(|ch| matches!(ch.try_wait(), Ok(None)));
        match guarded(|| BootstrapCacheStore::load_cache_data(&rc)) {
            Ok(Ok(_)) => data += 1,
            Ok(Err(ant_bootstrap::Error::Io(e))) => { io_err += 1; first_bad.get_or_insert(format!("io: {e}")); }
            Ok(Err(e)) => { parse_err += 1; first_bad.get_or_insert(format!("{e}")); }
            Err(m) => { panics += 1; first_bad.get_or_insert(m); }
        }
        loads += 1;
        if !running {
            break;
        }
    }
    let reports: Vec<Value> = children.into_iter().map(child_report).collect();
    let child_panics: u64 = reports.iter().map(|r| r["panics"].as_u64().unwrap_or(0) + if r["exit"].as_i64() != Some(0) { 1 } else { 0 }).sum();
    // the trace does not carry the few hundred peers of the final file: only whether it loads
    let fin = guarded(|| BootstrapCacheStore::load_cache_data(&rc));
    let loadk = match fin { Ok(Ok(_)) => "data", Ok(Err(_)) => "none", Err(_) => "panic" };
    let rawk = match (std::fs::read(&w.file).is_ok(), loadk) { (false, _) => "absent", (true, "data") => "cache", _ => "corrupt" };
    w.seq += 1;
    let e = json!({"ev": "Stress", "p": 0, "k": 0, "a": 0, "x": false, "res": "Ok", "writers": writers, "flushes": flushes,
        "loads": loads, "data": data, "io_err": io_err, "parse_err": parse_err, "panics": panics, "child_panics": child_panics,
        "mode": "processes", "first_bad": first_bad.unwrap_or_default(), "children": reports,
        "run": run, "seq": w.seq, "src": "stress", "cfg": cfg_json(&c),
        "raw": {"kind": rawk, "c": []}, "load": {"kind": loadk, "c": []}});
    t.emit(e);
    w.done();
}

/// a writer that dies in the middle of writing (file-size limit): the cache file must stay loadable
fn torn(t: &mut Trace, base: &Path, run: u64, limit: u64) {
    let c = Cfg { max_p: 1500, max_a: 6, expiry: Duration::from_secs(24 * HOUR) };
    let mut w = World::new(base, run, 40, 4, c.clone());
    // a valid file first (written by a real store)
    w.new_store(t, 1, c.clone(), "torn");
    for k in 1..=3u64 {
        w.store_op(t, &json!({"op": "Add", "p": 1, "k": k, "a": 1, "x": false}), "torn");
    }
    w.store_op(t, &json!({"op": "Flush", "p": 1, "x": true}), "torn");
    let ch = spawn_writer(&w.file, 5, 1, 40, Some(limit));
    let rep = child_report(ch);
    // the file now holds peers the id table does not know: project only loadability
    let rc = real_cfg(&c, &w.file);
    let fin = guarded(|| BootstrapCacheStore::load_cache_data(&rc));
    let loadk = match fin { Ok(Ok(_)) => "data", Ok(Err(_)) => "none", Err(_) => "panic" };
    let rawk = match (std::fs::read(&w.file).is_ok(), loadk) { (false, _) => "absent", (true, "data") => "cache", _ => "corrupt" };
    w.seq += 1;
    let lost = rep["lost"].as_u64().unwrap_or(0);
    t.emit(json!({"ev": "Torn", "p": 0, "k": 0, "a": 0, "x": false, "res": "Ok", "limit": limit, "child": rep, "lost": lost,
        "run": run, "seq": w.seq, "src": "torn", "cfg": cfg_json(&c),
        "raw": {"kind": rawk, "c": []}, "load": {"kind": loadk, "c": []}}));
    w.done();
}

// ------------------------------------------------------------------ random sequences
fn random_run(t: &mut Trace, base: &Path, run: u64, r: &mut StdRng, steps: usize) {
    let expiries = [Duration::from_secs(24 * HOUR), Duration::from_secs(HOUR), Duration::from_secs(24 * HOUR), Duration::ZERO];
    let c = Cfg { max_p: r.gen_range(1..=4), max_a: r.gen_range(1..=3), expiry: expiries[r.gen_range(0..expiries.len())] };
    let (nk, na) = (6u64, 4u64);
    let mut w = World::new(base, run, nk, na, c.clone());
    let nstores = r.gen_range(1..=3u64);
    // co-located stores normally share one configuration; in some runs each has its own limits
    let own_limits = r.gen_range(0..10) < 3;
    let dirty = enabled("VERIF_ENABLE_DIRTYFILE");
    for p in 1..=nstores {
        let cp = if own_limits && p > 1 { Cfg { max_p: r.gen_range(1..=4), max_a: r.gen_range(1..=3), expiry: c.expiry } } else { c.clone() };
        w.new_store(t, p, cp, "random");
    }
    let exp = c.expiry.as_secs() as i64;
    for _ in 0..steps {
        let p = r.gen_range(1..=nstores);
        let (k, a) = (r.gen_range(1..=nk), r.gen_range(1..=na));
        match r.gen_range(0..100) {
            0..=29 => w.store_op(t, &json!({"op": "Add", "p": p, "k": k, "a": a, "x": false}), "random"),
            30..=34 => w.store_op(t, &json!({"op": "AddBad", "p": p, "k": k, "a": a, "x": false}), "random"),
            35..=54 => w.store_op(t, &json!({"op": "Upd", "p": p, "k": k, "a": a, "x": r.gen_bool(0.4)}), "random"),
            55..=59 => w.store_op(t, &json!({"op": "Rem", "p": p, "k": k, "a": a, "x": false}), "random"),
            60..=64 => w.store_op(t, &json!({"op": "Cleanup", "p": p, "x": false}), "random"),
            65..=79 => w.store_op(t, &json!({"op": "Flush", "p": p, "x": r.gen_bool(0.6)}), "random"),
            80..=82 => w.store_op(t, &json!({"op": "Write", "p": p, "x": false}), "random"),
            83..=90 => {
                // crafted valid file: chosen counters and ages (far from the expiry edge on both sides)
                let n = r.gen_range(0..=8);
                let mut es: Vec<FE> = vec![];
                let abnormal = r.gen_range(0..10) < 4;
                for _ in 0..n {
                    let (k, a) = (r.gen_range(1..=nk), r.gen_range(1..=na));
                    if es.iter().any(|e| e.k == k && e.a == a) { continue; }
                    let (s, f) = match r.gen_range(0..6) { 0 => (0, 0), 1 => (1, 0), 2 => (1, 1), 3 => (1, 2), 4 => (5, 2), _ => (0, 3) };
                    let mut age = if r.gen_bool(0.3) { exp + HOUR as i64 } else if exp > 0 { r.gen_range(0..=(exp - 1800).max(0)).min(exp / 2) } else { 0 };
                    if abnormal && r.gen_range(0..4) == 0 {
                        // last seen in the future (far from now: I11)
                        age = -(HOUR as i64) * r.gen_range(1..=48);
                    }
                    let mut e = fe(k, a, s, f, age);
                    if abnormal && dirty && r.gen_range(0..4) == 0 {
                        if r.gen_bool(0.5) { e.form = r.gen_range(1..=5); } else { e.key = r.gen_range(1..=nk); }
                    }
                    es.push(e);
                    if abnormal && r.gen_range(0..4) == 0 {
                        // the same address a second time, with other counters
                        es.push(FE { s: s + 1 + r.gen_range(0..2), f: f + r.gen_range(0..2), age: age + 7, ..e });
                    }
                }
                if abnormal {
                    for _ in 0..r.gen_range(0..=3) {
                        // a peer with an empty address list
                        let k = r.gen_range(1..=nk);
                        if !es.iter().any(|e| e.key == k) { es.push(fe(k, 0, 0, 0, 0)); }
                    }
                }
                set_file_x(t, &mut w, &es, if abnormal { "abnormal" } else { "crafted" }, "random");
            }
            91..=94 => w.env_op(t, "ExpireFile", k, a, None, "", "random"),
            95..=96 => w.env_op(t, "Delete", 0, 0, None, "", "random"),
            _ => {
                let i = r.gen_range(0..n_corrupt());
                corrupt(t, &mut w, i, "random");
            }
        }
    }
    w.done();
}

/// every corrupt content class, each followed by a load (part of the event), a flush over it and a load
fn corrupt_sweep(t: &mut Trace, base: &Path, run: u64) {
    let c = Cfg { max_p: 2, max_a: 1, expiry: Duration::from_secs(24 * HOUR) };
    let mut w = World::new(base, run, 6, 4, c.clone());
    w.new_store(t, 1, c.clone(), "corrupt");
    for i in 0..n_corrupt() {
        corrupt(t, &mut w, i, "corrupt");
        w.store_op(t, &json!({"op": "Add", "p": 1, "k": 1 + (i as u64 % 3), "a": 1, "x": false}), "corrupt");
        w.store_op(t, &json!({"op": "Flush", "p": 1, "x": i % 2 == 0}), "corrupt");
    }
    w.done();
}

/// crafted VALID files at the counter boundaries (design 7 item 16: failure_rate adds two u32)
fn counter_sweep(t: &mut Trace, base: &Path, run: u64) {
    let m = u32::MAX as u64;
    let cases: Vec<(&str, Vec<(u64, u64, u64, u64, i64)>)> = vec![
        ("max-succ-one-fail-two-addrs", vec![(1, 1, m, 1, 0), (1, 2, 1, 0, 0)]),
        ("max-both-two-addrs", vec![(1, 1, m, m, 0), (1, 2, m, m, 0)]),
        ("half-half", vec![(1, 1, 1 << 31, 1 << 31, 0), (1, 2, 3, 1, 0)]),
        ("max-succ-single", vec![(1, 1, m, 0, 0)]),
        ("max-fail-single", vec![(1, 1, 0, m, 0)]),
        ("max-both-three-peers", vec![(1, 1, m, m, 0), (2, 1, m, 1, 0), (3, 1, m - 1, 1, 0)]),
        ("near-max-sum", vec![(1, 1, m - 1, 1, 0), (1, 2, m - 1, 0, 0), (1, 3, 1, m - 1, 0)]),
    ];
    let c = Cfg { max_p: 2, max_a: 1, expiry: Duration::from_secs(24 * HOUR) };
    let mut w = World::new(base, run, 6, 4, c.clone());
    w.new_store(t, 1, c.clone(), "counters");
    for (label, es) in cases {
        set_file(t, &mut w, &es, label, "counters");
        // merge counters from memory on top (saturating add in BootstrapAddr::sync), flush without and with clean-up
        w.store_op(t, &json!({"op": "Add", "p": 1, "k": 1, "a": 1, "x": false}), "counters");
        w.store_op(t, &json!({"op": "Upd", "p": 1, "k": 1, "a": 1, "x": true}), "counters");
        w.store_op(t, &json!({"op": "Flush", "p": 1, "x": false}), "counters");
        w.store_op(t, &json!({"op": "Add", "p": 1, "k": 1, "a": 2, "x": false}), "counters");
        w.store_op(t, &json!({"op": "Flush", "p": 1, "x": true}), "counters");
    }
    w.done();
}

/// two stores sharing one cache file know the SAME address with different counters: the one that flushes last merges its
/// memory with a file entry that is newer / older than its own (seeded/C18-8: the other side's counters dropped when
/// its entry is the newer one, so that clean-up removes an address the merged counters call reliable)
fn merge_grid(t: &mut Trace, base: &Path, mut run: u64) -> u64 {
    let c = Cfg { max_p: 4, max_a: 4, expiry: Duration::from_secs(24 * HOUR) };
    for fails in 0..=3u64 {
        for succ in [0u64, 1, 3] {
            for first in [1u64, 2] {
                for cleanup in [true, false] {
                    run += 1;
                    let mut w = World::new(base, run, 6, 4, c.clone());
                    w.new_store(t, 1, c.clone(), "mergegrid");
                    w.new_store(t, 2, c.clone(), "mergegrid");
                    let second = 3 - first;
                    // store 1 collects failures, store 2 successes; `first` acts first, so the other one's entry is the newer
                    for p in [first, second] {
                        w.store_op(t, &json!({"op": "Add", "p": p, "k": 1, "a": 1, "x": false}), "mergegrid");
                        let (n, ok) = if p == 1 { (fails, false) } else { (succ, true) };
                        for _ in 0..n {
                            w.store_op(t, &json!({"op": "Upd", "p": p, "k": 1, "a": 1, "x": ok}), "mergegrid");
                        }
                    }
                    w.store_op(t, &json!({"op": "Flush", "p": 2, "x": false}), "mergegrid");
                    w.store_op(t, &json!({"op": "Flush", "p": 1, "x": cleanup}), "mergegrid");
                    w.store_op(t, &json!({"op": "Flush", "p": 2, "x": cleanup}), "mergegrid");
                    w.done();
                }
            }
        }
    }
    run
}

/// the public craft function on one presentation of (k, a). `ok`: the presentation is one the statement calls dialable
/// (it carries ip4, a dialable transport and a peer id): the result has to be THE canonical address of (k, a), not
/// merely an address of the right shape. Other presentations: whatever it returns has the cache's address shape.
fn craft_event(t: &mut Trace, w: &mut World, text: &str, k: u64, a: u64, ok: bool, src: &str) {
    let ma: Multiaddr = text.parse().expect("presentation parses");
    let r = guarded(|| craft_valid_multiaddr(&ma, false).map(|m| m.to_string()));
    let (res, crafted, wf) = match &r {
        Ok(Some(s)) => ("Ok", s.clone(), well_formed(s)),
        Ok(None) => ("Err", String::new(), true),
        Err(_) => ("Panic", String::new(), true),
    };
    let same = crafted == canonical(k, a);
    let c = w.obs_cfg.clone();
    w.emit(t, json!({"ev": "Craft", "p": 0, "k": k, "a": a, "x": false, "res": res, "text": text, "crafted": crafted, "wf": wf,
        "ok": ok, "same": same}), &c, src);
}

/// all multiaddress presentations through the public craft functions and add_addr
fn shape_sweep(t: &mut Trace, base: &Path, run: u64) {
    let c = Cfg { max_p: 50, max_a: 8, expiry: Duration::from_secs(24 * HOUR) };
    let mut w = World::new(base, run, 6, 4, c.clone());
    w.new_store(t, 1, c.clone(), "shapes");
    for k in 1..=3u64 {
        for a in 1..=4u64 {
            for v in 0..5u64 {
                w.nvar = v + 4; // store_op adds 1 before choosing the presentation
                w.store_op(t, &json!({"op": "Add", "p": 1, "k": k, "a": a, "x": false}), "shapes");
                craft_event(t, &mut w, &presentation_ok(k, a, v), k, a, true, "shapes");
            }
        }
    }
    for v in 0..8u64 {
        w.nvar = v + 7;
        w.store_op(t, &json!({"op": "AddBad", "p": 1, "k": 1, "a": 1, "x": false}), "shapes");
        craft_event(t, &mut w, &presentation_bad(1, 1, v), 1, 1, false, "shapes");
    }
    if enabled("VERIF_ENABLE_PLAINUDP") {
        // udp without quic-v1: accepted by craft_valid_multiaddr, dialable by no transport
        for k in 4..=5u64 {
            w.store_op(t, &json!({"op": "AddPlain", "p": 1, "k": k, "a": 1, "x": false}), "shapes");
            craft_event(t, &mut w, &plain_udp(k, 1), k, 1, false, "shapes");
        }
    }
    w.store_op(t, &json!({"op": "Flush", "p": 1, "x": true}), "shapes");
    w.done();
}

/// crafted files that parse but are abnormal: addresses last seen in the future, the same address twice, peers with
/// an empty list, more empty peers than the peer limit -- and (VERIF_ENABLE_DIRTYFILE) ill-formed addresses and addresses
/// under another peer's key. After load + clean-up what the store exposes has to be bounded and well formed.
fn abnormal_sweep(t: &mut Trace, base: &Path, run0: u64, dirty: bool) -> u64 {
    let h = HOUR as i64;
    let mut cases: Vec<(&str, Vec<FE>)> = vec![
        ("future-only", vec![fe(1, 1, 1, 0, -h)]),
        ("future-and-fresh", vec![fe(1, 1, 1, 0, -2 * h), fe(1, 2, 1, 0, 0), fe(2, 1, 1, 0, -h), fe(3, 1, 2, 1, 60)]),
        ("far-future", vec![fe(1, 1, 3, 0, -87_600 * h), fe(2, 2, 1, 0, 0)]),
        ("future-failing", vec![fe(1, 1, 0, 3, -h), fe(1, 2, 1, 0, 0)]),
        ("duplicate", vec![fe(1, 1, 1, 0, 0), fe(1, 1, 3, 1, 10)]),
        ("duplicate-over-limit", vec![fe(1, 1, 1, 0, 0), fe(1, 1, 3, 1, 10), fe(1, 2, 2, 0, 20), fe(1, 1, 4, 1, 30)]),
        ("duplicate-one-failing", vec![fe(1, 1, 0, 2, 0), fe(1, 1, 2, 0, 10), fe(2, 1, 1, 0, 0)]),
        ("empty-peer", vec![fe(1, 0, 0, 0, 0), fe(2, 1, 1, 0, 0)]),
        ("empty-peers-over-limit", vec![fe(1, 0, 0, 0, 0), fe(2, 0, 0, 0, 0), fe(3, 0, 0, 0, 0), fe(4, 0, 0, 0, 0), fe(5, 1, 1, 0, 0)]),
        ("only-empty-peers", vec![fe(1, 0, 0, 0, 0), fe(2, 0, 0, 0, 0), fe(3, 0, 0, 0, 0)]),
        ("mixed", vec![fe(1, 0, 0, 0, 0), fe(2, 1, 1, 0, -h), fe(2, 1, 2, 0, 5), fe(3, 1, 1, 0, 0), fe(3, 2, 1, 0, 0), fe(4, 1, 1, 2, 0), fe(5, 1, 1, 0, 25 * h)]),
    ];
    if dirty {
        for form in 1..=5u64 {
            cases.push(("ill-formed", vec![FE { form, ..fe(1, 1, 1, 0, 0) }, fe(2, 1, 1, 0, 0)]));
        }
        cases.push(("wrong-key", vec![FE { key: 2, ..fe(1, 1, 1, 0, 0) }]));
        cases.push(("wrong-key-shared", vec![FE { key: 2, ..fe(1, 1, 1, 0, 0) }, fe(1, 1, 2, 0, 5), fe(2, 1, 1, 0, 0)]));
        cases.push(("wrong-key-over-limit", vec![FE { key: 3, ..fe(1, 1, 1, 0, 0) }, FE { key: 3, ..fe(2, 1, 1, 0, 0) }, fe(3, 1, 1, 0, 0), fe(3, 2, 1, 0, 0)]));
    }
    let mut run = run0;
    for (max_p, max_a) in [(2usize, 1usize), (3, 2)] {
        run += 1;
        let c = Cfg { max_p, max_a, expiry: Duration::from_secs(24 * HOUR) };
        let mut w = World::new(base, run, 6, 4, c.clone());
        w.new_store(t, 1, c.clone(), "abnormal");
        for (label, es) in cases.iter() {
            // what a load exposes (part of the event), a merge without and one with clean-up on top of it
            set_file_x(t, &mut w, es, label, "abnormal");
            w.store_op(t, &json!({"op": "Add", "p": 1, "k": 1, "a": 1, "x": false, "v": 0}), "abnormal");
            w.store_op(t, &json!({"op": "Flush", "p": 1, "x": false}), "abnormal");
            set_file_x(t, &mut w, es, label, "abnormal");
            w.store_op(t, &json!({"op": "Add", "p": 1, "k": 6, "a": 2, "x": false, "v": 0}), "abnormal");
            w.store_op(t, &json!({"op": "Upd", "p": 1, "k": 6, "a": 2, "x": true}), "abnormal");
            w.store_op(t, &json!({"op": "Flush", "p": 1, "x": true}), "abnormal");
        }
        w.done();
    }
    run
}

/// many addresses of ONE already known peer with no clean-up in between: the per-peer bound holds after every addition
fn ports_sweep(t: &mut Trace, base: &Path, run: u64) {
    let c = Cfg { max_p: 50, max_a: 3, expiry: Duration::from_secs(24 * HOUR) };
    let mut w = World::new(base, run, 3, 12, c.clone());
    w.new_store(t, 1, c.clone(), "ports");
    w.store_op(t, &json!({"op": "Add", "p": 1, "k": 2, "a": 1, "x": false, "v": 0}), "ports");
    for a in 1..=8u64 {
        w.store_op(t, &json!({"op": "Add", "p": 1, "k": 1, "a": a, "x": false}), "ports");
    }
    // the same after status updates made some of the kept addresses better than others, and through a flush
    for a in 1..=8u64 {
        w.store_op(t, &json!({"op": "Upd", "p": 1, "k": 1, "a": a, "x": a % 2 == 0}), "ports");
    }
    for a in 9..=12u64 {
        w.store_op(t, &json!({"op": "Add", "p": 1, "k": 1, "a": a, "x": false}), "ports");
        w.store_op(t, &json!({"op": "Add", "p": 1, "k": 1, "a": a - 8, "x": false}), "ports");
    }
    w.store_op(t, &json!({"op": "Flush", "p": 1, "x": false}), "ports");
    for a in 1..=6u64 {
        w.store_op(t, &json!({"op": "Add", "p": 1, "k": 1, "a": a, "x": false}), "ports");
    }
    w.store_op(t, &json!({"op": "Flush", "p": 1, "x": true}), "ports");
    w.done();
}

/// stores made by new_from_peers_args (first / local / bootstrap_cache_dir precedence), a config that disables cache
/// writing, and stores with different limits on one file
fn args_sweep(t: &mut Trace, base: &Path, run0: u64) -> u64 {
    let mut run = run0;
    let c = Cfg { max_p: 3, max_a: 2, expiry: Duration::from_secs(24 * HOUR) };
    let small = Cfg { max_p: 1, max_a: 1, expiry: Duration::from_secs(24 * HOUR) };
    // (first, local, disable, use_dir)
    for (first, local, disable, use_dir) in [(false, false, false, true), (false, false, false, false), (true, false, false, true),
        (true, false, false, false), (false, true, false, true), (false, false, true, false), (true, true, false, true)] {
        run += 1;
        let mut w = World::new(base, run, 6, 4, c.clone());
        w.file = w.dir.join("cache").join(ant_bootstrap::config::cache_file_name());
        // another store has left a cache in the file
        w.new_store(t, 2, c.clone(), "args");
        w.store_op(t, &json!({"op": "Add", "p": 2, "k": 3, "a": 1, "x": false}), "args");
        w.store_op(t, &json!({"op": "Flush", "p": 2, "x": true}), "args");
        w.new_store_args(t, 1, c.clone(), first, local, disable, use_dir, false, "args");
        if w.stores.contains_key(&1) {
            w.store_op(t, &json!({"op": "Add", "p": 1, "k": 1, "a": 1, "x": false}), "args");
            w.store_op(t, &json!({"op": "Add", "p": 1, "k": 2, "a": 2, "x": false}), "args");
            w.store_op(t, &json!({"op": "Flush", "p": 1, "x": false}), "args");
            w.store_op(t, &json!({"op": "Add", "p": 1, "k": 1, "a": 2, "x": false}), "args");
            w.store_op(t, &json!({"op": "Flush", "p": 1, "x": true}), "args");
            // a store with smaller limits on the same file
            w.new_store(t, 3, small.clone(), "args");
            w.store_op(t, &json!({"op": "Add", "p": 3, "k": 4, "a": 1, "x": false}), "args");
            w.store_op(t, &json!({"op": "Flush", "p": 3, "x": false}), "args");
            w.store_op(t, &json!({"op": "Add", "p": 3, "k": 5, "a": 1, "x": false}), "args");
            w.store_op(t, &json!({"op": "Flush", "p": 3, "x": true}), "args");
            w.store_op(t, &json!({"op": "Add", "p": 1, "k": 6, "a": 1, "x": false}), "args");
            w.store_op(t, &json!({"op": "Flush", "p": 1, "x": true}), "args");
        }
        w.done();
    }
    // bootstrap_cache_dir names a regular file: an error, not a crash
    run += 1;
    let mut w = World::new(base, run, 6, 4, c.clone());
    w.file = w.dir.join("cache").join(ant_bootstrap::config::cache_file_name());
    w.new_store_args(t, 1, c.clone(), false, false, false, true, true, "args");
    w.done();
    run
}

/// a flush that cannot write (the parent of the cache file is a regular file): what the store knew must not be lost
fn unwritable(t: &mut Trace, base: &Path, run: u64) {
    let c = Cfg { max_p: 3, max_a: 2, expiry: Duration::from_secs(24 * HOUR) };
    let mut w = World::new(base, run, 6, 4, c.clone());
    let blocker = w.file.parent().expect("parent").to_path_buf();
    std::fs::write(&blocker, b"not a directory").expect("blocker");
    w.new_store(t, 1, c.clone(), "unwritable");
    if w.stores.contains_key(&1) {
        for (k, a) in [(1u64, 1u64), (2, 1), (1, 2)] {
            w.store_op(t, &json!({"op": "Add", "p": 1, "k": k, "a": a, "x": false}), "unwritable");
        }
        w.store_op(t, &json!({"op": "Flush", "p": 1, "x": false}), "unwritable");
        w.store_op(t, &json!({"op": "Upd", "p": 1, "k": 1, "a": 1, "x": true}), "unwritable");
        w.store_op(t, &json!({"op": "Flush", "p": 1, "x": true}), "unwritable");
        w.store_op(t, &json!({"op": "Write", "p": 1, "x": false}), "unwritable");
        // the obstacle goes away: the next flush saves everything
        std::fs::remove_file(&blocker).expect("remove blocker");
        w.env_op(t, "Delete", 0, 0, None, "unblock", "unwritable");
        w.store_op(t, &json!({"op": "Flush", "p": 1, "x": true}), "unwritable");
    }
    w.done();
}

/// the way the node flushes: the event loop clones its store, replaces it by an empty one and spawns a task that
/// flushes the clone -- several such tasks of ONE process run at once on the runtime's threads while this thread loads
fn stress_tasks(t: &mut Trace, base: &Path, run: u64, owners: u64, rounds: u64) {
    let c = Cfg { max_p: 1500, max_a: 6, expiry: Duration::from_secs(24 * HOUR) };
    let mut w = World::new(base, run, 1, 1, c.clone());
    std::fs::create_dir_all(w.file.parent().expect("parent")).expect("dir");
    {
        let mut st = BootstrapCacheStore::new(real_cfg(&c, &w.file)).expect("store");
        for k in 1..=150u64 {
            st.add_addr(canonical(500_000 + k, 1 + k % 4).parse().expect("addr"));
        }
        st.sync_and_flush_to_disk(true).expect("initial flush");
    }
    let rc = real_cfg(&c, &w.file);
    let rt = tokio::runtime::Builder::new_multi_thread().worker_threads(4).enable_all().build().expect("runtime");
    let (mut fl_ok, mut fl_err, mut fl_panic) = (0u64, 0u64, 0u64);
    // the reader: a thread of the same process that keeps loading the file until every flush task is done
    let stop = std::sync::Arc::new(std::sync::atomic::AtomicBool::new(false));
    let reader = {
        let (stop, rc) = (stop.clone(), rc.clone());
        std::thread::spawn(move || {
            let (mut loads, mut data, mut io_err, mut parse_err, mut panics) = (0u64, 0u64, 0u64, 0u64, 0u64);
            let mut first_bad: Option<String> = None;
            loop {
                let last = stop.load(std::sync::atomic::Ordering::SeqCst);
                match guarded(|| BootstrapCacheStore::load_cache_data(&rc)) {
                    Ok(Ok(_)) => data += 1,
                    Ok(Err(ant_bootstrap::Error::Io(e))) => { io_err += 1; first_bad.get_or_insert(format!("io: {e}")); }
                    Ok(Err(e)) => { parse_err += 1; first_bad.get_or_insert(format!("{e}")); }
                    Err(m) => { panics += 1; first_bad.get_or_insert(m); }
                }
                loads += 1;
                if last {
                    break;
                }
            }
            (loads, data, io_err, parse_err, panics, first_bad)
        })
    };
    rt.block_on(async {
        let mut handles = vec![];
        let mut owners_st: Vec<BootstrapCacheStore> = (0..owners).map(|_| BootstrapCacheStore::new(rc.clone()).expect("store")).collect();
        for i in 0..rounds {
            for (o, st) in owners_st.iter_mut().enumerate() {
                for j in 0..60u64 {
                    let k = 1000 * (o as u64 + 1) + (i * 7 + j) % 120;
                    st.add_addr(canonical(k, 1 + (i + j) % 4).parse().expect("addr"));
                }
                let mut old = st.clone();
                *st = BootstrapCacheStore::new(rc.clone()).expect("store");
                handles.push(tokio::spawn(async move { guarded(|| old.sync_and_flush_to_disk(true).is_ok()) }));
            }
            tokio::task::yield_now().await;
        }
        for h in handles {
            match h.await {
                Ok(Ok(true)) => fl_ok += 1,
                Ok(Ok(false)) => fl_err += 1,
                _ => fl_panic += 1,
            }
        }
    });
    stop.store(true, std::sync::atomic::Ordering::SeqCst);
    let (loads, data, io_err, parse_err, panics, first_bad) = reader.join().expect("reader thread");
    drop(rt);
    let fin = guarded(|| BootstrapCacheStore::load_cache_data(&rc));
    let loadk = match fin { Ok(Ok(_)) => "data", Ok(Err(_)) => "none", Err(_) => "panic" };
    let rawk = match (std::fs::read(&w.file).is_ok(), loadk) { (false, _) => "absent", (true, "data") => "cache", _ => "corrupt" };
    // temporary files the writers left behind in the cache directory
    let leftovers = std::fs::read_dir(w.file.parent().expect("parent")).map(|d| d.count().saturating_sub(1)).unwrap_or(0);
    w.seq += 1;
    t.emit(json!({"ev": "Stress", "p": 0, "k": 0, "a": 0, "x": false, "res": "Ok", "mode": "tasks", "writers": owners, "flushes": rounds,
        "loads": loads, "data": data, "io_err": io_err, "parse_err": parse_err, "panics": panics, "child_panics": fl_panic,
        "flush_ok": fl_ok, "flush_err": fl_err, "leftovers": leftovers,
        "first_bad": first_bad.unwrap_or_default(), "children": [],
        "run": run, "seq": w.seq, "src": "stress", "cfg": cfg_json(&c),
        "raw": {"kind": rawk, "c": []}, "load": {"kind": loadk, "c": []}}));
    w.done();
}

fn replay_scenario(t: &mut Trace, base: &Path, run: u64, sc: &Value, mc_cfg: &Cfg) {
    let cfg = match sc.get("cfg") {
        Some(c) if c.is_object() => Cfg {
            max_p: c["maxP"].as_u64().unwrap_or(2) as usize,
            max_a: c["maxA"].as_u64().unwrap_or(1) as usize,
            expiry: Duration::from_secs(c["exp"].as_u64().unwrap_or(24 * HOUR)),
        },
        _ => mc_cfg.clone(),
    };
    let mut w = World::new(base, run, 3, 2, cfg.clone());
    let src = sc["src"].as_str().unwrap_or("tlc").to_string();
    let mut ncorrupt = 0usize;
    for op in sc["ops"].as_array().expect("ops") {
        match op["op"].as_str().expect("op") {
            "Corrupt" => {
                // which corrupt content: rotate through all of them, but every fourth run takes bytes that are not even
                // text (the load then fails while READING the file, not while parsing it)
                let all = corrupt_contents(&cache_json(&[(1, 1, 1, 0, 0), (2, 2, 2, 1, 10)]));
                let non_text: Vec<usize> = all.iter().enumerate().filter(|(_, c)| String::from_utf8(c.1.clone()).is_err()).map(|(j, _)| j).collect();
                let default_i = if run % 4 == 3 && !non_text.is_empty() { non_text[(run as usize / 4 + ncorrupt) % non_text.len()] } else { run as usize * 7 + ncorrupt };
                let i = op.get("i").and_then(|x| x.as_u64()).map(|x| x as usize).unwrap_or(default_i);
                ncorrupt += 1;
                corrupt(t, &mut w, i, &src);
            }
            "SetFile" => {
                let parsed: Value = match &op["entries"] {
                    Value::String(s) => serde_json::from_str(s).expect("entries text"),
                    other => other.clone(),
                };
                let es: Vec<FE> = parsed.as_array().expect("entries").iter()
                    .map(|e| {
                        let k = e[0].as_u64().unwrap();
                        FE { k, a: e[1].as_u64().unwrap(), s: e[2].as_u64().unwrap(), f: e[3].as_u64().unwrap(), age: e[4].as_i64().unwrap(),
                             key: e.get(5).and_then(|x| x.as_u64()).unwrap_or(k), form: e.get(6).and_then(|x| x.as_u64()).unwrap_or(0) }
                    }).collect();
                set_file_x(t, &mut w, &es, "crafted", &src);
            }
            "Delete" => w.env_op(t, "Delete", 0, 0, None, "", &src),
            "ExpireFile" => w.env_op(t, "ExpireFile", op["k"].as_u64().unwrap(), op["a"].as_u64().unwrap(), None, "", &src),
            _ => w.store_op(t, op, &src),
        }
    }
    w.done();
}

fn main() {
    if std::env::var("VERIF_LOUD").is_err() { quiet_panics(); }
    let mode = std::env::args().nth(1).unwrap_or_default();
    if mode == "writer" {
        writer_main();
        return;
    }
    let out = arg("--out").expect("--out");
    let base = PathBuf::from(arg("--dir").expect("--dir"));
    assert!(base.starts_with("/verif/work"), "scratch must live under /verif/work");
    std::fs::create_dir_all(&base).expect("dir");
    let seed = vtrace::seed_from_env();
    let n_rand: usize = arg("--random").and_then(|s| s.parse().ok()).unwrap_or(20);
    let stress_flushes: u64 = arg("--stress").and_then(|s| s.parse().ok()).unwrap_or(0);
    let mut t = Trace::create(&out);
    let mut run = 0u64;
    let mc_cfg = Cfg { max_p: 2, max_a: 1, expiry: Duration::from_secs(24 * HOUR) };
    let mut n_scen = 0u64;
    if let Some(path) = arg("--scenarios") {
        // scenarios are independent (own directory, own stores): replay them on several threads, each thread
        // writing its own part of the trace; the parts are concatenated in scenario order afterwards
        let all = read_ndjson(&path);
        n_scen = all.len() as u64;
        let threads: usize = arg("--threads").and_then(|s| s.parse().ok()).unwrap_or(8).max(1);
        let chunk = all.len().div_ceil(threads).max(1);
        let mut parts = vec![];
        std::thread::scope(|sc| {
            let mut hs = vec![];
            for (ci, ch) in all.chunks(chunk).enumerate() {
                let part = format!("{out}.part{ci}");
                parts.push(part.clone());
                let base = base.clone();
                let mc_cfg = mc_cfg.clone();
                hs.push(sc.spawn(move || {
                    let mut t = Trace::create(&part);
                    for (j, scn) in ch.iter().enumerate() {
                        replay_scenario(&mut t, &base, (ci * chunk + j + 1) as u64, scn, &mc_cfg);
                    }
                    t.finish();
                }));
            }
            for h in hs {
                h.join().expect("replay thread");
            }
        });
        for part in parts {
            for v in read_ndjson(&part) {
                t.emit(v);
            }
            let _ = std::fs::remove_file(&part);
        }
        run = n_scen;
    }
    if !std::env::args().any(|a| a == "--only-scenarios") {
        run += 1; shape_sweep(&mut t, &base, run);
        run += 1; corrupt_sweep(&mut t, &base, run);
        run += 1; counter_sweep(&mut t, &base, run);
        run = merge_grid(&mut t, &base, run);
        run += 1; ports_sweep(&mut t, &base, run);
        run = abnormal_sweep(&mut t, &base, run, enabled("VERIF_ENABLE_DIRTYFILE"));
        run = args_sweep(&mut t, &base, run);
        run += 1; unwritable(&mut t, &base, run);
        let mut r = rng(seed);
        for _ in 0..n_rand {
            run += 1;
            random_run(&mut t, &base, run, &mut r, 40);
        }
        for limit in [0u64, 1, 100, 1000, 4096, 5000, 100_000_000] {
            run += 1;
            torn(&mut t, &base, run, limit);
        }
        if stress_flushes > 0 {
            for writers in [2u64, 3, 4] {
                run += 1;
                stress(&mut t, &base, run, writers, stress_flushes);
            }
            for owners in [2u64, 4, 8] {
                run += 1;
                stress_tasks(&mut t, &base, run, owners, (stress_flushes / 2).max(5));
            }
        }
    }
    let n = t.finish();
    println!("{}", json!({"events": n, "seed": seed, "runs": run, "scenarios": n_scen}));
}
