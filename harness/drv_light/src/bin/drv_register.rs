//! C06 driver: drives the real `ant_registers::{SignedRegister, Register, RegisterCrdt, RegisterOp,
//! Permissions}` with real BLS keys.
//!
//!   drv_register --gen N --out scenarios.ndjson [--limit-runs K] [--heavy-runs H]
//!       writes N seeded random scenarios (pure data, no code under test involved)
//!   drv_register --run scenarios.ndjson --out trace.ndjson [--threads T]
//!       executes scenarios (TLC-generated or random, same format) and logs one event per call
//!
//! A scenario is {id, src, pool, bases, nf, steps}:
//!   pool[i]  = attributes of operation i+1: signer (key id), sigOk, big, deps (node ids), addr (address
//!              id), node (id of the DAG node it carries), vlen (entry length), forge (how an invalid
//!              signature is produced)
//!   bases[r] = base register of honest replica r+1: addr, open, writers (key ids), sigOk
//!   nf[r]    = number of filler operations (valid root operations by the owner, ignored by the
//!              abstraction) the replica is pre-loaded with through add_op, so that the real
//!              entry-count limit (1024) is within reach
//!   steps    = calls: AddOp{r,o} Merge{r,s} VerifiedMerge{r,s} VerifiedMergeCrafted{r,cs,sig}
//!              Verify{r} Read{r} Law{k,p,q,t,vm}
//! Address ids: 1, 2 = two registers (metas) of key 1; 3 = the meta of address 1 under owner key 2.
//! Before the steps every scenario is probed with tampered copies of authorised operations (content / parents
//! rewritten, or re-addressed from another register, signature kept: event Tampered) and with altered base
//! registers carrying the owner's signature over the genuine base (event BaseProbe).
//! Every event carries the real result ("Ok" | "Err:<variant>" | "Panic") and the projected state of
//! the replica touched: ids of the operations held, number of fillers held, the value read through a
//! RegisterCrdt as node ids, and the result of verify() when that is cheap.
use ant_registers::{EntryHash, Permissions, Register, RegisterAddress, RegisterCrdt, RegisterOp, SignedRegister};
use bls::SecretKey;
use rand::seq::SliceRandom;
use rand::Rng;
use serde_json::{json, Value};
use std::collections::{BTreeSet, HashMap, HashSet};
use std::sync::{Arc, Mutex};
use vtrace::{arg, guarded, quiet_panics, read_ndjson, rng, Trace};
use xor_name::XorName;

const REAL_LIMIT: usize = 1024; // MAX_REG_NUM_ENTRIES (private in ant-registers; logged so the oracle knows the scale)
const N_KEYS: usize = 7;
// key ids (1-based in scenarios): 1 owner, 2-3 writers, 4-5 strangers; indices 5 and 6 only ever forge
const FORGE_KEY: usize = 5; // signs a forged operation in place of its claimed signer
const BADBASE_KEY: usize = 6; // signs a base register in place of its owner
/// owner (key id) of address id `a`: addresses 1 and 2 are two registers (metas) of key 1; address 3 is the
/// register with the SAME meta as address 1 owned by key 2 (the owner half of the address varies)
fn owner_of(a: usize) -> usize { if a == 3 { 2 } else { 1 } }
fn meta_of(a: usize) -> XorName { XorName([if a == 3 { 1 } else { a as u8 }; 32]) }
const MAX_FILLERS: usize = 1030;

struct Fillers {
    ops: Vec<RegisterOp>,
    idx: HashMap<RegisterOp, usize>,
    nodes: HashSet<[u8; 32]>,
}

struct World {
    keys: Vec<SecretKey>,
    fillers: Mutex<HashMap<usize, Arc<Fillers>>>,
    padded: Mutex<HashMap<String, Arc<(SignedRegister, String)>>>,
    opcache: Mutex<HashMap<String, (RegisterOp, [u8; 32])>>,
}

fn us(v: &Value) -> usize { v.as_u64().unwrap_or_else(|| panic!("expected number, got {v}")) as usize }
fn ids(v: &Value) -> Vec<usize> { v.as_array().map(|a| a.iter().map(us).collect()).unwrap_or_default() }

fn res_str<T>(r: &Result<Result<T, ant_registers::Error>, String>) -> String {
    match r {
        Ok(Ok(_)) => "Ok".to_string(),
        Ok(Err(e)) => {
            let d = format!("{e:?}");
            let name: String = d.chars().take_while(|c| c.is_alphanumeric()).collect();
            format!("Err:{name}")
        }
        Err(_) => "Panic".to_string(),
    }
}

impl World {
    fn new() -> Self {
        // the keys do not depend on VERIF_SEED, so that a scenario file replays to the same bytes
        let mut r = rng(0xC06);
        let keys = (0..N_KEYS).map(|_| r.gen::<SecretKey>()).collect();
        World { keys, fillers: Mutex::new(HashMap::new()), padded: Mutex::new(HashMap::new()), opcache: Mutex::new(HashMap::new()) }
    }
    fn address(&self, a: usize) -> RegisterAddress {
        RegisterAddress::new(meta_of(a), self.keys[owner_of(a) - 1].public_key())
    }
    fn fillers(&self, a: usize) -> Arc<Fillers> {
        let mut g = self.fillers.lock().expect("lock");
        if let Some(f) = g.get(&a) {
            return f.clone();
        }
        let addr = self.address(a);
        let mut ops = Vec::with_capacity(MAX_FILLERS);
        let mut idx = HashMap::new();
        let mut nodes = HashSet::new();
        for i in 0..MAX_FILLERS {
            let mut c = RegisterCrdt::new(addr);
            let mut val = b"filler".to_vec();
            val.extend_from_slice(&(i as u32).to_be_bytes());
            let (h, ad, node) = c.write(val, &BTreeSet::new()).expect("write");
            let op = RegisterOp::new(ad, node, &self.keys[owner_of(a) - 1]);
            idx.insert(op.clone(), i);
            nodes.insert(h.0);
            ops.push(op);
        }
        let f = Arc::new(Fillers { ops, idx, nodes });
        g.insert(a, f.clone());
        f
    }
    fn perms(&self, b: &Value) -> Permissions {
        if b["open"].as_bool().expect("open") {
            Permissions::new_anyone_can_write()
        } else {
            Permissions::new_with(ids(&b["writers"]).into_iter().map(|k| self.keys[k - 1].public_key()))
        }
    }
    fn register(&self, b: &Value) -> (Register, bls::Signature) {
        let a = us(&b["addr"]);
        let owner = &self.keys[owner_of(a) - 1];
        // Register::new adds the owner to the writers: the scenario's writer list must say so too
        assert!(b["open"].as_bool().expect("open") || ids(&b["writers"]).contains(&owner_of(a)), "base {b}: writers must contain the owner");
        let reg = Register::new(owner.public_key(), meta_of(a), self.perms(b));
        let bytes = reg.bytes().expect("register bytes");
        let sig = if b["sigOk"].as_bool().expect("sigOk") { owner.sign(bytes) } else { self.keys[BADBASE_KEY].sign(bytes) };
        (reg, sig)
    }
    /// C06-1: base registers that are NOT what the owner signed -- the genuine base of `b` with its permissions,
    /// meta or owner swapped -- each to be presented with the owner's signature over the genuine base.
    fn altered_bases(&self, b: &Value) -> Vec<(&'static str, Register)> {
        let a = us(&b["addr"]);
        let owner = self.keys[owner_of(a) - 1].public_key();
        let open = b["open"].as_bool().expect("open");
        let ws = ids(&b["writers"]);
        let stranger = (1..=5usize).rev().find(|k| !ws.contains(k)).unwrap_or(5);
        let mut out = vec![];
        if open {
            // an open register presented as restricted to the owner / to a stranger
            out.push(("perms_restrict", Register::new(owner, meta_of(a), Permissions::new_with([owner]))));
            out.push(("perms_add", Register::new(owner, meta_of(a), Permissions::new_with([self.keys[3].public_key()]))));
        } else {
            // a stranger added to the writers; the register opened to anyone
            let mut w2 = ws.clone();
            w2.push(stranger);
            out.push(("perms_add", Register::new(owner, meta_of(a), Permissions::new_with(w2.into_iter().map(|k| self.keys[k - 1].public_key())))));
            out.push(("perms_open", Register::new(owner, meta_of(a), Permissions::new_anyone_can_write())));
            if ws.len() > 1 {
                out.push(("perms_restrict", Register::new(owner, meta_of(a), Permissions::new_with([owner]))));
            }
        }
        // another meta, same owner and permissions
        out.push(("meta", Register::new(owner, XorName([0xEE; 32]), self.perms(b))));
        // another owner (a writer / a stranger), same meta and permissions
        let other = if owner_of(a) == 2 { 1 } else { 2 };
        out.push(("owner", Register::new(self.keys[other - 1].public_key(), meta_of(a), self.perms(b))));
        out.push(("owner_stranger", Register::new(self.keys[4].public_key(), meta_of(a), self.perms(b))));
        out
    }
    /// an honest replica of base `b` that has been given `nf` fillers through add_op
    fn honest(&self, b: &Value, nf: usize) -> Arc<(SignedRegister, String)> {
        let key = format!("{}|{}", b, nf);
        let mut g = self.padded.lock().expect("lock");
        if let Some(r) = g.get(&key) {
            return r.clone();
        }
        let (reg, sig) = self.register(b);
        let mut sr = SignedRegister::new(reg, sig, BTreeSet::new());
        let mut res = "Ok".to_string();
        if nf > 0 {
            let f = self.fillers(us(&b["addr"]));
            for op in f.ops.iter().take(nf) {
                let r = guarded(|| sr.add_op(op.clone()));
                let s = res_str(&r);
                if s != "Ok" && res == "Ok" {
                    res = s;
                }
            }
        }
        let v = Arc::new((sr, res));
        g.insert(key, v.clone());
        v
    }
}

/// operations and DAG nodes of one scenario
struct Pool {
    ops: Vec<RegisterOp>,
    id_of: HashMap<RegisterOp, usize>,
    node_of: HashMap<[u8; 32], usize>,
}

fn node_canon(pool: &[Value], node: usize, depth: usize) -> String {
    assert!(depth < 64, "cyclic deps in scenario");
    let o = pool.iter().find(|o| us(&o["node"]) == node).unwrap_or_else(|| panic!("no op carries node {node}"));
    let mut deps: Vec<String> = ids(&o["deps"]).into_iter().map(|d| node_canon(pool, d, depth + 1)).collect();
    deps.sort();
    format!("n{}v{}[{}]", node, us(&o["vlen"]), deps.join(","))
}

fn build_pool(w: &World, pool: &[Value]) -> Pool {
    let mut out = Pool { ops: vec![], id_of: HashMap::new(), node_of: HashMap::new() };
    for (i, o) in pool.iter().enumerate() {
        let node = us(&o["node"]);
        let key = format!("a{}s{}k{}f{}|{}", us(&o["addr"]), us(&o["signer"]), o["sigOk"], us(&o["forge"]), node_canon(pool, node, 0));
        let cached = w.opcache.lock().expect("lock").get(&key).cloned();
        let (op, h) = match cached {
            Some(x) => x,
            None => {
                let x = build_op(w, pool, o);
                w.opcache.lock().expect("lock").insert(key, x.clone());
                x
            }
        };
        out.id_of.insert(op.clone(), i + 1);
        out.node_of.insert(h, node);
        out.ops.push(op);
    }
    out
}

fn node_hash(w: &World, pool: &[Value], node: usize, addr: RegisterAddress) -> (EntryHash, ant_registers::RegisterAddress, Vec<u8>, BTreeSet<EntryHash>) {
    let o = pool.iter().find(|o| us(&o["node"]) == node).expect("node");
    let children: BTreeSet<EntryHash> = ids(&o["deps"]).into_iter().map(|d| node_hash(w, pool, d, addr).0).collect();
    let vlen = us(&o["vlen"]);
    let mut val = format!("node{node}:").into_bytes();
    val.resize(vlen.max(1), 0x2e);
    if vlen == 0 { val.clear(); }
    let mut c = RegisterCrdt::new(addr);
    let (h, a, _) = c.write(val.clone(), &children).expect("write");
    (h, a, val, children)
}

fn build_op(w: &World, pool: &[Value], o: &Value) -> (RegisterOp, [u8; 32]) {
    let addr = w.address(us(&o["addr"]));
    let (h, a, val, children) = node_hash(w, pool, us(&o["node"]), addr);
    let mut c = RegisterCrdt::new(addr);
    let (_, _, node) = c.write(val, &children).expect("write");
    let signer = &w.keys[us(&o["signer"]) - 1];
    let good = RegisterOp::new(a, node.clone(), signer);
    if o["sigOk"].as_bool().expect("sigOk") {
        return (good, h.0);
    }
    // an operation that claims `signer` as its source but whose signature does not verify
    let forged = match us(&o["forge"]) {
        // signed by another key, source replaced by the claimed signer
        2 => {
            let by_other = RegisterOp::new(a, node, &w.keys[FORGE_KEY]);
            let mut v = serde_json::to_value(&by_other).expect("ser");
            v["source"] = serde_json::to_value(&good).expect("ser")["source"].clone();
            serde_json::from_value::<RegisterOp>(v).expect("de")
        }
        // one byte of the signature flipped (when that still decodes), else as 1
        3 => {
            let mut v = serde_json::to_value(&good).expect("ser");
            let mut done = None;
            if let Some(arr) = v["signature"].as_array().cloned() {
                for pos in [arr.len() / 2, arr.len() - 1, 1] {
                    let mut a2 = arr.clone();
                    a2[pos] = json!((a2[pos].as_u64().unwrap_or(0) ^ 1) & 0xff);
                    let mut v2 = v.clone();
                    v2["signature"] = Value::Array(a2);
                    if let Ok(op) = serde_json::from_value::<RegisterOp>(v2) {
                        done = Some(op);
                        break;
                    }
                }
            }
            match done {
                Some(op) => op,
                None => {
                    v["signature"] = serde_json::to_value(signer.sign(b"another message")).expect("ser");
                    serde_json::from_value::<RegisterOp>(v).expect("de")
                }
            }
        }
        // the claimed signer's genuine signature over something else
        _ => {
            let mut v = serde_json::to_value(&good).expect("ser");
            v["signature"] = serde_json::to_value(signer.sign(b"another message")).expect("ser");
            serde_json::from_value::<RegisterOp>(v).expect("de")
        }
    };
    (forged, h.0)
}

struct Proj {
    ops: Vec<usize>,
    nf: usize,
    nfmax: usize,
    read: Vec<usize>,
    nfr: usize,
    rerr: usize,
}

fn project(reg: &SignedRegister, p: &Pool, f: &Fillers) -> Result<Proj, String> {
    guarded(|| {
        let mut ops = vec![];
        let (mut nf, mut nfmax) = (0usize, 0usize);
        let mut crdt = RegisterCrdt::new(*reg.address());
        let mut rerr = 0;
        for op in reg.ops() {
            if let Some(i) = p.id_of.get(op) {
                ops.push(*i);
            } else if let Some(i) = f.idx.get(op) {
                nf += 1;
                nfmax = nfmax.max(*i + 1);
            } else {
                ops.push(0);
            }
            if crdt.apply_op(op.clone()).is_err() {
                rerr += 1;
            }
        }
        ops.sort();
        let mut read = vec![];
        let mut nfr = 0;
        for (h, _) in crdt.read() {
            if let Some(n) = p.node_of.get(&h.0) {
                read.push(*n);
            } else if f.nodes.contains(&h.0) {
                nfr += 1;
            } else {
                read.push(0);
            }
        }
        read.sort();
        read.dedup();
        Proj { ops, nf, nfmax, read, nfr, rerr }
    })
}

/// the replica's CRDT (operations applied in the order the replica holds them: a child may come before its parent)
fn crdt_of(reg: &SignedRegister) -> RegisterCrdt {
    let mut crdt = RegisterCrdt::new(*reg.address());
    for op in reg.ops() {
        let _ = crdt.apply_op(op.clone());
    }
    crdt
}
/// current values of a CRDT as pool node ids (+ number of filler values)
fn crdt_read(crdt: &RegisterCrdt, p: &Pool, f: &Fillers) -> Value {
    let mut read = vec![];
    let mut nfr = 0;
    for (h, _) in crdt.read() {
        if let Some(n) = p.node_of.get(&h.0) { read.push(*n); } else if f.nodes.contains(&h.0) { nfr += 1; } else { read.push(0); }
    }
    read.sort();
    read.dedup();
    json!({"read": read, "nfr": nfr, "size": crdt.size()})
}

fn val_json(ok: bool, reg: &SignedRegister, p: &Pool, f: &Fillers) -> Value {
    match project(reg, p, f) {
        Ok(x) => json!({"ok": ok, "ops": x.ops, "nf": x.nf, "prefix": x.nf == x.nfmax, "read": x.read, "nfr": x.nfr, "rerr": x.rerr}),
        Err(_) => json!({"ok": false, "ops": [0], "nf": 0, "prefix": false, "read": [0], "nfr": 0, "rerr": 0}),
    }
}

fn obs_json(reg: &SignedRegister, p: &Pool, f: &Fillers, cheap: bool) -> Value {
    let mut v = val_json(true, reg, p, f);
    // cheap = no signature checks needed, or only a handful
    let cheap = cheap && (reg.base_register().permissions().can_anyone_write() || reg.ops().len() <= 8);
    let ver = if cheap { res_str(&guarded(|| reg.verify())) } else { "skip".to_string() };
    v["ver"] = json!(ver);
    v.as_object_mut().expect("obj").remove("ok");
    v
}

fn run_scenario(w: &World, sc: &Value, run: u64) -> Vec<Value> {
    let pool_spec = sc["pool"].as_array().expect("pool").clone();
    let bases = sc["bases"].as_array().expect("bases").clone();
    let nfs = ids(&sc["nf"]);
    let src = sc["src"].as_str().unwrap_or("tlc").to_string();
    let p = build_pool(w, &pool_spec);
    let n = bases.len();
    let mut regs: Vec<SignedRegister> = vec![];
    let mut fl: Vec<Arc<Fillers>> = vec![];
    let mut prefill: Vec<String> = vec![];
    for r in 0..n {
        let h = w.honest(&bases[r], nfs[r]);
        regs.push(h.0.clone());
        prefill.push(h.1.clone());
        fl.push(w.fillers(us(&bases[r]["addr"])));
    }
    // verify() checks one BLS signature per operation unless anyone can write: ~1.6 s on a padded replica
    let cheap: Vec<bool> = (0..n).map(|r| nfs[r] == 0 || bases[r]["open"].as_bool().unwrap_or(false)).collect();
    let mut out = vec![];
    let mut seq = 0u64;
    let mut emit = |mut v: Value, out: &mut Vec<Value>| {
        v["run"] = json!(run);
        v["seq"] = json!(seq);
        v["src"] = json!(src);
        seq += 1;
        out.push(v);
    };
    emit(json!({"ev": "Reset", "scn": sc["id"], "limit": REAL_LIMIT, "pool": pool_spec, "bases": bases, "prefill": prefill,
                "obs": (0..n).map(|r| obs_json(&regs[r], &p, &fl[r], cheap[r])).collect::<Vec<_>>()}), &mut out);
    // tampered copies of the first authorised operations: same source and signature, rewritten content
    for (i, o) in pool_spec.iter().enumerate().filter(|(_, o)| o["sigOk"].as_bool().unwrap_or(false) && !o["big"].as_bool().unwrap_or(false)).take(2) {
        let good = p.ops[i].clone();
        let r = 0usize;
        if us(&o["addr"]) != us(&bases[r]["addr"]) { continue; }
        let open = bases[r]["open"].as_bool().unwrap_or(false);
        for kind in ["reparent", "value", "readdress", "readdress_owner"] {
            let mut v = serde_json::to_value(&good).expect("ser");
            if kind == "reparent" {
                let empty = v["crdt_op"]["children"].as_array().map(|a| a.is_empty()).unwrap_or(true);
                v["crdt_op"]["children"] = if empty { json!([vec![7u8; 32]]) } else { json!([]) };
            } else if kind == "value" {
                v["crdt_op"]["value"] = json!(b"tampered entry".to_vec());
            } else {
                // C06-2: the same entry, validly signed by the same signer for ANOTHER register (another meta /
                // the same meta under another owner), presented with this register's address and that signature
                let here = us(&o["addr"]);
                let there = if kind == "readdress" { if here == 2 { 1 } else { 2 } } else if here == 3 { 1 } else { 3 };
                let mut o2 = o.clone();
                o2["addr"] = json!(there);
                let (elsewhere, _) = build_op(w, &pool_spec, &o2);
                if guarded(|| elsewhere.verify_signature(&elsewhere.source())).ok().and_then(|x| x.ok()).is_none() { continue; }
                let address = v["address"].clone();
                v = serde_json::to_value(&elsewhere).expect("ser");
                v["address"] = address;
            }
            let Ok(bad) = serde_json::from_value::<RegisterOp>(v) else { continue };
            if bad == good { continue; }
            let mut fresh = regs[r].clone();
            let res = guarded(|| fresh.add_op(bad.clone()));
            // a register assembled with the tampered op, presented to verify() (the re-addressed ones on their own
            // when the replica is padded and not open: verify() would check ~1021 filler signatures first)
            let alone = kind.starts_with("readdress") && nfs[r] > 0 && !open;
            let mut set: BTreeSet<RegisterOp> = if alone { BTreeSet::new() } else { regs[r].ops().clone() };
            set.insert(bad);
            let (reg, sg) = w.register(&bases[r]);
            let crafted = SignedRegister::new(reg, sg, set);
            let ver = guarded(|| crafted.verify());
            emit(json!({"ev": "Tampered", "r": r + 1, "o": i + 1, "kind": kind, "open": open, "res": res_str(&res), "ver": res_str(&ver)}), &mut out);
        }
    }
    // C06-1: replica 1's base with permissions / meta / owner swapped, presented with the signature the owner gave
    // the genuine base, to verify() and (as the source) to verified_merge() of a replica of the same altered base
    // and of the honest replica
    {
        let r = 0usize;
        let (genuine, sg) = w.register(&bases[r]);
        let ctl = res_str(&guarded(|| SignedRegister::new(genuine.clone(), sg.clone(), BTreeSet::new()).verify()));
        let set: BTreeSet<RegisterOp> = pool_spec.iter().enumerate()
            .filter(|(_, o)| o["sigOk"].as_bool().unwrap_or(false) && !o["big"].as_bool().unwrap_or(false) && us(&o["addr"]) == us(&bases[r]["addr"]))
            .take(4).map(|(i, _)| p.ops[i].clone()).collect();
        for (kind, alt) in w.altered_bases(&bases[r]) {
            // structural comparison, NOT Register::bytes(): whether the signed bytes cover what was altered is the question
            let differs = alt != genuine;
            let crafted = SignedRegister::new(alt.clone(), sg.clone(), set.clone());
            let ver = guarded(|| crafted.verify());
            // verify_with_address = address comparison + verify(): once per scenario, where the address is what was altered
            let vwa = if kind == "meta" { res_str(&guarded(|| crafted.verify_with_address(*crafted.address()))) } else { "skip".to_string() };
            let mut twin = SignedRegister::new(alt.clone(), sg.clone(), BTreeSet::new());
            let vm = guarded(|| twin.verified_merge(&crafted));
            let mut mine = regs[r].clone();
            let before = mine.ops().len();
            let vmh = guarded(|| mine.verified_merge(&crafted));
            emit(json!({"ev": "BaseProbe", "r": r + 1, "kind": kind, "differs": differs, "ctl": ctl, "nops": set.len(),
                        "ver": res_str(&ver), "vwa": vwa, "vm": res_str(&vm), "entered": twin.ops().len(),
                        "vmh": res_str(&vmh), "hentered": mine.ops().len() - before.min(mine.ops().len())}), &mut out);
        }
    }
    for st in sc["steps"].as_array().expect("steps") {
        let a = st["a"].as_str().expect("a");
        let exp = st.get("res").cloned().unwrap_or(json!(""));
        match a {
            "AddOp" => {
                let (r, o) = (us(&st["r"]) - 1, us(&st["o"]));
                let op = p.ops[o - 1].clone();
                let res = guarded(|| regs[r].add_op(op));
                emit(json!({"ev": "AddOp", "r": r + 1, "o": o, "res": res_str(&res), "exp": exp,
                            "obs": obs_json(&regs[r], &p, &fl[r], cheap[r])}), &mut out);
            }
            "Merge" | "VerifiedMerge" => {
                let (r, s) = (us(&st["r"]) - 1, us(&st["s"]) - 1);
                let other = regs[s].clone();
                let res = if a == "Merge" { guarded(|| regs[r].merge(&other)) } else { guarded(|| regs[r].verified_merge(&other)) };
                emit(json!({"ev": a, "r": r + 1, "s": s + 1, "res": res_str(&res), "exp": exp,
                            "obs": obs_json(&regs[r], &p, &fl[r], cheap[r])}), &mut out);
            }
            "VerifiedMergeCrafted" => {
                // a replica of r's register put together by hand: r's filler prefix plus the operations `cs`, no check
                let r = us(&st["r"]) - 1;
                let cs = ids(&st["cs"]);
                let sig = st["sig"].as_bool().expect("sig");
                let mut b = bases[r].clone();
                b["sigOk"] = json!(sig);
                let (reg, sg) = w.register(&b);
                let cnf = st.get("nf").map(us).unwrap_or(nfs[r]);
                let mut set: BTreeSet<RegisterOp> = fl[r].ops.iter().take(cnf).cloned().collect();
                for o in &cs {
                    set.insert(p.ops[*o - 1].clone());
                }
                let crafted = SignedRegister::new(reg, sg, set);
                let res = guarded(|| regs[r].verified_merge(&crafted));
                emit(json!({"ev": "VerifiedMergeCrafted", "r": r + 1, "cs": cs, "sig": sig, "cnf": cnf, "res": res_str(&res), "exp": exp,
                            "obs": obs_json(&regs[r], &p, &fl[r], cheap[r])}), &mut out);
            }
            "Verify" => {
                let r = us(&st["r"]) - 1;
                let res = guarded(|| regs[r].verify());
                emit(json!({"ev": "Verify", "r": r + 1, "res": res_str(&res), "exp": exp}), &mut out);
            }
            "Read" => {
                let r = us(&st["r"]) - 1;
                emit(json!({"ev": "Read", "r": r + 1, "res": "Ok", "obs": obs_json(&regs[r], &p, &fl[r], false), "exp": exp}), &mut out);
            }
            "Law" => {
                let k = st["k"].as_str().expect("k");
                let vm = st.get("vm").and_then(|x| x.as_bool()).unwrap_or(false);
                let (a_, b_, c_) = (us(&st["p"]) - 1, st.get("q").map(|x| us(x) - 1).unwrap_or(0), st.get("t").map(|x| us(x) - 1).unwrap_or(0));
                let mrg = |x: &mut SignedRegister, y: &SignedRegister| -> bool {
                    let r = if vm { guarded(|| x.verified_merge(y)) } else { guarded(|| x.merge(y)) };
                    matches!(r, Ok(Ok(())))
                };
                let (x, y) = match k {
                    "comm" => {
                        let (mut x, mut y) = (regs[a_].clone(), regs[b_].clone());
                        let okx = mrg(&mut x, &regs[b_]);
                        let oky = mrg(&mut y, &regs[a_]);
                        (val_json(okx, &x, &p, &fl[a_]), val_json(oky, &y, &p, &fl[b_]))
                    }
                    "assoc" => {
                        // x = (a + b) + c ; y = a + (b + c)
                        let mut x = regs[a_].clone();
                        let ok1 = mrg(&mut x, &regs[b_]);
                        let ok2 = mrg(&mut x, &regs[c_]);
                        let mut bc = regs[b_].clone();
                        let ok3 = mrg(&mut bc, &regs[c_]);
                        let mut y = regs[a_].clone();
                        let ok4 = mrg(&mut y, &bc);
                        (val_json(ok1 && ok2, &x, &p, &fl[a_]), val_json(ok3 && ok4, &y, &p, &fl[a_]))
                    }
                    "idem" => {
                        let mut x = regs[a_].clone();
                        let copy = regs[a_].clone();
                        let ok = mrg(&mut x, &copy);
                        (val_json(true, &regs[a_], &p, &fl[a_]), val_json(ok, &x, &p, &fl[a_]))
                    }
                    _ => panic!("unknown law {k}"),
                };
                // the same law on the CRDT replicas themselves (RegisterCrdt::merge): a + b, b + a, and the CRDT of the
                // merged operation set must present the same current values
                let crdt = if k == "comm" && !vm {
                    let (ca, cb) = (crdt_of(&regs[a_]), crdt_of(&regs[b_]));
                    let r = guarded(|| {
                        let mut ab = ca.clone();
                        ab.merge(cb.clone());
                        let mut ba = cb.clone();
                        ba.merge(ca.clone());
                        let mut u = regs[a_].clone();
                        let _ = u.merge(&regs[b_]);
                        (crdt_read(&ab, &p, &fl[a_]), crdt_read(&ba, &p, &fl[a_]), crdt_read(&crdt_of(&u), &p, &fl[a_]))
                    });
                    match r {
                        Ok((ab, ba, u)) => json!({"done": true, "ab": ab, "ba": ba, "u": u}),
                        Err(_) => json!({"done": true, "ab": {"read": [0], "nfr": 0, "size": 0}, "ba": {"read": [0], "nfr": 1, "size": 0}, "u": {"read": [0], "nfr": 2, "size": 0}}),
                    }
                } else {
                    json!({"done": false, "ab": {"read": [], "nfr": 0, "size": 0}, "ba": {"read": [], "nfr": 0, "size": 0}, "u": {"read": [], "nfr": 0, "size": 0}})
                };
                emit(json!({"ev": "Law", "k": k, "vm": vm, "a": a_ + 1, "b": b_ + 1, "c": c_ + 1, "x": x, "y": y, "crdt": crdt}), &mut out);
            }
            _ => emit(json!({"ev": a, "unknown": true}), &mut out),
        }
    }
    out
}

// ------------------------------------------------------------------ seeded random scenarios (data only)
fn base_json(addr: usize, open: bool, writers: &[usize]) -> Value {
    json!({"addr": addr, "open": open, "writers": if open { vec![] } else { writers.to_vec() }, "sigOk": true})
}

fn gen_scenario(r: &mut impl Rng, id: usize, mode: &str) -> Value {
    // keys: 1 owner, 2-3 writers, 4-5 strangers
    let perm = r.gen_range(0..4);
    let (open, writers): (bool, Vec<usize>) = match perm { 0 => (false, vec![1]), 1 => (false, vec![1, 2]), 2 => (false, vec![1, 2, 3]), _ => (true, vec![]) };
    let heavy = mode == "heavy"; // padded and not open: verify costs ~1.6 s, so very few steps verify
    let limit_run = mode != "plain";
    let (open, writers) = if heavy && open { (false, vec![1, 2]) } else if mode == "limit" { (true, vec![]) } else { (open, writers) };
    let n = r.gen_range(3..=5);
    let main = base_json(1, open, &writers);
    let mut bases = vec![];
    for i in 0..n {
        if i >= 2 && r.gen_bool(0.25) && !limit_run {
            if r.gen_bool(0.3) { bases.push(base_json(2, open, &writers)); }
            else if r.gen_bool(0.4) {
                // same meta, other owner (key 2): Register::new makes the owner a writer
                let mut w3 = writers.clone();
                if !w3.contains(&2) { w3.push(2); w3.sort(); }
                bases.push(base_json(3, open, &w3));
            }
            else if open { bases.push(base_json(1, false, &[1, 2])); }
            else { bases.push(base_json(1, r.gen_bool(0.5), &[1, 3])); }
        } else {
            bases.push(main.clone());
        }
    }
    let allowed: Vec<usize> = if open { vec![1, 2, 3, 4, 5] } else { writers.clone() };
    let m = if limit_run { r.gen_range(8..=14) } else { r.gen_range(8..=24) };
    let mut pool: Vec<Value> = vec![];
    let mut next_node = 1usize;
    let mut have_empty = false;
    for _ in 0..m {
        let kind = r.gen_range(0..100);
        let mut deps: Vec<usize> = vec![];
        if next_node > 1 && r.gen_bool(0.6) {
            let k = r.gen_range(1..=2usize);
            for _ in 0..k {
                let lo = if next_node > 6 && r.gen_bool(0.7) { next_node - 5 } else { 1 };
                let d = r.gen_range(lo..next_node);
                if !deps.contains(&d) { deps.push(d); }
            }
        }
        // entry lengths: mostly small, sometimes exactly at the size limit, at most one empty entry per
        // scenario (two empty entries with the same deps would be one and the same DAG node)
        let small = if r.gen_bool(0.1) { 1024 } else if !have_empty && r.gen_bool(0.05) { have_empty = true; 0 } else { r.gen_range(10..40) };
        let o = if kind < 55 || pool.is_empty() {
            json!({"signer": *allowed.choose(r).expect("w"), "sigOk": true, "big": false, "deps": deps, "addr": 1, "node": next_node, "vlen": small, "forge": 0})
        } else if kind < 66 {
            json!({"signer": r.gen_range(4..=5), "sigOk": true, "big": false, "deps": deps, "addr": 1, "node": next_node, "vlen": small, "forge": 0})
        } else if kind < 78 {
            json!({"signer": *[1usize, 2, 3].choose(r).expect("k"), "sigOk": false, "big": false, "deps": deps, "addr": 1, "node": next_node, "vlen": small, "forge": r.gen_range(1..=3)})
        } else if kind < 86 {
            json!({"signer": *allowed.choose(r).expect("w"), "sigOk": true, "big": true, "deps": deps, "addr": 1, "node": next_node, "vlen": if r.gen_bool(0.5) { 1025 } else { r.gen_range(1026..3000) }, "forge": 0})
        } else if kind < 94 {
            // made for another register: another meta (2), or the same meta under another owner (3; half of those by its owner)
            let (addr, signer) = if kind < 90 { (2, *allowed.choose(r).expect("w")) } else { (3, if r.gen_bool(0.5) { 2 } else { *allowed.choose(r).expect("w") }) };
            json!({"signer": signer, "sigOk": true, "big": false, "deps": deps, "addr": addr, "node": next_node, "vlen": small, "forge": 0})
        } else {
            // the same DAG node carried by another operation (other signer / forged copy)
            let prev = pool.choose(r).expect("prev").clone();
            let mut o = prev.clone();
            if r.gen_bool(0.5) { o["signer"] = json!(r.gen_range(1..=5)); o["sigOk"] = json!(true); o["forge"] = json!(0); }
            else { o["sigOk"] = json!(false); o["forge"] = json!(r.gen_range(1..=3)); }
            // one operation per (signer, validity, address, node): two ids must never name the same bytes
            let same = |a: &Value, b: &Value| a["signer"] == b["signer"] && a["sigOk"] == b["sigOk"] && a["addr"] == b["addr"] && a["node"] == b["node"];
            if !pool.iter().any(|x| same(x, &o)) {
                pool.push(o);
            }
            continue;
        };
        next_node += 1;
        pool.push(o);
    }
    let m = pool.len();
    let nf: Vec<usize> = if limit_run {
        let k = r.gen_range(0..=5usize);
        (0..n).map(|_| REAL_LIMIT - k - if r.gen_bool(0.3) { r.gen_range(0..=2) } else { 0 }).collect()
    } else {
        vec![0; n]
    };
    let mut steps: Vec<Value> = vec![];
    // twin phase: the same operations to two replicas in different orders, with duplicates
    let mut subset: Vec<usize> = (1..=m).filter(|_| r.gen_bool(0.5)).collect();
    for target in 0..2usize {
        subset.shuffle(r);
        for o in subset.clone() {
            steps.push(json!({"a": "AddOp", "r": target + 1, "o": o}));
            if r.gen_bool(0.15) { steps.push(json!({"a": "AddOp", "r": target + 1, "o": o})); }
        }
    }
    let len = if heavy { r.gen_range(10..25) } else { r.gen_range(25..60) };
    for _ in 0..len {
        let x = r.gen_range(0..100);
        let a = r.gen_range(1..=n);
        let mut b = r.gen_range(1..=n);
        if b == a { b = a % n + 1; }
        if x < 50 {
            steps.push(json!({"a": "AddOp", "r": a, "o": r.gen_range(1..=m)}));
        } else if x < 65 {
            steps.push(json!({"a": "Merge", "r": a, "s": b}));
        } else if x < 75 {
            if !heavy || r.gen_bool(0.1) { steps.push(json!({"a": "VerifiedMerge", "r": a, "s": b})); }
        } else if x < 82 {
            if !heavy || r.gen_bool(0.1) {
                let k = r.gen_range(1..=3);
                let mut cs: Vec<usize> = (0..k).map(|_| r.gen_range(1..=m)).collect();
                cs.sort(); cs.dedup();
                let cnf = if limit_run && r.gen_bool(0.5) { REAL_LIMIT - r.gen_range(0..=4usize) } else { nf[a - 1] };
                steps.push(json!({"a": "VerifiedMergeCrafted", "r": a, "cs": cs, "sig": r.gen_bool(0.85), "nf": cnf}));
            }
        } else if x < 88 {
            if !heavy { steps.push(json!({"a": "Verify", "r": a})); }
        } else {
            let c = r.gen_range(1..=n);
            let k = ["comm", "assoc", "idem"][r.gen_range(0..3)];
            // C06-4: a third of the law instances through verified_merge (not on padded restricted replicas:
            // every verified merge there checks ~1021 signatures)
            steps.push(json!({"a": "Law", "k": k, "p": a, "q": b, "t": c, "vm": !heavy && r.gen_bool(0.34)}));
        }
    }
    // anti-entropy: two rounds of pairwise merges in a random order; afterwards every replica of the
    // same base register has received the same operations
    for _ in 0..2 {
        let mut pairs: Vec<(usize, usize)> = (1..=n).flat_map(|i| (1..=n).filter(move |j| *j != i).map(move |j| (i, j))).collect();
        pairs.shuffle(r);
        for (i, j) in pairs {
            steps.push(json!({"a": if r.gen_bool(0.3) && !heavy { "VerifiedMerge" } else { "Merge" }, "r": i, "s": j}));
        }
    }
    for i in 1..=n {
        steps.push(json!({"a": "Read", "r": i}));
        if !heavy || i == 1 { steps.push(json!({"a": "Verify", "r": i})); }
    }
    steps.push(json!({"a": "Law", "k": "comm", "p": 1, "q": 2, "t": 1, "vm": false}));
    steps.push(json!({"a": "Law", "k": "assoc", "p": 1, "q": 2, "t": 3, "vm": false}));
    steps.push(json!({"a": "Law", "k": "idem", "p": n, "q": 1, "t": 1, "vm": false}));
    if !heavy {
        steps.push(json!({"a": "Law", "k": "comm", "p": 1, "q": 2, "t": 1, "vm": true}));
        if !limit_run {
            steps.push(json!({"a": "Law", "k": "assoc", "p": 1, "q": 2, "t": 3, "vm": true}));
        }
        steps.push(json!({"a": "Law", "k": "idem", "p": n, "q": 1, "t": 1, "vm": true}));
    }
    json!({"id": id, "src": if limit_run { "limit" } else { "random" }, "pool": pool, "bases": bases, "nf": nf, "steps": steps})
}

static LAST_PANIC: Mutex<String> = Mutex::new(String::new());

fn main() {
    quiet_panics();
    // panics of code under test are data (vtrace::guarded); the text of the last panic is kept only to
    // explain a failure of the driver itself
    std::panic::set_hook(Box::new(|info| {
        if let Ok(mut g) = LAST_PANIC.lock() {
            *g = info.to_string();
        }
    }));
    let out = arg("--out").expect("--out");
    let seed = vtrace::seed_from_env();
    if let Some(n) = arg("--gen") {
        let n: usize = n.parse().expect("--gen N");
        let n_limit: usize = arg("--limit-runs").and_then(|s| s.parse().ok()).unwrap_or(n / 5);
        let n_heavy: usize = arg("--heavy-runs").and_then(|s| s.parse().ok()).unwrap_or(2);
        let first: usize = arg("--first-id").and_then(|s| s.parse().ok()).unwrap_or(1);
        let mut r = rng(seed);
        let mut t = Trace::create(&out);
        for i in 0..n {
            let mode = if i < n_heavy { "heavy" } else if i < n_heavy + n_limit { "limit" } else { "plain" };
            t.emit(gen_scenario(&mut r, first + i, mode));
        }
        let lines = t.finish();
        println!("{}", json!({"scenarios": lines, "seed": seed}));
        return;
    }
    let path = arg("--run").expect("--run or --gen");
    let threads: usize = arg("--threads").and_then(|s| s.parse().ok()).unwrap_or(8);
    let scs = Arc::new(read_ndjson(&path));
    let w = Arc::new(World::new());
    let next = Arc::new(Mutex::new(0usize));
    let results: Arc<Mutex<Vec<Option<Vec<Value>>>>> = Arc::new(Mutex::new(vec![None; scs.len()]));
    let mut hs = vec![];
    for _ in 0..threads.max(1) {
        let (scs, w, next, results) = (scs.clone(), w.clone(), next.clone(), results.clone());
        hs.push(std::thread::Builder::new().stack_size(64 << 20).spawn(move || loop {
            let i = {
                let mut g = next.lock().expect("lock");
                let i = *g;
                *g += 1;
                i
            };
            if i >= scs.len() {
                break;
            }
            let evs = run_scenario(&w, &scs[i], i as u64 + 1);
            results.lock().expect("lock")[i] = Some(evs);
        }).expect("spawn"));
    }
    let mut failed = false;
    for h in hs {
        if h.join().is_err() {
            failed = true;
        }
    }
    if failed {
        eprintln!("driver thread failed (scenario file malformed?): {}", LAST_PANIC.lock().map(|g| g.clone()).unwrap_or_default());
        std::process::exit(3);
    }
    // scenarios are independent; events are written in scenario order, so the trace does not depend on scheduling
    let mut t = Trace::create(&out);
    let res = results.lock().expect("lock");
    for evs in res.iter() {
        for e in evs.as_ref().expect("scenario executed") {
            t.emit(e.clone());
        }
    }
    let n = t.finish();
    println!("{}", json!({"events": n, "scenarios": scs.len(), "seed": seed}));
}
