//! C16 driver: calls the real `ant_evm::AttoTokens` Display / FromStr / checked_add / checked_sub
//! on (a) the bounded-exhaustive case list written by TLC from MCAmount and (b) seeded random and
//! boundary-class inputs, and logs every call with its concrete argument and result.
use ant_evm::{Amount, AttoTokens};
use rand::Rng;
use serde_json::{json, Value};
use std::str::FromStr;
use vtrace::{arg, guarded, quiet_panics, read_ndjson, rng, Trace};

fn digits_to_amount(d: &[u8]) -> Amount {
    let ten = Amount::from(10u64);
    let mut a = Amount::ZERO;
    for &x in d {
        a = a.checked_mul(ten).expect("driver amount fits").checked_add(Amount::from(x as u64)).expect("fits");
    }
    a
}
fn amount_to_digits(mut a: Amount) -> Vec<u8> {
    let ten = Amount::from(10u64);
    let mut out = vec![];
    while !a.is_zero() {
        let r = a % ten;
        out.push(r.as_limbs()[0] as u8);
        a /= ten;
    }
    out.reverse();
    out
}
fn jd(d: &[u8]) -> Value { json!(d) }
fn vd(v: &Value) -> Vec<u8> { v.as_array().expect("digits").iter().map(|x| x.as_u64().expect("digit") as u8).collect() }
fn codes_of(s: &str) -> Value { json!(s.chars().map(|c| c as u32).collect::<Vec<_>>()) }
fn str_of(v: &Value) -> String {
    v.as_array().expect("codes").iter().map(|x| char::from_u32(x.as_u64().expect("code") as u32).expect("char")).collect()
}

fn ev_parse(t: &mut Trace, s: &str, src: &str) {
    let r = guarded(|| AttoTokens::from_str(s));
    let res = match r {
        Ok(Ok(a)) => json!({"k":"ok","v": jd(&amount_to_digits(a.as_atto()))}),
        Ok(Err(_)) => json!({"k":"err"}),
        Err(_) => json!({"k":"panic"}),
    };
    t.emit(json!({"ev":"Parse","s":codes_of(s),"res":res,"src":src,"text":s}));
}
fn ev_display(t: &mut Trace, d: &[u8], src: &str) {
    let a = AttoTokens::from_atto(digits_to_amount(d));
    let r = guarded(|| format!("{a}"));
    match r {
        Ok(s) => {
            t.emit(json!({"ev":"Display","d":jd(d),"res":{"k":"ok","s":codes_of(&s)},"src":src,"text":s}));
            let rr = guarded(|| AttoTokens::from_str(&s));
            let res = match rr {
                Ok(Ok(b)) => json!({"k":"ok","v": jd(&amount_to_digits(b.as_atto()))}),
                Ok(Err(_)) => json!({"k":"err"}),
                Err(_) => json!({"k":"panic"}),
            };
            t.emit(json!({"ev":"RoundTrip","d":jd(d),"res":res,"src":src,"text":s}));
        }
        Err(_) => t.emit(json!({"ev":"Display","d":jd(d),"res":{"k":"panic"},"src":src})),
    }
}
fn ev_arith(t: &mut Trace, a: &[u8], b: &[u8], src: &str) {
    let (x, y) = (AttoTokens::from_atto(digits_to_amount(a)), AttoTokens::from_atto(digits_to_amount(b)));
    for (name, r) in [("Add", guarded(|| x.checked_add(y))), ("Sub", guarded(|| x.checked_sub(y)))] {
        let res = match r {
            Ok(Some(v)) => json!({"k":"some","v": jd(&amount_to_digits(v.as_atto()))}),
            Ok(None) => json!({"k":"none"}),
            Err(_) => json!({"k":"panic"}),
        };
        t.emit(json!({"ev":name,"a":jd(a),"b":jd(b),"res":res,"src":src}));
    }
}

fn rand_amount(r: &mut impl Rng) -> Vec<u8> {
    // random bit length so that all magnitudes are hit
    let bits = r.gen_range(0..=256u32);
    let mut limbs = [0u64; 4];
    for (i, l) in limbs.iter_mut().enumerate() {
        let lo = (i as u32) * 64;
        if bits > lo {
            let n = (bits - lo).min(64);
            let v: u64 = r.gen();
            *l = if n == 64 { v } else { v & ((1u64 << n) - 1) };
        }
    }
    amount_to_digits(Amount::from_limbs(limbs))
}
fn dstr(d: &[u8]) -> String { d.iter().map(|x| (b'0' + x) as char).collect() }

fn main() {
    quiet_panics();
    let out = arg("--out").expect("--out");
    let seed = vtrace::seed_from_env();
    let n_rand: usize = arg("--random").and_then(|s| s.parse().ok()).unwrap_or(300);
    let mut t = Trace::create(&out);
    if let Some(cases) = arg("--cases") {
        for c in read_ndjson(&cases) {
            match c["kind"].as_str().expect("kind") {
                "str" => ev_parse(&mut t, &str_of(&c["s"]), "tlc"),
                "amt" => ev_display(&mut t, &vd(&c["d"]), "tlc"),
                "pair" => ev_arith(&mut t, &vd(&c["a"]), &vd(&c["b"]), "tlc"),
                k => panic!("unknown case kind {k}"),
            }
        }
    }
    if std::env::args().any(|a| a == "--only-cases") {
        let n = t.finish();
        println!("{}", json!({"events": n, "seed": seed}));
        return;
    }
    let mut r = rng(seed);
    let max = amount_to_digits(Amount::MAX);
    // boundary classes for the parser: integer part lengths around the 256-bit limit, fraction lengths
    // around 18, foreign characters at every position of a valid string
    let int_lens = [0usize, 1, 2, 18, 19, 58, 59, 60, 61, 62, 78];
    let frac_lens: [Option<usize>; 10] = [None, Some(0), Some(1), Some(9), Some(10), Some(17), Some(18), Some(19), Some(20), Some(40)];
    for &il in &int_lens {
        for &fl in &frac_lens {
            for variant in 0..3 {
                let mut s = String::new();
                for i in 0..il {
                    let dgt = if i == 0 { r.gen_range(1..=9) } else { r.gen_range(0..=9) };
                    s.push((b'0' + dgt) as char);
                }
                if let Some(fl) = fl {
                    s.push('.');
                    for i in 0..fl {
                        let dgt = match variant { 0 => r.gen_range(0..=9), 1 => if i + 1 == fl { r.gen_range(1..=9) } else { 0 }, _ => if i == 0 { r.gen_range(1..=9) } else { 0 } };
                        s.push((b'0' + dgt) as char);
                    }
                }
                ev_parse(&mut t, &s, "class");
            }
        }
    }
    // around MAX: MAX as "units.frac", MAX+1 atto, MAX+10^18, units of MAX alone, etc.
    let maxs = dstr(&max);
    let (mu, mf) = maxs.split_at(maxs.len() - 18);
    let mf_n: u64 = mf.parse().expect("frac");
    let mu_plus1 = { let mut d = amount_to_digits(digits_to_amount(&vd(&json!(mu.bytes().map(|b| b - b'0').collect::<Vec<_>>()))) + Amount::from(1u64)); if d.is_empty() { d.push(0) } dstr(&d) };
    for s in [
        format!("{mu}.{mf}"), format!("{mu}.{:018}", mf_n + 1), format!("{mu}.{:018}", mf_n - 1),
        format!("{mu}"), format!("{mu_plus1}"), format!("{mu_plus1}.0"), format!("{mu}.999999999999999999"),
        format!("{mu}.{mf}0000"), format!("{maxs}"), format!("0{mu}.{mf}"), format!("{mu}.{}", &mf[..17]),
    ] {
        ev_parse(&mut t, &s, "max");
    }
    // integer parts far longer than the 78 digits of the largest amount, through leading zeros: the value decides
    for k in [1usize, 2, 59, 60, 77, 78, 79, 100, 300] {
        let z = "0".repeat(k);
        for tail in ["".to_string(), "1".to_string(), "1.5".to_string(), ".5".to_string(), "0.000000000000000001".to_string(), format!("{mu}.{mf}"),
                     format!("{mu}.{:018}", mf_n + 1), mu_plus1.clone(), format!("{mu}"), maxs.clone(), "9".repeat(60), "9".repeat(61)] {
            ev_parse(&mut t, &format!("{z}{tail}"), "zeros");
            ev_parse(&mut t, &format!("{z}{tail}.{z}"), "zeros");
        }
    }
    // line ends: a value read from a file or a terminal (not trimmed by the parser: foreign characters)
    for s in ["1\n", "1\r\n", "1\r", "\n1", "\r1", "1.5\n", "1.5\r\n", "1.\n5", "1\n.5", "\n", "\r", "\r\n", "0\n0", "1.000000000000000000\n"] {
        ev_parse(&mut t, s, "foreign");
    }
    // foreign characters inserted in valid strings
    let foreign = ['_', '+', '-', 'x', 'e', ' ', ',', 'b', 'o', '\u{0661}', '\t', '.', '\n', '\r'];
    for base in ["0", "1.5", "12.000000000000000001", "0x10", "100"] {
        for pos in 0..=base.len() {
            for &f in &foreign {
                let mut s = String::from(&base[..pos]);
                s.push(f);
                s.push_str(&base[pos..]);
                ev_parse(&mut t, &s, "foreign");
            }
        }
    }
    for s in ["0b11", "0o17", "0x", "0X1F", "1e18", "١", "1_000", "_", "__1", "1__", ".", "..", "", " 1", "1 ", "-1", "+1", "+", "+.5", "0.+5", "1.-5", "00", "000.000", "0.5_", "NaN", "inf"] {
        ev_parse(&mut t, s, "foreign");
    }
    // boundary amounts for Display
    for d in [vec![], vec![1], max.clone()] { ev_display(&mut t, &d, "class"); }
    for k in [1usize, 8, 9, 10, 17, 18, 19, 20, 36, 77] {
        for lead in [1u8, 9] {
            let mut d = vec![lead]; d.extend(std::iter::repeat(0).take(k));
            if digits_to_amount_checked(&d) { ev_display(&mut t, &d, "class"); }
            let mut d2 = vec![lead]; d2.extend(std::iter::repeat(9).take(k));
            if digits_to_amount_checked(&d2) { ev_display(&mut t, &d2, "class"); }
        }
    }
    for _ in 0..n_rand {
        let a = rand_amount(&mut r);
        ev_display(&mut t, &a, "random");
        let b = rand_amount(&mut r);
        ev_arith(&mut t, &a, &b, "random");
        // complement pairs hit the overflow boundary exactly
        let comp = amount_to_digits(Amount::MAX - digits_to_amount(&a));
        ev_arith(&mut t, &a, &comp, "random");
        let comp1 = amount_to_digits((Amount::MAX - digits_to_amount(&a)).saturating_add(Amount::from(1u64)));
        ev_arith(&mut t, &a, &comp1, "random");
        // pairs whose sum / difference crosses a machine-word boundary inside the range (2^64, 2^128, 2^192)
        for k in [64usize, 128, 192] {
            let edge = Amount::from(1u64) << k;
            let lo = digits_to_amount(&a) % edge;
            for delta in [0u64, 1] {
                let other = (edge - lo).saturating_sub(Amount::from(delta));
                ev_arith(&mut t, &amount_to_digits(lo), &amount_to_digits(other), "random");
                ev_arith(&mut t, &amount_to_digits(edge.saturating_add(lo)), &amount_to_digits(lo.saturating_add(Amount::from(delta))), "random");
            }
        }
        // random decimal string built from an amount with a random presentation
        let s = dstr(&a);
        let cut = r.gen_range(0..=s.len());
        let (ip, fp) = s.split_at(cut);
        let text = match r.gen_range(0..4) { 0 => format!("{ip}.{fp}"), 1 => format!("{ip}"), 2 => format!("{ip}.{fp}000"), _ => format!("0{ip}.{fp}") };
        ev_parse(&mut t, &text, "random");
    }
    let n = t.finish();
    println!("{}", json!({"events": n, "seed": seed}));
}

fn digits_to_amount_checked(d: &[u8]) -> bool {
    let ten = Amount::from(10u64);
    let mut a = Amount::ZERO;
    for &x in d {
        match a.checked_mul(ten).and_then(|v| v.checked_add(Amount::from(x as u64))) { Some(v) => a = v, None => return false }
    }
    true
}
