//! C13 driver: real ed25519 libp2p keypairs, real `PaymentQuote`s signed the way the node signs them
//! (`PaymentQuote::bytes_for_signing` + `Keypair::sign`, public key = `encode_protobuf` -- the three
//! calls of ant-node's `create_quote_for_storecost`, which lives in a crate this driver cannot link),
//! mutated as prescribed by the TLC case list and by seeded random choices, then presented to the real
//! `check_is_signed_by_claimed_peer`, `ProofOfPayment::verify_for` / `payees` / `quotes_by_peer`,
//! `has_expired` (of a quote and of a whole proof), `historical_verify` and `hash`.
//!
//! Every event logs the ABSTRACT PROJECTION of the concrete quote, computed from the concrete bytes by
//! table look-up (value tables per field, public-key bytes -> identity, signature bytes -> (signer,
//! message) as recorded when the signature was made), never copied from the case description, plus the
//! boolean the code returned. Nothing is judged here: the oracle is specs/quote/QuoteTrace.tla.
use ant_evm::{EncodedPeerId, PaymentQuote, ProofOfPayment, QuotingMetrics, RewardsAddress};
use libp2p::identity::Keypair;
use libp2p::PeerId;
use rand::rngs::StdRng;
use rand::{Rng, RngCore, SeedableRng};
use serde_json::{json, Value};
use sha2::{Digest, Sha256};
use std::cell::RefCell;
use std::collections::HashMap;
use std::time::{Duration, Instant, SystemTime, UNIX_EPOCH};
use vtrace::{arg, guarded, quiet_panics, read_ndjson, Trace};
use xor_name::XorName;

const T0: u64 = 1_700_000_000;
const IDS: [&str; 3] = ["A", "B", "C"];

fn rng_for(seed: u64, label: &str) -> StdRng {
    let mut h = Sha256::new();
    h.update(seed.to_le_bytes());
    h.update(label.as_bytes());
    let d: [u8; 32] = h.finalize().into();
    StdRng::from_seed(d)
}

struct World {
    kps: Vec<Keypair>,
    pks: Vec<Vec<u8>>,
    peers: Vec<PeerId>,
    contents: [XorName; 3],
    rewards: [RewardsAddress; 3],
    crs: [usize; 3],
    max: [usize; 3],
    rpc: [usize; 3],
    live: [u64; 3],
    dens: [Option<[u8; 32]>; 3],
    size: [Option<u64>; 3],
    /// signature bytes -> (signer, abstract message) recorded when the signature was made
    sigs: HashMap<Vec<u8>, (String, Value)>,
    /// distinct public-key / signature byte strings seen so far, numbered (identity of the bytes for the hash clause)
    key_ids: RefCell<HashMap<Vec<u8>, usize>>,
    sig_ids: RefCell<HashMap<Vec<u8>, usize>>,
}

/// concrete signed fields of a quote
#[derive(Clone)]
struct Fields {
    content: XorName,
    ts: SystemTime,
    qm: QuotingMetrics,
    rewards: RewardsAddress,
}

impl World {
    fn new(seed: u64) -> Self {
        let mut r = rng_for(seed, "world");
        let kps: Vec<Keypair> = (0..3)
            .map(|_| {
                let mut b = [0u8; 32];
                r.fill_bytes(&mut b);
                Keypair::ed25519_from_bytes(b).expect("ed25519 key")
            })
            .collect();
        let pks = kps.iter().map(|k| k.public().encode_protobuf()).collect();
        let peers = kps.iter().map(|k| k.public().to_peer_id()).collect();
        let a: u64 = r.gen_range(1000..1_000_000);
        World {
            kps,
            pks,
            peers,
            contents: [XorName(r.gen()), XorName(r.gen()), XorName(r.gen())],
            rewards: [RewardsAddress::new(r.gen::<[u8; 20]>()), RewardsAddress::new(r.gen::<[u8; 20]>()), RewardsAddress::new(r.gen::<[u8; 20]>())],
            crs: [r.gen_range(0..100), r.gen_range(100..5000), usize::MAX],
            max: [16384, 16385, 0],
            rpc: [r.gen_range(1..100), r.gen_range(100..200), 0],
            live: [a, a + 1, 0],
            // the optional estimates: a value, the ZERO value (which a flattening encoder confuses with "unset"), unset
            dens: [Some(r.gen()), Some([0u8; 32]), None],
            size: [Some(r.gen_range(1..u64::MAX)), Some(0), None],
            sigs: HashMap::new(),
            key_ids: RefCell::new(HashMap::new()),
            sig_ids: RefCell::new(HashMap::new()),
        }
    }
    fn id_index(name: &str) -> usize {
        IDS.iter().position(|x| *x == name).unwrap_or_else(|| panic!("unknown identity {name}"))
    }
    fn fields(&self, content: usize, ts_off: i64, nanos: u32, m: [usize; 6], rewards: usize) -> Fields {
        Fields {
            content: self.contents[content - 1],
            ts: UNIX_EPOCH + Duration::new((T0 as i64 + ts_off) as u64, nanos),
            qm: QuotingMetrics {
                close_records_stored: self.crs[m[0] - 1],
                max_records: self.max[m[1] - 1],
                received_payment_count: self.rpc[m[2] - 1],
                live_time: self.live[m[3] - 1],
                network_density: self.dens[m[4] - 1],
                network_size: self.size[m[5] - 1],
            },
            rewards: self.rewards[rewards - 1],
        }
    }
    fn pos<T: PartialEq>(tbl: &[T], v: &T) -> usize {
        tbl.iter().position(|x| x == v).map(|i| i + 1).unwrap_or(0)
    }
    /// abstract projection of the signed fields: [content, ts, [m..], rewards]
    fn abs_fields(&self, content: &XorName, ts: &SystemTime, qm: &QuotingMetrics, rewards: &RewardsAddress) -> Value {
        let secs = ts.duration_since(UNIX_EPOCH).map(|d| d.as_secs() as i64).unwrap_or(-1);
        json!([
            Self::pos(&self.contents, content),
            secs - T0 as i64,
            [
                Self::pos(&self.crs, &qm.close_records_stored),
                Self::pos(&self.max, &qm.max_records),
                Self::pos(&self.rpc, &qm.received_payment_count),
                Self::pos(&self.live, &qm.live_time),
                Self::pos(&self.dens, &qm.network_density),
                Self::pos(&self.size, &qm.network_size)
            ],
            Self::pos(&self.rewards, rewards)
        ])
    }
    fn abs_key(&self, pk: &[u8]) -> &'static str {
        self.pks.iter().position(|p| p[..] == pk[..]).map(|i| IDS[i]).unwrap_or("bad")
    }
    fn abs_peer(&self, p: &PeerId) -> &'static str {
        self.peers.iter().position(|x| x == p).map(|i| IDS[i]).unwrap_or("none")
    }
    fn abs_quote(&self, q: &PaymentQuote) -> Value {
        let f = self.abs_fields(&q.content, &q.timestamp, &q.quoting_metrics, &q.rewards_address);
        let sig = match self.sigs.get(&q.signature) {
            Some((who, msg)) => json!({"signer": who, "msg": msg}),
            None => json!({"signer": "none", "msg": []}),
        };
        let intern = |tbl: &RefCell<HashMap<Vec<u8>, usize>>, b: &[u8]| -> usize {
            let mut t = tbl.borrow_mut();
            let n = t.len() + 1;
            *t.entry(b.to_vec()).or_insert(n)
        };
        json!({"content": f[0], "ts": f[1], "m": f[2], "rewards": f[3], "key": self.abs_key(&q.pub_key), "sig": sig,
               "kid": intern(&self.key_ids, &q.pub_key), "sid": intern(&self.sig_ids, &q.signature)})
    }
    /// the node's signing call: bytes_for_signing + keypair.sign; the (signer, message) pair is recorded
    fn sign(&mut self, who: &str, f: &Fields) -> Vec<u8> {
        let bytes = PaymentQuote::bytes_for_signing(f.content, f.ts, &f.qm, &f.rewards);
        let sig = self.kps[Self::id_index(who)].sign(&bytes).expect("sign");
        let msg = self.abs_fields(&f.content, &f.ts, &f.qm, &f.rewards);
        self.sigs.insert(sig.clone(), (who.to_string(), msg));
        sig
    }
    fn quote(&self, f: &Fields, pub_key: Vec<u8>, signature: Vec<u8>) -> PaymentQuote {
        PaymentQuote { content: f.content, timestamp: f.ts, quoting_metrics: f.qm.clone(), rewards_address: f.rewards, pub_key, signature }
    }
    /// an honest quote of `who` over the base fields
    fn honest(&mut self, who: &str) -> PaymentQuote {
        let f = self.fields(1, 0, 0, [1; 6], 1);
        let sig = self.sign(who, &f);
        self.quote(&f, self.pks[Self::id_index(who)].clone(), sig)
    }
}

fn b3(r: Result<bool, String>) -> &'static str {
    match r {
        Ok(true) => "true",
        Ok(false) => "false",
        Err(_) => "panic",
    }
}

fn verify_event(w: &World, t: &mut Trace, base: &PaymentQuote, q: &PaymentQuote, claimed: &str, exp: Value, variant: &str, src: &str) {
    let peer = w.peers[World::id_index(claimed)];
    let res = b3(guarded(|| q.check_is_signed_by_claimed_peer(peer)));
    let heq = b3(guarded(|| q.hash() == base.hash()));
    let pid = match guarded(|| q.peer_id()) {
        Ok(Ok(p)) => w.abs_peer(&p),
        Ok(Err(_)) => "none",
        Err(_) => "panic",
    };
    t.emit(json!({"ev":"Verify","q":w.abs_quote(q),"base":w.abs_quote(base),"claimed":claimed,"res":res,"heq":heq,"pid":pid,"exp":exp,"variant":variant,"src":src}));
}

fn garbage_sigs(r: &mut StdRng, good: &[u8]) -> Vec<(&'static str, Vec<u8>)> {
    let mut flipped = good.to_vec();
    let pos = r.gen_range(0..flipped.len());
    flipped[pos] ^= 1 << r.gen_range(0..8);
    let mut rnd = vec![0u8; 64];
    r.fill_bytes(&mut rnd);
    vec![("flip", flipped), ("empty", vec![]), ("random", rnd), ("truncated", good[..63].to_vec()), ("zeros", vec![0u8; 64])]
}
fn bad_keys(r: &mut StdRng, good: &[u8]) -> Vec<(&'static str, Vec<u8>)> {
    let mut rnd = vec![0u8; 12];
    r.fill_bytes(&mut rnd);
    vec![("empty", vec![]), ("random", rnd), ("truncated", good[..good.len() - 1].to_vec())]
}

fn metric_index(name: &str) -> usize {
    ["crs", "max", "rpc", "live", "dens", "size"].iter().position(|x| *x == name).unwrap_or_else(|| panic!("unknown metric {name}"))
}

fn verify_case(w: &mut World, t: &mut Trace, seed: u64, cs: &Value, all_variants: bool) {
    let base = w.honest("A");
    let mut m = [1usize; 6];
    for name in cs["ms"].as_array().expect("ms") {
        m[metric_index(name.as_str().expect("metric"))] = 2;
    }
    let f = w.fields(
        if cs["content"].as_bool().expect("content") { 2 } else { 1 },
        cs["tsd"].as_i64().expect("tsd"),
        0,
        m,
        if cs["rewards"].as_bool().expect("rewards") { 2 } else { 1 },
    );
    let mut r = rng_for(seed, &format!("verify/{cs}"));
    let key = cs["key"].as_str().expect("key");
    let keys: Vec<(&str, Vec<u8>)> = match key {
        "A" | "B" => vec![("", w.pks[World::id_index(key)].clone())],
        "bad" => {
            let mut v = bad_keys(&mut r, &w.pks[0]);
            if !all_variants {
                let i = r.gen_range(0..v.len());
                v = vec![v.swap_remove(i)];
            }
            v
        }
        x => panic!("unknown key {x}"),
    };
    let sigs: Vec<(&str, Vec<u8>)> = match cs["sigmode"].as_str().expect("sigmode") {
        "keep" => vec![("", base.signature.clone())],
        "byA" => vec![("", w.sign("A", &f))],
        "byB" => vec![("", w.sign("B", &f))],
        "garbage" => {
            let mut v = garbage_sigs(&mut r, &base.signature);
            if !all_variants {
                let i = r.gen_range(0..v.len());
                v = vec![v.swap_remove(i)];
            }
            v
        }
        x => panic!("unknown sigmode {x}"),
    };
    for (kv, k) in &keys {
        for (sv, s) in &sigs {
            let q = w.quote(&f, k.clone(), s.clone());
            verify_event(w, t, &base, &q, cs["claimed"].as_str().expect("claimed"), json!({"res": cs["exp"], "heq": cs["heq"]}), &format!("{kv}/{sv}"), "tlc");
        }
    }
}

fn bad_encoded_peer(r: &mut StdRng) -> EncodedPeerId {
    let n = r.gen_range(0..20);
    let mut b = vec![0u8; n];
    r.fill_bytes(&mut b);
    serde_json::from_value(json!(b)).expect("EncodedPeerId from raw bytes")
}

fn entry(w: &mut World, r: &mut StdRng, kind: &str) -> (EncodedPeerId, PaymentQuote) {
    let q0 = w.honest("A");
    let qb = w.honest("B");
    let enc = |w: &World, who: &str| EncodedPeerId::from(w.peers[World::id_index(who)]);
    match kind {
        "mine" => (enc(w, "A"), q0),
        "valid" => (enc(w, "B"), qb),
        "invalid" => {
            let mut q = qb;
            q.content = w.contents[1];
            (enc(w, "B"), q)
        }
        "foreign" => (enc(w, "C"), qb),
        "claimme" => (enc(w, "A"), qb),
        "mineinvalid" => {
            let mut q = q0;
            q.rewards_address = w.rewards[1];
            (enc(w, "A"), q)
        }
        "badid" => (bad_encoded_peer(r), qb),
        x => panic!("unknown proof entry kind {x}"),
    }
}

fn proof_event(w: &World, t: &mut Trace, p: &ProofOfPayment, me: &str, exp: Value, src: &str) {
    let peer = w.peers[World::id_index(me)];
    let res = b3(guarded(|| p.verify_for(peer)));
    let entries: Vec<Value> = p
        .peer_quotes
        .iter()
        .map(|(e, q)| json!({"claimed": e.to_peer_id().map(|p| w.abs_peer(&p)).unwrap_or("none"), "q": w.abs_quote(q)}))
        .collect();
    let payees: Vec<&str> = guarded(|| p.payees()).map(|v| v.iter().map(|p| w.abs_peer(p)).collect()).unwrap_or_else(|_| vec!["panic"]);
    let qbp = guarded(|| p.quotes_by_peer(&peer).len() as i64).unwrap_or(-1);
    t.emit(json!({"ev":"Proof","entries":entries,"me":me,"res":res,"payees":payees,"qbp":qbp,"exp":exp,"src":src}));
}

fn now_secs() -> u64 {
    SystemTime::now().duration_since(UNIX_EPOCH).expect("clock after epoch").as_secs()
}

/// has_expired on a quote dated `d` whole seconds (+ nanos) after the sampled now
fn expiry_event(t: &mut Trace, d: i64, nanos: u32, exp: Value, src: &str) {
    for _attempt in 0..8 {
        let n0 = now_secs();
        let mut q = PaymentQuote::zero();
        q.timestamp = UNIX_EPOCH + Duration::new((n0 as i64 + d) as u64, nanos);
        let res = b3(guarded(|| q.has_expired()));
        let n1 = now_secs();
        if n1 - n0 <= 1 {
            t.emit(json!({"ev":"Expiry","d":d,"nanos":nanos,"res":res,"dnow":n1 - n0,"exp":exp,"src":src}));
            return;
        }
    }
    panic!("the clock advanced by more than one second during eight consecutive has_expired calls");
}

/// ProofOfPayment::has_expired (the PROOF-level function a node calls) on a proof whose quotes are dated `ds[i]` whole
/// seconds after the sampled now; the payees are the three identities in turn (expiry does not look at them)
fn proof_expiry_event(w: &World, t: &mut Trace, ds: &[i64], exp: Value, src: &str) {
    for _attempt in 0..8 {
        let n0 = now_secs();
        let pq = ds
            .iter()
            .enumerate()
            .map(|(i, d)| {
                let mut q = PaymentQuote::zero();
                q.timestamp = UNIX_EPOCH + Duration::new((n0 as i64 + d) as u64, 0);
                (EncodedPeerId::from(w.peers[i % 3]), q)
            })
            .collect();
        let p = ProofOfPayment { peer_quotes: pq };
        let res = b3(guarded(|| p.has_expired()));
        let n1 = now_secs();
        if n1 - n0 <= 1 {
            t.emit(json!({"ev":"ProofExpiry","ds":ds,"res":res,"dnow":n1 - n0,"exp":exp,"src":src}));
            return;
        }
    }
    panic!("the clock advanced by more than one second during eight consecutive ProofOfPayment::has_expired calls");
}

/// has_expired at the edges themselves: `now` is taken with nanoseconds and the quote is dated exactly `ms`
/// milliseconds from it (-3601000: one second too old; -3599000: one second inside; +2000: in the future). The time
/// from before sampling `now` to after the call is measured on the monotonic clock; a call slower than half a second
/// could have crossed an edge and is voided (logged, not judged).
fn expiry_fine_event(t: &mut Trace, ms: i64, exp: Value, src: &str) {
    let started = Instant::now();
    let now = SystemTime::now();
    let mut q = PaymentQuote::zero();
    q.timestamp = if ms >= 0 { now + Duration::from_millis(ms as u64) } else { now - Duration::from_millis((-ms) as u64) };
    let res = b3(guarded(|| q.has_expired()));
    let elapsed = started.elapsed().as_millis() as u64;
    t.emit(json!({"ev":"ExpiryFine","ms":ms,"res":res,"elapsed_ms":elapsed.min(1_000_000),"void":elapsed > 500,"exp":exp,"src":src}));
}

/// historical_verify between two quotes; timestamps are relative to the sampled now
fn history_event(w: &World, t: &mut Trace, old: (i64, u64, usize), new: (i64, u64, usize), same: bool, selfnewer: bool, exp: Value, src: &str) {
    let n0 = now_secs();
    let mk = |h: (i64, u64, usize), who: usize| {
        let mut q = PaymentQuote::zero();
        q.timestamp = UNIX_EPOCH + Duration::new((n0 as i64 + h.0) as u64, 0);
        q.quoting_metrics.live_time = h.1;
        q.quoting_metrics.received_payment_count = h.2;
        q.pub_key = w.pks[who].clone();
        q
    };
    let qo = mk(old, 0);
    let qn = mk(new, if same { 0 } else { 1 });
    let (a, b, ha, hb) = if selfnewer { (&qn, &qo, new, old) } else { (&qo, &qn, old, new) };
    let res = b3(guarded(|| a.historical_verify(b)));
    let newer = b3(guarded(|| a.is_newer_than(b)));
    let n1 = now_secs();
    t.emit(json!({"ev":"History","a":{"ts":ha.0,"live":ha.1,"rpc":ha.2},"b":{"ts":hb.0,"live":hb.1,"rpc":hb.2},"same":same,
        "res":res,"anewer":newer,"dnow":n1 - n0,"exp":exp,"src":src}));
}

fn random_section(w: &mut World, t: &mut Trace, seed: u64, n: usize) {
    let mut r = rng_for(seed, "random");
    let base = w.honest("A");
    let mut pool: Vec<PaymentQuote> = vec![base.clone(), w.honest("B"), w.honest("C")];
    for i in 0..n {
        // a random quote: random table values, sub-second part, a key, and a signature either fresh, reused or garbled
        let m = [r.gen_range(1..=3), r.gen_range(1..=3), r.gen_range(1..=3), r.gen_range(1..=3), r.gen_range(1..=3), r.gen_range(1..=3)];
        let m = if r.gen_bool(0.5) { [1; 6] } else { m };
        let f = w.fields(
            if r.gen_bool(0.7) { 1 } else { r.gen_range(1..=3) },
            if r.gen_bool(0.6) { 0 } else { r.gen_range(-5..=5) },
            if r.gen_bool(0.5) { 0 } else { r.gen_range(0..1_000_000_000) },
            m,
            if r.gen_bool(0.7) { 1 } else { r.gen_range(1..=3) },
        );
        let signer = IDS[r.gen_range(0..3)];
        let key = match r.gen_range(0..10) {
            0 => bad_keys(&mut r, &w.pks[0])[r.gen_range(0..3)].1.clone(),
            1..=6 => w.pks[World::id_index(signer)].clone(),
            _ => w.pks[r.gen_range(0..3)].clone(),
        };
        let sig = match r.gen_range(0..10) {
            0 => {
                let g = garbage_sigs(&mut r, &base.signature);
                g[r.gen_range(0..g.len())].1.clone()
            }
            1..=2 => pool[r.gen_range(0..pool.len())].signature.clone(),
            _ => w.sign(signer, &f),
        };
        let q = w.quote(&f, key, sig);
        let claimed = if r.gen_bool(0.6) { signer } else { IDS[r.gen_range(0..3)] };
        verify_event(w, t, &base, &q, claimed, json!({}), "random", "random");
        // hash of a pair from the pool (equal pairs included)
        let other = pool[r.gen_range(0..pool.len())].clone();
        let heq = b3(guarded(|| q.hash() == other.hash()));
        t.emit(json!({"ev":"HashPair","q1":w.abs_quote(&q),"q2":w.abs_quote(&other),"heq":heq,"src":"random"}));
        if pool.len() < 400 {
            pool.push(q.clone());
        }
        // a random proof of up to 5 entries drawn from the pool, claimed identities mostly the carried key
        let len = r.gen_range(0..=5);
        let mut pq = vec![];
        for _ in 0..len {
            let q = if r.gen_bool(0.5) { pool[r.gen_range(0..3)].clone() } else { pool[r.gen_range(0..pool.len())].clone() };
            let enc = match r.gen_range(0..10) {
                0 => bad_encoded_peer(&mut r),
                1..=7 => q.peer_id().map(EncodedPeerId::from).unwrap_or_else(|_| EncodedPeerId::from(w.peers[0])),
                _ => EncodedPeerId::from(w.peers[r.gen_range(0..3)]),
            };
            pq.push((enc, q));
        }
        let p = ProofOfPayment { peer_quotes: pq };
        proof_event(w, t, &p, IDS[r.gen_range(0..3)], json!({}), "random");
        // random timestamps, at least 2 s from the side of an edge that the passing of time approaches, 3 s from the other
        if i % 4 == 0 {
            let d: i64 = match r.gen_range(0..4) {
                0 => r.gen_range(-3596..=0),
                1 => r.gen_range(-200_000..=-3604),
                2 => r.gen_range(4..200_000),
                _ => [-3598i64, -3603, -3604, 4, 5, -1, -2, -3597][r.gen_range(0..8)],
            };
            let nanos = if d <= -2 && !(-3605..=-3596).contains(&d) && r.gen_bool(0.5) { r.gen_range(0..1_000_000_000) } else { 0 };
            expiry_event(t, d, nanos, json!({}), "random");
            // a random proof of 0..6 quotes dated at safe distances from the edges: none / one / several of them expired, anywhere
            let plen = r.gen_range(0..=6);
            let spot = if plen > 0 { r.gen_range(0..plen) } else { 0 };
            let mode = r.gen_range(0..4);
            let ds: Vec<i64> = (0..plen)
                .map(|j| {
                    let out = match mode {
                        0 => false,
                        1 => j == spot,
                        2 => r.gen_bool(0.3),
                        _ => j == spot || r.gen_bool(0.5),
                    };
                    if !out { r.gen_range(-3596..=0) } else if r.gen_bool(0.5) { r.gen_range(-200_000..=-3604) } else { r.gen_range(4..200_000) }
                })
                .collect();
            proof_expiry_event(w, t, &ds, json!({}), "random");
            // the edges again with whatever nanoseconds the clock shows now; whole-second offsets are judged, the others noted
            let ms: i64 = match r.gen_range(0..6) {
                0 => -3_601_000,
                1 => -3_599_000,
                2 => 2_000,
                3 => -1_000 * r.gen_range(1..3599i64),
                4 => -1_000 * r.gen_range(3601..100_000i64),
                _ => -3_600_000 - r.gen_range(1..1000i64),
            };
            expiry_fine_event(t, ms, json!({}), "random");
            // random history pair; keep the uptime step >= 3 away from the implementation's margin edge
            let gap = r.gen_range(2..2000i64);
            let ots = -r.gen_range(2100..100_000i64);
            let ol: u64 = r.gen_range(0..1_000_000);
            let oc: usize = r.gen_range(0..1000);
            let dl: i64 = match r.gen_range(0..5) {
                0 => -r.gen_range(1..=(ol as i64).max(1)),
                1 => 0,
                2 => r.gen_range(0..=gap),
                3 => gap + 13 + r.gen_range(0..5000),
                _ => r.gen_range(0..=(gap + 7)),
            };
            let dc: i64 = match r.gen_range(0..3) {
                0 => -r.gen_range(1..=(oc as i64).max(1)),
                1 => 0,
                _ => r.gen_range(1..50),
            };
            let nl = (ol as i64 + dl).max(0) as u64;
            let nc = (oc as i64 + dc).max(0) as usize;
            history_event(w, t, (ots, ol, oc), (ots + gap, nl, nc), r.gen_bool(0.8), r.gen_bool(0.5), json!({}), "random");
        }
    }
}

fn main() {
    quiet_panics();
    let out = arg("--out").expect("--out");
    let seed = vtrace::seed_from_env();
    let n_rand: usize = arg("--random").and_then(|s| s.parse().ok()).unwrap_or(200);
    let all_variants = std::env::args().any(|a| a == "--all-variants");
    let sections: Vec<String> = arg("--sections").unwrap_or_else(|| "cases,class,random".to_string()).split(',').map(|s| s.to_string()).collect();
    let has = |s: &str| sections.iter().any(|x| x == s);
    let mut t = Trace::create(&out);
    let mut w = World::new(seed);
    if has("cases") {
        for cs in read_ndjson(&arg("--cases").expect("--cases")) {
            match cs["kind"].as_str().expect("kind") {
                "verify" => verify_case(&mut w, &mut t, seed, &cs, all_variants),
                "proof" => {
                    let mut r = rng_for(seed, &format!("proof/{cs}"));
                    let pq = cs["shape"].as_array().expect("shape").iter().map(|k| entry(&mut w, &mut r, k.as_str().expect("entry kind"))).collect();
                    proof_event(&w, &mut t, &ProofOfPayment { peer_quotes: pq }, cs["me"].as_str().expect("me"), json!({"res": cs["exp"]}), "tlc");
                }
                "expiry" => expiry_event(&mut t, cs["d"].as_i64().expect("d"), 0, json!({"res": cs["exp"]}), "tlc"),
                "pexpiry" => {
                    let ds: Vec<i64> = cs["ds"].as_array().expect("ds").iter().map(|d| d.as_i64().expect("d")).collect();
                    proof_expiry_event(&w, &mut t, &ds, json!({"res": cs["exp"]}), "tlc");
                }
                "fine" => expiry_fine_event(&mut t, cs["ms"].as_i64().expect("ms"), json!({"res": cs["exp"]}), "tlc"),
                "history" => {
                    let h = |v: &Value| (v["ts"].as_i64().expect("ts"), v["live"].as_u64().expect("live"), v["rpc"].as_u64().expect("rpc") as usize);
                    history_event(&w, &mut t, h(&cs["old"]), h(&cs["new"]), cs["same"].as_bool().expect("same"), cs["selfnewer"].as_bool().expect("selfnewer"),
                        json!({"must": cs["must"], "impl": cs["impl"]}), "tlc");
                }
                k => panic!("unknown case kind {k}"),
            }
        }
    }
    if has("class") {
        // sub-second parts at safe distances from the edges, far past / far future, the epoch itself
        for (d, nanos) in [(-3602i64, 999_999_999u32), (-3700, 500_000_000), (-1800, 1), (-3597, 999_999_999), (-2, 999_999_999), (3, 0), (60, 999_999_999), (-1_000_000_000, 0), (1_000_000_000, 0)] {
            expiry_event(&mut t, d, nanos, json!({}), "class");
        }
        let n0 = now_secs() as i64;
        expiry_event(&mut t, -n0, 0, json!({}), "class");
        // the edges at one second's distance, repeated (the sub-second phase of `now` differs from call to call); half a
        // second past the old edge is an observation only (I4)
        for _ in 0..5 {
            for ms in [-3_601_000i64, -3_599_000, 2_000, -1_000, -3_600_500] {
                expiry_fine_event(&mut t, ms, json!({}), "class");
            }
        }
        // proof-level expiry: the expired quote first / in the middle / last of five, too old or from the future; none; all
        for bad in [-3700i64, 5, -1_000_000, 86_400] {
            for pos in 0..5 {
                let ds: Vec<i64> = (0..5).map(|j| if j == pos { bad } else { -10 * (j as i64 + 1) }).collect();
                proof_expiry_event(&w, &mut t, &ds, json!({}), "class");
            }
        }
        proof_expiry_event(&w, &mut t, &[-10, -20, -30, -40, -50], json!({}), "class");
        proof_expiry_event(&w, &mut t, &[-3700, 5, -3700, 5], json!({}), "class");
        proof_expiry_event(&w, &mut t, &[], json!({}), "class");
        // equal timestamps and future timestamps in history pairs (outside the statement: observations only), lower steps with future timestamps
        history_event(&w, &mut t, (-1000, 500, 5), (-1000, 400, 5), true, true, json!({}), "class");
        history_event(&w, &mut t, (-1000, 500, 5), (-1000, 400, 5), true, false, json!({}), "class");
        history_event(&w, &mut t, (100, 500, 5), (200, 400, 5), true, true, json!({}), "class");
        history_event(&w, &mut t, (100, 500, 5), (200, 500, 4), true, false, json!({}), "class");
        history_event(&w, &mut t, (100, 500, 5), (200, 600, 6), true, false, json!({}), "class");
        history_event(&w, &mut t, (-5000, 0, 0), (-10, 2_000_000_000, 2_000_000_000), true, true, json!({}), "class");
        history_event(&w, &mut t, (-5000, 2_000_000_000, 2_000_000_000), (-10, 0, 0), true, false, json!({}), "class");
        // signature / key boundary: the same concatenated bytes split differently between key and signature hash alike
        let base = w.honest("A");
        let mut q = base.clone();
        let moved = q.signature.remove(0);
        q.pub_key.push(moved);
        let heq = b3(guarded(|| q.hash() == base.hash()));
        t.emit(json!({"ev":"HashAlias","heq":heq,"verifies":b3(guarded(|| q.check_is_signed_by_claimed_peer(w.peers[0]))),"src":"class"}));
    }
    if has("random") {
        random_section(&mut w, &mut t, seed, n_rand);
    }
    let n = t.finish();
    println!("{}", json!({"events": n, "seed": seed}));
}
