//! C11 driver: real distance computations and closeness decisions, logged with SHA-256 digests of the
//! address bytes computed here (sha2 crate), independently of libp2p's KBucketKey.
//! Peer sets come plain and degenerate (the target itself among the peers, duplicated peers, counts 1 / size-1 / more
//! than there are); every peer handed to calculate_get_closest_peers carries its own multiaddrs, which must come back
//! with it. convert_distance_to_u256 is also fed CRAFTED distances (0, 1, 2^255, 2^256-1, leading zero bytes, powers
//! of ten): real `Distance` values obtained from real address distances by XOR-combination (see `crafted`).
#[path = "../nodeworld.rs"]
#[allow(dead_code)]
mod nodeworld;
use ant_evm::U256;
use ant_networking::{sort_peers_by_address, verif_hooks::peers_in_range};
use ant_node::verif_hooks::VerifNode;
use ant_protocol::storage::{ChunkAddress, ScratchpadAddress, TransactionAddress};
use ant_protocol::{convert_distance_to_u256, NetworkAddress};
use ant_registers::RegisterAddress;
use libp2p::identity::Keypair;
use libp2p::{Multiaddr, PeerId};
use rand::{rngs::StdRng, Rng, SeedableRng};
use serde_json::{json, Value};
use sha2::{Digest, Sha256};
use vtrace::{arg, read_ndjson, Trace};
use xor_name::XorName;

fn sha(b: &[u8]) -> Vec<u8> {
    Sha256::digest(b).to_vec()
}
fn peer(rng: &mut StdRng) -> PeerId {
    let mut s = [0u8; 32];
    rng.fill(&mut s);
    PeerId::from(Keypair::ed25519_from_bytes(s).expect("seed").public())
}
fn xn(rng: &mut StdRng) -> XorName {
    let mut b = [0u8; 32];
    rng.fill(&mut b);
    XorName(b)
}
/// an address of the given kind, and the bytes its digest is taken over (built here, not via as_bytes)
fn address(kind: &str, rng: &mut StdRng) -> (NetworkAddress, Vec<u8>) {
    match kind {
        "peer" => {
            let p = peer(rng);
            (NetworkAddress::from_peer(p), p.to_bytes())
        }
        "chunk" => {
            let x = xn(rng);
            (NetworkAddress::from_chunk_address(ChunkAddress::new(x)), x.0.to_vec())
        }
        "transaction" => {
            let x = xn(rng);
            (NetworkAddress::from_transaction_address(TransactionAddress::new(x)), x.0.to_vec())
        }
        // the names of scratchpads / registers are derived HERE from the parts of the address (xor_name crate):
        // hash of the owner key, hash of meta ++ owner key
        "scratchpad" => {
            let pk = nodeworld::bls_key(rng.gen::<u32>() as u64).public_key();
            let a = ScratchpadAddress::new(pk);
            (NetworkAddress::ScratchpadAddress(a), XorName::from_content(&pk.to_bytes()).0.to_vec())
        }
        "register" => {
            let pk = nodeworld::bls_key(rng.gen::<u32>() as u64).public_key();
            let meta = xn(rng);
            let a = RegisterAddress::new(meta, pk);
            let mut b = meta.0.to_vec();
            b.extend_from_slice(&pk.to_bytes());
            (NetworkAddress::from_register_address(a), XorName::from_content(&b).0.to_vec())
        }
        _ => {
            let mut b = vec![0u8; rng.gen_range(1..64)];
            rng.fill(&mut b[..]);
            (NetworkAddress::from_record_key(&libp2p::kad::RecordKey::new(&b)), b)
        }
    }
}
fn u256_bytes(u: U256) -> Vec<u8> {
    u.to_be_bytes::<32>().to_vec()
}
fn xor(a: &[u8], b: &[u8]) -> Vec<u8> {
    a.iter().zip(b).map(|(x, y)| x ^ y).collect()
}

fn ev_dist(t: &mut Trace, a: &(NetworkAddress, Vec<u8>), b: &(NetworkAddress, Vec<u8>), src: &str) {
    let ab = u256_bytes(convert_distance_to_u256(&a.0.distance(&b.0)));
    let ba = u256_bytes(convert_distance_to_u256(&b.0.distance(&a.0)));
    // the same two addresses held as raw record keys (to_record_key / from_record_key are defined for every kind,
    // peers included), and one typed against one raw
    let ar = NetworkAddress::from_record_key(&a.0.to_record_key());
    let br = NetworkAddress::from_record_key(&b.0.to_record_key());
    let ab_raw = u256_bytes(convert_distance_to_u256(&ar.distance(&br)));
    let ab_mixed = u256_bytes(convert_distance_to_u256(&a.0.distance(&br)));
    t.emit(json!({"ev":"Dist","a":sha(&a.1),"b":sha(&b.1),"ab":ab,"ba":ba,"abRaw":ab_raw,"abMixed":ab_mixed,"same":a.0 == b.0 || a.1 == b.1,"src":src}));
}

fn bit(v: &[u8; 32], i: usize) -> bool {
    v[i / 8] & (0x80 >> (i % 8)) != 0
}
fn xor32(a: &[u8; 32], b: &[u8; 32]) -> [u8; 32] {
    let mut o = [0u8; 32];
    for i in 0..32 { o[i] = a[i] ^ b[i]; }
    o
}

/// convert_distance_to_u256 on crafted distances. No two addresses with digests differing in one chosen bit can be
/// searched for, and `Distance` has no public constructor; but the XOR metric is linear: with 320 random addresses
/// a_0..a_319 (all kinds) the digest differences v_i = h(a_0) xor h(a_i) span the whole 256-bit space, so any wanted
/// value T is the XOR of a subset S of them (Gaussian elimination over GF(2) on digests computed HERE with sha2).
/// The real distances d_i = a_0.distance(a_i), i in S, are then combined by libp2p's own `for_distance`
/// (key xor distance) into the key-space point X = h(a_0) xor T, and the REAL `Distance` a_0.distance(X) -- whose
/// value is T -- is handed to the real convert_distance_to_u256.
fn crafted(t: &mut Trace, rng: &mut StdRng, rounds: usize) {
    let kinds = ["peer", "chunk", "register", "scratchpad", "transaction", "recordkey"];
    for round in 0..rounds {
        let addrs: Vec<(NetworkAddress, Vec<u8>)> = (0..320).map(|i| address(kinds[i % 6], rng)).collect();
        let h: Vec<[u8; 32]> = addrs.iter().map(|a| sha(&a.1).try_into().expect("32")).collect();
        // linear basis indexed by leading bit: (vector, subset of 1..320 as bits)
        let mut basis: Vec<Option<([u8; 32], Vec<bool>)>> = vec![None; 256];
        for i in 1..addrs.len() {
            let mut v = xor32(&h[0], &h[i]);
            let mut combo = vec![false; addrs.len()];
            combo[i] = true;
            for b in 0..256 {
                if !bit(&v, b) { continue; }
                match &basis[b] {
                    Some((bv, bc)) => {
                        v = xor32(&v, bv);
                        for k in 0..combo.len() { combo[k] ^= bc[k]; }
                    }
                    None => {
                        basis[b] = Some((v, combo));
                        break;
                    }
                }
            }
        }
        let mut targets: Vec<(String, [u8; 32])> = vec![];
        let u = |x: U256| -> [u8; 32] { x.to_be_bytes::<32>() };
        targets.push(("zero".into(), [0u8; 32]));
        targets.push(("one".into(), u(U256::from(1u8))));
        targets.push(("two".into(), u(U256::from(2u8))));
        targets.push(("max".into(), [255u8; 32]));
        targets.push(("max-1".into(), u(U256::MAX - U256::from(1u8))));
        for k in [7usize, 8, 9, 63, 64, 65, 127, 128, 129, 254, 255] {
            targets.push((format!("2^{k}"), u(U256::from(1u8) << k)));
            targets.push((format!("2^{k}-1"), u((U256::from(1u8) << k) - U256::from(1u8))));
        }
        // decimal lengths: 10^k and 10^k - 1 (the conversion goes through a decimal string)
        for k in [1usize, 2, 9, 10, 19, 20, 38, 39, 76, 77] {
            let p = U256::from(10u8).pow(U256::from(k));
            targets.push((format!("10^{k}"), u(p)));
            targets.push((format!("10^{k}-1"), u(p - U256::from(1u8))));
        }
        // n leading zero bytes followed by random bytes; a lone non-zero byte in each position
        for n in [1usize, 2, 8, 15, 16, 17, 24, 30, 31] {
            let mut v = [0u8; 32];
            rng.fill(&mut v[n..]);
            if v[n] == 0 { v[n] = 1; }
            targets.push((format!("lead0x{n}"), v));
        }
        let pos = rng.gen_range(0..32);
        let mut v = [0u8; 32];
        v[pos] = rng.gen_range(1..=255);
        targets.push((format!("byte@{pos}"), v));
        let k0 = addrs[0].0.as_kbucket_key();
        for (class, want) in targets {
            // solve want = XOR of v_i, i in S
            let mut r = want;
            let mut combo = vec![false; addrs.len()];
            let mut solvable = true;
            for b in 0..256 {
                if !bit(&r, b) { continue; }
                match &basis[b] {
                    Some((bv, bc)) => {
                        r = xor32(&r, bv);
                        for k in 0..combo.len() { combo[k] ^= bc[k]; }
                    }
                    None => { solvable = false; break; }
                }
            }
            if !solvable { continue; } // rank < 256: astronomically unlikely with 319 random vectors; the round's count is logged
            // walk from h(a_0) by the REAL distances of the chosen addresses
            let mut x = k0.for_distance(addrs[0].0.distance(&addrs[0].0));
            let mut used = 0;
            for i in 1..addrs.len() {
                if combo[i] {
                    x = x.for_distance(addrs[0].0.distance(&addrs[i].0));
                    used += 1;
                }
            }
            let d = k0.distance(&x);
            let got = u256_bytes(convert_distance_to_u256(&d));
            t.emit(json!({"ev":"Conv","a":h[0].to_vec(),"b":xor32(&h[0], &want).to_vec(),"ab":got,"class":class,"combined":used,"round":round,"src":"crafted"}));
        }
    }
}

/// a distinct multiaddr per (entry, k): the entry index is in the address and in the port
fn entry_addrs(i: usize, n: usize) -> Vec<Multiaddr> {
    (0..n).map(|k| format!("/ip4/10.{}.{}.{}/udp/{}/quic-v1", (i / 250) % 250, i % 250, k + 1, 20000 + i).parse().expect("multiaddr")).collect()
}
/// entry index encoded in a multiaddr made by `entry_addrs` (+1), 0 if it is none of them
fn entry_of(m: &Multiaddr) -> usize {
    let s = m.to_string();
    let parts: Vec<&str> = s.split('/').collect();
    if parts.len() == 6 && parts[1] == "ip4" && parts[3] == "udp" && parts[5] == "quic-v1" {
        if let (Ok(port), Some(ip)) = (parts[4].parse::<usize>(), Some(parts[2])) {
            let o: Vec<usize> = ip.split('.').filter_map(|x| x.parse().ok()).collect();
            if port >= 20000 && o.len() == 4 && o[0] == 10 && o[1] * 250 + o[2] == port - 20000 {
                return port - 20000 + 1;
            }
        }
    }
    0
}

fn main() {
    let out = arg("--out").expect("--out");
    let seed = vtrace::seed_from_env();
    let reps: usize = arg("--reps").and_then(|s| s.parse().ok()).unwrap_or(2);
    let mut rng = StdRng::seed_from_u64(seed);
    let mut t = Trace::create(&out);
    // a pool to find near addresses (digests sharing leading bytes)
    let pool: Vec<(NetworkAddress, Vec<u8>)> = (0..3000).map(|_| address("chunk", &mut rng)).collect();
    let mut by_digest: Vec<(Vec<u8>, usize)> = pool.iter().enumerate().map(|(i, a)| (sha(&a.1), i)).collect();
    by_digest.sort();
    let cases = arg("--cases").map(|p| read_ndjson(&p)).unwrap_or_default();
    for (cid, c) in cases.iter().enumerate() {
        for _ in 0..reps {
            let kind = c["kind"].as_str().unwrap_or("chunk");
            let size = c["size"].as_u64().unwrap_or(5) as usize;
            let near = c["near"].as_bool().unwrap_or(false);
            let variant = c["variant"].as_str().unwrap_or("plain");
            // degenerate peer sets: the target itself is one of the peers ("self"), peers occur twice ("dup"), both
            let mut peers: Vec<PeerId> = (0..size).map(|_| peer(&mut rng)).collect();
            if (variant == "dup" || variant == "selfdup") && size >= 2 {
                peers[size - 1] = peers[0];
                if size >= 6 { let k = rng.gen_range(1..size - 1); peers[k] = peers[rng.gen_range(1..size - 1)]; }
            }
            let own = if (variant == "self" || variant == "selfdup") && size >= 1 {
                let k = if variant == "selfdup" { 0 } else { rng.gen_range(0..size) };
                Some((NetworkAddress::from_peer(peers[k]), peers[k].to_bytes()))
            } else { None };
            let target = if let Some(o) = own { o } else if near { let i = rng.gen_range(0..by_digest.len() - 1); pool[by_digest[i].1].clone() } else { address(kind, &mut rng) };
            // pairwise distances: same kind, mixed kinds, identical, near neighbours in digest order
            let other = address(kind, &mut rng);
            ev_dist(&mut t, &target, &other, "case");
            ev_dist(&mut t, &target, &target.clone(), "case");
            if near {
                let i = rng.gen_range(0..by_digest.len() - 1);
                ev_dist(&mut t, &pool[by_digest[i].1], &pool[by_digest[i + 1].1], "near");
            }
            let digests: Vec<Vec<u8>> = peers.iter().map(|p| sha(&p.to_bytes())).collect();
            let tdig = sha(&target.1);
            let id_of = |p: &PeerId| peers.iter().position(|x| x == p).map(|i| i + 1).unwrap_or(0);
            // 99: more than there are; 98: all but one
            let n = match c["count"].as_u64().unwrap_or(5) { 99 => size + 1, 98 => size.saturating_sub(1), x => x as usize };
            // sort_peers_by_address returns references INTO `peers`: the entry is identified by its position (exact also
            // when a peer occurs twice)
            match sort_peers_by_address(&peers, &target.0, n) {
                Ok(v) => {
                    let ids: Vec<usize> = v.iter().map(|p| peers.iter().position(|x| std::ptr::eq(x, *p)).map(|i| i + 1).unwrap_or(0)).collect();
                    t.emit(json!({"ev":"Sort","target":tdig,"peers":digests,"n":n,"res":"Ok","out":ids,"cid":cid,"src":"case"}))
                }
                Err(e) => {
                    let name = format!("{e:?}");
                    let name = name.split(|c: char| !c.is_alphanumeric()).next().unwrap_or("Err").to_string();
                    t.emit(json!({"ev":"Sort","target":tdig,"peers":digests,"n":n,"res":name,"out":Vec::<usize>::new(),"cid":cid,"src":"case"}))
                }
            }
            // a range: below all / equal to some distance / above all
            let mut dists: Vec<Vec<u8>> = digests.iter().map(|d| xor(&tdig, d)).collect();
            dists.sort();
            let range_class = c["range"].as_str().unwrap_or("none");
            let range: Option<Vec<u8>> = match range_class {
                "below" => Some(vec![0u8; 32]),
                "above" => Some(vec![255u8; 32]),
                "equal" if !dists.is_empty() => Some(dists[dists.len() / 2].clone()),
                "equal" => Some(vec![7u8; 32]),
                _ => None,
            };
            if let Some(r) = &range {
                let ru = U256::from_be_slice(r);
                let got = peers_in_range(&peers, &target.0, ru);
                t.emit(json!({"ev":"InRange","target":tdig,"peers":digests,"range":r,"out":got.iter().map(|p| id_of(p)).collect::<Vec<_>>(),"cid":cid,"src":"case"}));
            }
            // Node::calculate_get_closest_peers
            // every entry carries its own multiaddrs (one or two; one entry in eight has none)
            let naddr: Vec<usize> = (0..size).map(|_| [1usize, 1, 1, 1, 2, 2, 2, 0][rng.gen_range(0..8)]).collect();
            let peer_addrs: Vec<(PeerId, Vec<Multiaddr>)> = peers.iter().enumerate().map(|(i, p)| (*p, entry_addrs(i, naddr[i]))).collect();
            let has_n = c["count"].as_u64().unwrap_or(0) != 0 || rng.gen_bool(0.5);
            let rb: Option<[u8; 32]> = range.as_ref().map(|r| r.clone().try_into().expect("32"));
            let got = VerifNode::calculate_get_closest_peers(peer_addrs, target.0.clone(), if has_n { Some(n) } else { None }, rb);
            let out: Vec<usize> = got.iter().map(|(a, _)| a.as_peer_id().map(|p| id_of(&p)).unwrap_or(0)).collect();
            // what came back: the digest of each returned address (bytes taken from the peer id it converts to) and the
            // entries its multiaddrs were made for
            let odig: Vec<Vec<u8>> = got.iter().map(|(a, _)| a.as_peer_id().map(|p| sha(&p.to_bytes())).unwrap_or_else(|| vec![0u8; 32])).collect();
            let oaddr: Vec<Vec<usize>> = got.iter().map(|(_, m)| m.iter().map(entry_of).collect()).collect();
            t.emit(json!({"ev":"Closest","target":tdig,"peers":digests,"n":n,"hasN":has_n,"hasRange":range.is_some(),"range":range.clone().unwrap_or(vec![0u8;32]),"out":out,
                "odig":odig,"oaddr":oaddr,"naddr":naddr,"cid":cid,"src":"case"}));
        }
    }
    // crafted distances for the distance-to-integer conversion
    let n_craft: usize = arg("--crafted").and_then(|s| s.parse().ok()).unwrap_or(1);
    crafted(&mut t, &mut rng, n_craft);
    // random mixed-kind pairs
    let kinds = ["peer", "chunk", "register", "scratchpad", "transaction", "recordkey"];
    let n_rand: usize = arg("--random").and_then(|s| s.parse().ok()).unwrap_or(300);
    for _ in 0..n_rand {
        let a = address(kinds[rng.gen_range(0..6)], &mut rng);
        let b = address(kinds[rng.gen_range(0..6)], &mut rng);
        ev_dist(&mut t, &a, &b, "random");
    }
    // replication candidates chosen by a REAL node (SwarmDriver::get_replicate_candidates): routing table of P peers,
    // target = the node itself (periodic replication) or a record (fresh replication), the store's responsible
    // range unset / narrower than the close group / wider / everything
    let n_cand: usize = arg("--candidates").and_then(|s| s.parse().ok()).unwrap_or(30);
    let rt = tokio::runtime::Builder::new_current_thread().enable_all().build().expect("runtime");
    rt.block_on(async {
        let work = std::path::PathBuf::from(arg("--work").unwrap_or_else(|| ".".into())).join("candidates");
        let stub = nodeworld::EvmStub::start();
        for i in 0..n_cand {
            let size = [3usize, 5, 6, 9, 12, 15][i % 6];
            let dir = work.join(format!("n{i}"));
            let mut node = nodeworld::NodeH::new(&mut rng, dir.clone(), stub.network());
            let peers: Vec<PeerId> = (0..size).map(|_| peer(&mut rng)).collect();
            for (j, p) in peers.iter().enumerate() { node.add_peer(p, 43000 + j as u16); }
            let digests: Vec<Vec<u8>> = peers.iter().map(|p| sha(&p.to_bytes())).collect();
            let id_of = |p: &PeerId| peers.iter().position(|x| x == p).map(|i| i + 1).unwrap_or(0);
            let targets = [(NetworkAddress::from_peer(node.peer), node.peer.to_bytes()), address("chunk", &mut rng), address("register", &mut rng)];
            // range classes, applied in this order on the same node (a range cannot be unset again)
            for class in ["none", "narrow", "mid", "all"] {
                for target in targets.iter() {
                    let tdig = sha(&target.1);
                    let mut dists: Vec<Vec<u8>> = digests.iter().map(|d| xor(&tdig, d)).collect();
                    dists.sort();
                    let range: Option<Vec<u8>> = match class {
                        "narrow" => Some(dists[(size - 1).min(rng.gen_range(0..4))].clone()),
                        "mid" => Some(dists[rng.gen_range(0..size)].clone()),
                        "all" => Some(vec![255u8; 32]),
                        _ => None,
                    };
                    if let Some(r) = &range {
                        let s = node.driver.verif_node_store_mut().expect("node store");
                        ant_networking::verif_hooks::store_set_responsible_distance_range(s, U256::from_be_slice(r));
                    }
                    let got = node.driver.verif_replicate_candidates(&target.0);
                    t.emit(json!({"ev":"Candidates","target":tdig,"peers":digests,"hasRange":range.is_some(),"range":range.clone().unwrap_or(vec![0u8;32]),
                        "out":got.iter().map(|p| id_of(p)).collect::<Vec<_>>(),"class":class,"src":"node"}));
                }
            }
            drop(node);
            let _ = std::fs::remove_dir_all(&dir);
        }
    });
    let n = t.finish();
    println!("{}", json!({"events": n, "seed": seed, "cases": cases.len()}));
    let _ = Value::Null;
}
