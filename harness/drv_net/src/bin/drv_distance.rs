//! C11 driver: real distance computations and closeness decisions, logged with SHA-256 digests of the
//! address bytes computed here (sha2 crate), independently of libp2p's KBucketKey.
#[path = "../nodeworld.rs"]
#[allow(dead_code)]
mod nodeworld;
use ant_evm::U256;
use ant_networking::{sort_peers_by_address, verif_hooks::peers_in_range};
use ant_node::verif_hooks::VerifNode;
use ant_protocol::storage::{ChunkAddress, ScratchpadAddress, TransactionAddress};
use ant_protocol::{convert_distance_to_u256, NetworkAddress};
use ant_registers::RegisterAddress;
use libp2p::identity::Keypair;
use libp2p::{Multiaddr, PeerId};
use rand::{rngs::StdRng, Rng, SeedableRng};
use serde_json::{json, Value};
use sha2::{Digest, Sha256};
use vtrace::{arg, read_ndjson, Trace};
use xor_name::XorName;

fn sha(b: &[u8]) -> Vec<u8> {
    Sha256::digest(b).to_vec()
}
fn peer(rng: &mut StdRng) -> PeerId {
    let mut s = [0u8; 32];
    rng.fill(&mut s);
    PeerId::from(Keypair::ed25519_from_bytes(s).expect("seed").public())
}
fn xn(rng: &mut StdRng) -> XorName {
    let mut b = [0u8; 32];
    rng.fill(&mut b);
    XorName(b)
}
/// an address of the given kind, and the bytes its digest is taken over (built here, not via as_bytes)
fn address(kind: &str, rng: &mut StdRng) -> (NetworkAddress, Vec<u8>) {
    match kind {
        "peer" => {
            let p = peer(rng);
            (NetworkAddress::from_peer(p), p.to_bytes())
        }
        "chunk" => {
            let x = xn(rng);
            (NetworkAddress::from_chunk_address(ChunkAddress::new(x)), x.0.to_vec())
        }
        "transaction" => {
            let x = xn(rng);
            (NetworkAddress::from_transaction_address(TransactionAddress::new(x)), x.0.to_vec())
        }
        "scratchpad" => {
            let sk = bls::SecretKey::random();
            let a = ScratchpadAddress::new(sk.public_key());
            (NetworkAddress::ScratchpadAddress(a), a.xorname().0.to_vec())
        }
        "register" => {
            let sk = bls::SecretKey::random();
            let a = RegisterAddress::new(xn(rng), sk.public_key());
            (NetworkAddress::from_register_address(a), a.xorname().0.to_vec())
        }
        _ => {
            let mut b = vec![0u8; rng.gen_range(1..64)];
            rng.fill(&mut b[..]);
            (NetworkAddress::from_record_key(&libp2p::kad::RecordKey::new(&b)), b)
        }
    }
}
fn u256_bytes(u: U256) -> Vec<u8> {
    u.to_be_bytes::<32>().to_vec()
}
fn xor(a: &[u8], b: &[u8]) -> Vec<u8> {
    a.iter().zip(b).map(|(x, y)| x ^ y).collect()
}

fn ev_dist(t: &mut Trace, a: &(NetworkAddress, Vec<u8>), b: &(NetworkAddress, Vec<u8>), src: &str) {
    let ab = u256_bytes(convert_distance_to_u256(&a.0.distance(&b.0)));
    let ba = u256_bytes(convert_distance_to_u256(&b.0.distance(&a.0)));
    // the same two addresses held as raw record keys
    let ar = NetworkAddress::from_record_key(&a.0.to_record_key());
    let br = NetworkAddress::from_record_key(&b.0.to_record_key());
    let raw_ok = matches!(a.0, NetworkAddress::PeerId(_)) || matches!(b.0, NetworkAddress::PeerId(_));
    let ab_raw = if raw_ok { ab.clone() } else { u256_bytes(convert_distance_to_u256(&ar.distance(&br))) };
    t.emit(json!({"ev":"Dist","a":sha(&a.1),"b":sha(&b.1),"ab":ab,"ba":ba,"abRaw":ab_raw,"same":a.0 == b.0 || a.1 == b.1,"src":src}));
}

fn main() {
    let out = arg("--out").expect("--out");
    let seed = vtrace::seed_from_env();
    let reps: usize = arg("--reps").and_then(|s| s.parse().ok()).unwrap_or(2);
    let mut rng = StdRng::seed_from_u64(seed);
    let mut t = Trace::create(&out);
    // a pool to find near addresses (digests sharing leading bytes)
    let pool: Vec<(NetworkAddress, Vec<u8>)> = (0..3000).map(|_| address("chunk", &mut rng)).collect();
    let mut by_digest: Vec<(Vec<u8>, usize)> = pool.iter().enumerate().map(|(i, a)| (sha(&a.1), i)).collect();
    by_digest.sort();
    let cases = arg("--cases").map(|p| read_ndjson(&p)).unwrap_or_default();
    for c in &cases {
        for _ in 0..reps {
            let kind = c["kind"].as_str().unwrap_or("chunk");
            let size = c["size"].as_u64().unwrap_or(5) as usize;
            let near = c["near"].as_bool().unwrap_or(false);
            let target = if near { let i = rng.gen_range(0..by_digest.len() - 1); pool[by_digest[i].1].clone() } else { address(kind, &mut rng) };
            // pairwise distances: same kind, mixed kinds, identical, near neighbours in digest order
            let other = address(kind, &mut rng);
            ev_dist(&mut t, &target, &other, "case");
            ev_dist(&mut t, &target, &target.clone(), "case");
            if near {
                let i = rng.gen_range(0..by_digest.len() - 1);
                ev_dist(&mut t, &pool[by_digest[i].1], &pool[by_digest[i + 1].1], "near");
            }
            let peers: Vec<PeerId> = (0..size).map(|_| peer(&mut rng)).collect();
            let digests: Vec<Vec<u8>> = peers.iter().map(|p| sha(&p.to_bytes())).collect();
            let tdig = sha(&target.1);
            let id_of = |p: &PeerId| peers.iter().position(|x| x == p).map(|i| i + 1).unwrap_or(0);
            let n = match c["count"].as_u64().unwrap_or(5) { 99 => size + 1, x => x as usize };
            // sort_peers_by_address
            match sort_peers_by_address(&peers, &target.0, n) {
                Ok(v) => t.emit(json!({"ev":"Sort","target":tdig,"peers":digests,"n":n,"res":"Ok","out":v.iter().map(|p| id_of(p)).collect::<Vec<_>>(),"src":"case"})),
                Err(e) => {
                    let name = format!("{e:?}");
                    let name = name.split(|c: char| !c.is_alphanumeric()).next().unwrap_or("Err").to_string();
                    t.emit(json!({"ev":"Sort","target":tdig,"peers":digests,"n":n,"res":name,"out":Vec::<usize>::new(),"src":"case"}))
                }
            }
            // a range: below all / equal to some distance / above all
            let mut dists: Vec<Vec<u8>> = digests.iter().map(|d| xor(&tdig, d)).collect();
            dists.sort();
            let range_class = c["range"].as_str().unwrap_or("none");
            let range: Option<Vec<u8>> = match range_class {
                "below" => Some(vec![0u8; 32]),
                "above" => Some(vec![255u8; 32]),
                "equal" if !dists.is_empty() => Some(dists[dists.len() / 2].clone()),
                "equal" => Some(vec![7u8; 32]),
                _ => None,
            };
            if let Some(r) = &range {
                let ru = U256::from_be_slice(r);
                let got = peers_in_range(&peers, &target.0, ru);
                t.emit(json!({"ev":"InRange","target":tdig,"peers":digests,"range":r,"out":got.iter().map(|p| id_of(p)).collect::<Vec<_>>(),"src":"case"}));
            }
            // Node::calculate_get_closest_peers
            let peer_addrs: Vec<(PeerId, Vec<Multiaddr>)> = peers.iter().map(|p| (*p, vec![])).collect();
            let has_n = c["count"].as_u64().unwrap_or(0) != 0 || rng.gen_bool(0.5);
            let rb: Option<[u8; 32]> = range.as_ref().map(|r| r.clone().try_into().expect("32"));
            let got = VerifNode::calculate_get_closest_peers(peer_addrs, target.0.clone(), if has_n { Some(n) } else { None }, rb);
            let out: Vec<usize> = got.iter().map(|(a, _)| a.as_peer_id().map(|p| id_of(&p)).unwrap_or(0)).collect();
            t.emit(json!({"ev":"Closest","target":tdig,"peers":digests,"n":n,"hasN":has_n,"hasRange":range.is_some(),"range":range.clone().unwrap_or(vec![0u8;32]),"out":out,"src":"case"}));
        }
    }
    // random mixed-kind pairs
    let kinds = ["peer", "chunk", "register", "scratchpad", "transaction", "recordkey"];
    let n_rand: usize = arg("--random").and_then(|s| s.parse().ok()).unwrap_or(300);
    for _ in 0..n_rand {
        let a = address(kinds[rng.gen_range(0..6)], &mut rng);
        let b = address(kinds[rng.gen_range(0..6)], &mut rng);
        ev_dist(&mut t, &a, &b, "random");
    }
    // replication candidates chosen by a REAL node (SwarmDriver::get_replicate_candidates): routing table of P peers,
    // target = the node itself (periodic replication) or a record (fresh replication), the store's responsible
    // range unset / narrower than the close group / wider / everything
    let n_cand: usize = arg("--candidates").and_then(|s| s.parse().ok()).unwrap_or(30);
    let rt = tokio::runtime::Builder::new_current_thread().enable_all().build().expect("runtime");
    rt.block_on(async {
        let work = std::path::PathBuf::from(arg("--work").unwrap_or_else(|| ".".into())).join("candidates");
        let stub = nodeworld::EvmStub::start();
        for i in 0..n_cand {
            let size = [3usize, 5, 6, 9, 12, 15][i % 6];
            let dir = work.join(format!("n{i}"));
            let mut node = nodeworld::NodeH::new(&mut rng, dir.clone(), stub.network());
            let peers: Vec<PeerId> = (0..size).map(|_| peer(&mut rng)).collect();
            for (j, p) in peers.iter().enumerate() { node.add_peer(p, 43000 + j as u16); }
            let digests: Vec<Vec<u8>> = peers.iter().map(|p| sha(&p.to_bytes())).collect();
            let id_of = |p: &PeerId| peers.iter().position(|x| x == p).map(|i| i + 1).unwrap_or(0);
            let targets = [(NetworkAddress::from_peer(node.peer), node.peer.to_bytes()), address("chunk", &mut rng), address("register", &mut rng)];
            // range classes, applied in this order on the same node (a range cannot be unset again)
            for class in ["none", "narrow", "mid", "all"] {
                for target in targets.iter() {
                    let tdig = sha(&target.1);
                    let mut dists: Vec<Vec<u8>> = digests.iter().map(|d| xor(&tdig, d)).collect();
                    dists.sort();
                    let range: Option<Vec<u8>> = match class {
                        "narrow" => Some(dists[(size - 1).min(rng.gen_range(0..4))].clone()),
                        "mid" => Some(dists[rng.gen_range(0..size)].clone()),
                        "all" => Some(vec![255u8; 32]),
                        _ => None,
                    };
                    if let Some(r) = &range {
                        let s = node.driver.verif_node_store_mut().expect("node store");
                        ant_networking::verif_hooks::store_set_responsible_distance_range(s, U256::from_be_slice(r));
                    }
                    let got = node.driver.verif_replicate_candidates(&target.0);
                    t.emit(json!({"ev":"Candidates","target":tdig,"peers":digests,"hasRange":range.is_some(),"range":range.clone().unwrap_or(vec![0u8;32]),
                        "out":got.iter().map(|p| id_of(p)).collect::<Vec<_>>(),"class":class,"src":"node"}));
                }
            }
            drop(node);
            let _ = std::fs::remove_dir_all(&dir);
        }
    });
    let n = t.finish();
    println!("{}", json!({"events": n, "seed": seed, "cases": cases.len()}));
    let _ = Value::Null;
}
