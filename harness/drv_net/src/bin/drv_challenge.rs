//! Storage-challenge driver (specs/challenge).
//!   Proof      ChunkProof::new / verify against SHA3-256(bytes ++ nonce) computed HERE
//!   Answer     a REAL node answers Query::GetChunkExistenceProof through the real handle_query
//!   Mark       mark_peer (hook H12) with chosen durations and answers
//!   Challenge  a REAL challenger node runs storage_challenge (hook H12); the harness is the transport: it holds every
//!              SendRequest, lets REAL responder nodes answer through handle_query, or lies / omits / stays silent as
//!              the scenario says; the reports go through the real RecordNodeIssue handler
//!   Client     Network::verify_chunk_existence with the harness answering the close-peer lookup and the requests
//! Digests (SHA-256 of the address bytes) and the proofs' expected values are computed here, never by the code under test.
#[path = "../nodeworld.rs"]
mod nodeworld;
use nodeworld::*;

use ant_evm::RewardsAddress;
use ant_networking::verif_hooks::{LocalSwarmCmd, NetworkSwarmCmd};
use ant_networking::{NetworkError, NodeIssue};
use ant_node::verif_hooks::VerifNode;
use ant_protocol::messages::{ChunkProof, CmdResponse, Nonce, Query, QueryResponse, Request, Response};
use ant_protocol::storage::{RecordKind, RetryStrategy};
use ant_protocol::{error::Error as ProtocolError, NetworkAddress};
use libp2p::kad::{Quorum, Record, RecordKey};
use libp2p::PeerId;
use rand::{rngs::StdRng, Rng, SeedableRng};
use serde_json::{json, Value};
use sha2::{Digest, Sha256};
use std::collections::HashMap;
use std::num::NonZeroUsize;
use std::path::PathBuf;
use std::task::Poll;
use std::time::{Duration, Instant};
use vtrace::{arg, read_ndjson, Trace};

fn uz(v: &Value) -> u64 { v.as_u64().unwrap_or(0) }
fn st<'a>(v: &'a Value, d: &'a str) -> &'a str { v.as_str().unwrap_or(d) }
fn sha(b: &[u8]) -> Vec<u8> { Sha256::digest(b).to_vec() }

// ------------------------------------------------------------------------------------------
// SHA3-256 written out here (FIPS 202: Keccak-f[1600], rate 136, domain 0x06), so that the expected proof does not go
// through the library the code under test uses.
// ------------------------------------------------------------------------------------------
fn keccak_f(st: &mut [u64; 25]) {
    const RC: [u64; 24] = [
        0x0000000000000001, 0x0000000000008082, 0x800000000000808a, 0x8000000080008000, 0x000000000000808b, 0x0000000080000001,
        0x8000000080008081, 0x8000000000008009, 0x000000000000008a, 0x0000000000000088, 0x0000000080008009, 0x000000008000000a,
        0x000000008000808b, 0x800000000000008b, 0x8000000000008089, 0x8000000000008003, 0x8000000000008002, 0x8000000000000080,
        0x000000000000800a, 0x800000008000000a, 0x8000000080008081, 0x8000000000008080, 0x0000000080000001, 0x8000000080008008,
    ];
    const ROTC: [u32; 24] = [1, 3, 6, 10, 15, 21, 28, 36, 45, 55, 2, 14, 27, 41, 56, 8, 25, 43, 62, 18, 39, 61, 20, 44];
    const PILN: [usize; 24] = [10, 7, 11, 17, 18, 3, 5, 16, 8, 21, 24, 4, 15, 23, 19, 13, 12, 2, 20, 14, 22, 9, 6, 1];
    for rc in RC.iter() {
        let mut bc = [0u64; 5];
        for i in 0..5 { bc[i] = st[i] ^ st[i + 5] ^ st[i + 10] ^ st[i + 15] ^ st[i + 20]; }
        for i in 0..5 {
            let t = bc[(i + 4) % 5] ^ bc[(i + 1) % 5].rotate_left(1);
            for j in (0..25).step_by(5) { st[j + i] ^= t; }
        }
        let mut t = st[1];
        for i in 0..24 {
            let j = PILN[i];
            let b = st[j];
            st[j] = t.rotate_left(ROTC[i]);
            t = b;
        }
        for j in (0..25).step_by(5) {
            let mut row = [0u64; 5];
            row.copy_from_slice(&st[j..j + 5]);
            for i in 0..5 { st[j + i] ^= (!row[(i + 1) % 5]) & row[(i + 2) % 5]; }
        }
        st[0] ^= *rc;
    }
}
fn sha3_256(data: &[u8]) -> [u8; 32] {
    const RATE: usize = 136;
    let mut st = [0u64; 25];
    let mut padded = data.to_vec();
    padded.push(0x06);
    while padded.len() % RATE != 0 { padded.push(0); }
    let last = padded.len() - 1;
    padded[last] |= 0x80;
    for block in padded.chunks(RATE) {
        for (i, lane) in block.chunks(8).enumerate() { st[i] ^= u64::from_le_bytes(lane.try_into().expect("lane")); }
        keccak_f(&mut st);
    }
    let mut out = [0u8; 32];
    for i in 0..4 { out[i * 8..(i + 1) * 8].copy_from_slice(&st[i].to_le_bytes()); }
    out
}
fn sha3_selftest() -> bool {
    hex::encode(sha3_256(b"")) == "a7ffc6f8bf1ed76651c14756a061d662f580ff4de43b49fa82d80a4b80f8434a"
        && hex::encode(sha3_256(b"abc")) == "3a985da74fe225b2045c172d6bd390bd855f086e3e9d525b46bfe24511431532"
        && hex::encode(sha3_256(&[0xa3u8; 200])) == "79f38adec5c20307a98ef76e8324afbfd46cfd81b22e3973c65fa1bd9de31787"
}
/// the proof the description prescribes: SHA3-256(record value ++ nonce as 8 big-endian bytes), hex
fn own_proof(value: &[u8], nonce: Nonce) -> String {
    let mut b = value.to_vec();
    b.extend_from_slice(&nonce.to_be_bytes());
    hex::encode(sha3_256(&b))
}
/// the hex digest inside a real ChunkProof (its only view is Debug: `ChunkProof("hex")`)
fn proof_hex(p: &ChunkProof) -> String {
    let s = format!("{p:?}");
    s.trim_start_matches("ChunkProof(\"").trim_end_matches("\")").to_string()
}

// ------------------------------------------------------------------------------------------
// Ids and digests
// ------------------------------------------------------------------------------------------
#[derive(Default)]
struct Ids {
    dig: Vec<Vec<u8>>,
    by_bytes: HashMap<Vec<u8>, usize>,
    emitted: usize,
}
impl Ids {
    /// id of the address whose address bytes are `bytes` (record key bytes / peer id bytes)
    fn id(&mut self, bytes: &[u8]) -> usize {
        if let Some(i) = self.by_bytes.get(bytes) { return *i; }
        self.dig.push(sha(bytes));
        self.by_bytes.insert(bytes.to_vec(), self.dig.len());
        self.dig.len()
    }
    fn flush(&mut self, t: &mut Trace) {
        if self.emitted < self.dig.len() {
            t.emit(json!({"ev":"Keys","from": self.emitted + 1, "dig": self.dig[self.emitted..].to_vec()}));
            self.emitted = self.dig.len();
        }
    }
}
fn xor_dist(a: &[u8], b: &[u8]) -> Vec<u8> { a.iter().zip(b.iter()).map(|(x, y)| x ^ y).collect() }

#[derive(Clone)]
struct Rec {
    key: RecordKey,
    value: Vec<u8>,
    chunk: bool,
    id: usize,
}

struct World {
    ids: Ids,
    /// every record ever made, by id
    recs: HashMap<usize, Rec>,
    /// the records of the challengers (chunks and pads)
    own: Vec<usize>,
    chal: NodeH,
    /// the second challenger (boundary cases): exactly as many peers / chunks as needed, or one less
    chal2: NodeH,
    peers: Vec<NodeH>,
    /// what every responder holds (ids), kept by the harness
    held: Vec<Vec<usize>>,
    client: NodeH,
    rng: StdRng,
    next_chunk: u64,
    run: u64,
}

fn chunk_rec(ids: &mut Ids, n: u64) -> Rec {
    let c = chunk_of(n);
    let key = NetworkAddress::from_chunk_address(*c.address()).to_record_key();
    let id = ids.id(key.as_ref());
    Rec { key, value: ser(&c, RecordKind::Chunk), chunk: true, id }
}
fn pad_rec(ids: &mut Ids, n: u64) -> Rec {
    let owner = bls_key(770_000 + n);
    let p = scratchpad(&owner, &owner, 1, n, false);
    let key = NetworkAddress::ScratchpadAddress(*p.address()).to_record_key();
    let id = ids.id(key.as_ref());
    Rec { key, value: ser(&p, RecordKind::Scratchpad), chunk: false, id }
}

async fn put(n: &mut NodeH, r: &Rec) {
    let node = n.node.clone();
    let res = run_serving(n, node.store_replicated_in_record(record(r.key.clone(), r.value.clone()))).await;
    if let Err(e) = res { panic!("harness: cannot place record {}: {e}", r.id); }
}
fn remove(n: &mut NodeH, r: &Rec) {
    use libp2p::kad::store::RecordStore;
    if let Some(s) = n.driver.verif_node_store_mut() { s.remove(&r.key); }
}

impl World {
    fn rec(&self, id: usize) -> &Rec { self.recs.get(&id).expect("rec") }
    fn peer_id_of(&mut self, p: &PeerId) -> usize { self.ids.id(&p.to_bytes()) }
    fn fresh_chunk(&mut self) -> Rec {
        self.next_chunk += 1;
        let r = chunk_rec(&mut self.ids, self.next_chunk);
        self.recs.insert(r.id, r.clone());
        r
    }
    fn held_view(&self, i: usize) -> Value {
        let mut c: Vec<usize> = self.held[i].iter().cloned().filter(|k| self.rec(*k).chunk).collect();
        let mut o: Vec<usize> = self.held[i].iter().cloned().filter(|k| !self.rec(*k).chunk).collect();
        c.sort();
        o.sort();
        json!({"chunks": c, "others": o})
    }
    /// sanity of the harness's own book-keeping against the node's listing (a mismatch is a tool error)
    fn check_books(&mut self, i: usize) {
        let mut listed: Vec<usize> = self.peers[i].all_listed().iter().map(|k| *self.ids.by_bytes.get(k.as_ref()).unwrap_or(&0)).collect();
        listed.sort();
        let mut mine = self.held[i].clone();
        mine.sort();
        if listed != mine { panic!("harness: responder {i} lists {listed:?}, the harness placed {mine:?}"); }
    }
}

/// the abstract form of a reply's entries: [k, ok, p = [b, n]]; nonces: id 1 = the request's, 2 = `other_nonce`
fn abs_answers(w: &mut World, ans: &[(NetworkAddress, Result<ChunkProof, ProtocolError>)], nonce: Nonce, other_nonce: Nonce) -> Value {
    let mut out = vec![];
    for (addr, res) in ans {
        let k = w.ids.id(addr.to_record_key().as_ref());
        match res {
            Err(_) => out.push(json!({"k": k, "ok": false, "p": {"b": 0, "n": 0}})),
            Ok(p) => {
                let h = proof_hex(p);
                let mut pb = (0usize, 0u64);
                // the bytes of the record itself first, then of every other known record
                let mut cands: Vec<usize> = vec![k];
                cands.extend(w.recs.keys().cloned().filter(|x| *x != k));
                'f: for c in cands {
                    if let Some(r) = w.recs.get(&c) {
                        for (ni, nn) in [(1u64, nonce), (2u64, other_nonce)] {
                            if own_proof(&r.value, nn) == h { pb = (c, ni); break 'f; }
                        }
                    }
                }
                out.push(json!({"k": k, "ok": true, "p": {"b": pb.0, "n": pb.1}}));
            }
        }
    }
    Value::Array(out)
}

// ------------------------------------------------------------------------------------------
// Proof events
// ------------------------------------------------------------------------------------------
fn proof_events(w: &mut World, t: &mut Trace, n: usize) {
    let own = w.own.clone();
    let mut values: Vec<Vec<u8>> = own.iter().take(3).map(|k| w.rec(*k).value.clone()).collect();
    values.push(vec![]);
    let mut v = values[0].clone();
    if let Some(l) = v.last_mut() { *l ^= 1; }
    values.push(v); // last bit flipped
    let mut v = values[0].clone();
    v.push(0);
    values.push(v); // one zero byte longer
    let mut v = values[0].clone();
    v.truncate(values[0].len().saturating_sub(8));
    values.push(v); // a prefix: value ++ nonce must not be confused with a longer value
    let r: u64 = w.rng.gen();
    let nonces: Vec<u64> = vec![0, 1, 256, u64::MAX, r, r ^ 1, r.swap_bytes(), 1u64 << 63];
    let mut cases: Vec<(usize, usize, usize, usize)> = vec![];
    for b1 in 0..values.len() { for n1 in 0..nonces.len() {
        cases.push((b1, n1, b1, n1));
        cases.push((b1, n1, (b1 + 1) % values.len(), n1));
        cases.push((b1, n1, b1, (n1 + 1) % nonces.len()));
    } }
    // value-with-nonce-tail against the shorter value with that tail as nonce: bytes ++ nonce is the same string
    for _ in 0..n { cases.push((w.rng.gen_range(0..values.len()), w.rng.gen_range(0..nonces.len()), w.rng.gen_range(0..values.len()), w.rng.gen_range(0..nonces.len()))); }
    for (b1, n1, b2, n2) in cases {
        let p1 = ChunkProof::new(&values[b1], nonces[n1]);
        let p2 = ChunkProof::new(&values[b2], nonces[n2]);
        let agrees = proof_hex(&p1) == own_proof(&values[b1], nonces[n1]) && proof_hex(&p2) == own_proof(&values[b2], nonces[n2]);
        t.emit(json!({"ev":"Proof","b1":b1 + 1,"n1":n1 + 1,"b2":b2 + 1,"n2":n2 + 1,"verifies":p1.verify(&p2),"agrees":agrees,"src":"class"}));
    }
}

// ------------------------------------------------------------------------------------------
// Answer events: a real node answers a GetChunkExistenceProof query
// ------------------------------------------------------------------------------------------
async fn ask(n: &mut NodeH, key: NetworkAddress, nonce: Nonce, difficulty: usize) -> Response {
    let net = n.network.clone();
    run_serving(n, VerifNode::handle_query(&net, Query::GetChunkExistenceProof { key, nonce, difficulty }, RewardsAddress::default())).await
}
async fn answer_event(w: &mut World, t: &mut Trace, i: usize, key_id: usize, key: NetworkAddress, difficulty: usize, src: &str) {
    let nonce: Nonce = w.rng.gen();
    let resp = ask(&mut w.peers[i], key, nonce, difficulty).await;
    let (kind, ans) = match &resp {
        Response::Query(QueryResponse::GetChunkExistenceProof(a)) => ("proofs", abs_answers(w, a, nonce, nonce.wrapping_add(1))),
        _ => ("other", json!([])),
    };
    w.ids.flush(t);
    let held = w.held_view(i);
    t.emit(json!({"ev":"Answer","node":i + 1,"key":key_id,"nonce":1,"difficulty":difficulty.min(1_000_000),"held":held,"kind":kind,"ans":ans,"src":src}));
}
async fn answer_events(w: &mut World, t: &mut Trace, reps: usize) {
    let own = w.own.clone();
    let chunks: Vec<usize> = own.iter().cloned().filter(|k| w.rec(*k).chunk).collect();
    let pads: Vec<usize> = own.iter().cloned().filter(|k| !w.rec(*k).chunk).collect();
    // responder 6 keeps three chunks and a pad, responder 7 nothing
    let np = w.peers.len();
    for (i, keep) in [(np - 2, 3usize), (np - 1, 0usize)] {
        let drop: Vec<usize> = w.held[i].iter().cloned().filter(|k| !(chunks.iter().take(keep).any(|c| c == k) || (keep > 0 && *k == pads[0]))).collect();
        for k in drop { let r = w.rec(k).clone(); remove(&mut w.peers[i], &r); w.held[i].retain(|x| *x != k); }
        settle(&mut w.peers[i]).await;
        w.check_books(i);
    }
    for rep in 0..reps {
        for i in [0usize, np - 2, np - 1] {
            // keys: a chunk it holds (or the challengers hold), a chunk nobody holds, a pad
            let held_chunk = chunks[w.rng.gen_range(0..chunks.len())];
            let first = chunks[rep % 3];
            let stranger = w.fresh_chunk();
            let pad = pads[rep % pads.len()];
            let keys: Vec<(usize, RecordKey)> = vec![(held_chunk, w.rec(held_chunk).key.clone()), (first, w.rec(first).key.clone()), (stranger.id, stranger.key.clone()), (pad, w.rec(pad).key.clone())];
            for (kid, key) in keys {
                for d in [0usize, 1, 2, 3, 4, 5, 6, 7, 50, usize::MAX] {
                    if rep > 0 && ![1usize, 5, 6].contains(&d) && w.rng.gen_range(0..3) != 0 { continue; }
                    answer_event(w, t, i, kid, NetworkAddress::from_record_key(&key), d, "class").await;
                }
            }
        }
    }
}

// ------------------------------------------------------------------------------------------
// Mark events
// ------------------------------------------------------------------------------------------
fn mark_events(w: &mut World, t: &mut Trace, random: usize) {
    let own = w.own.clone();
    let chunks: Vec<usize> = own.iter().cloned().filter(|k| w.rec(*k).chunk).collect();
    let nonce: Nonce = w.rng.gen();
    let ms_list: Vec<u64> = vec![0, 1, 19, 20, 39, 40, 339, 340, 759, 760, 999, 1000, 1019, 1020, 1039, 1999, 2000, 2001, 100_000];
    // an answer entry: (key index into chunks, how: 0 good, 1 wrong nonce, 2 wrong bytes)
    let shapes: Vec<(usize, Vec<(usize, u8)>, &str)> = vec![
        (5, vec![(0, 0), (1, 0), (2, 0), (3, 0), (4, 0)], "full"),
        (5, vec![(4, 0), (2, 0), (0, 0), (1, 0), (3, 0)], "fullShuffled"),
        (5, vec![(0, 0), (1, 0), (2, 0), (3, 0)], "four"),
        (5, vec![(0, 0), (1, 0), (2, 0)], "three"),
        (5, vec![(1, 0), (3, 0)], "two"),
        (5, vec![(4, 0)], "one"),
        (5, vec![(7, 0), (8, 0)], "foreignOnly"),
        (5, vec![(0, 0), (1, 0), (2, 0), (3, 0), (4, 0), (7, 0), (8, 2)], "fullPlusForeignFalse"),
        (5, vec![(0, 0), (1, 0), (7, 0), (2, 0), (8, 0)], "threePlusForeign"),
        (5, vec![(0, 0), (1, 0), (2, 0), (3, 0), (4, 1)], "lastWrongNonce"),
        (5, vec![(0, 2), (1, 0), (2, 0), (3, 0), (4, 0)], "firstWrongBytes"),
        (5, vec![(2, 1)], "onlyFalse"),
        (5, vec![], "empty"),
        (1, vec![(0, 0)], "oneOfOne"),
        (3, vec![(0, 0), (2, 0)], "twoOfThree"),
        (5, vec![(0, 0), (0, 0), (0, 0), (0, 0), (0, 0)], "dupOneFiveTimes"),
        (5, vec![(0, 0), (1, 0), (2, 0), (0, 0), (1, 0)], "dupThreeToFive"),
    ];
    let mut emit = |w: &mut World, t: &mut Trace, nexp: usize, ans: &Vec<(usize, u8)>, ms: u64, src: &str, shape: &str| {
        let mut expected = HashMap::new();
        for k in chunks.iter().take(nexp) {
            let r = w.rec(*k);
            expected.insert(NetworkAddress::from_record_key(&r.key), ChunkProof::new(&r.value, nonce));
        }
        let mut answers = vec![];
        let mut abs = vec![];
        for (ki, how) in ans {
            let r = w.rec(chunks[*ki]).clone();
            let other = w.rec(chunks[(*ki + 9) % chunks.len()]).clone();
            let p = match how { 0 => ChunkProof::new(&r.value, nonce), 1 => ChunkProof::new(&r.value, nonce.wrapping_add(1)), _ => ChunkProof::new(&other.value, nonce) };
            // good = the proof is SHA3-256(this record's bytes ++ the nonce), judged here
            abs.push(json!({"k": r.id, "good": proof_hex(&p) == own_proof(&r.value, nonce)}));
            answers.push((NetworkAddress::from_record_key(&r.key), p));
        }
        let exp_ids: Vec<usize> = chunks.iter().take(nexp).cloned().collect();
        let score = vtrace::guarded(|| VerifNode::mark_peer(Duration::from_millis(ms), answers, &expected));
        let dup = { let mut s: Vec<usize> = ans.iter().map(|a| a.0).collect(); s.sort(); s.windows(2).any(|p| p[0] == p[1]) };
        t.emit(json!({"ev":"Mark","ms":ms,"expected":exp_ids,"answers":abs,"score": match score { Ok(s) => json!(s), Err(_) => json!(-1) },"dup":dup,"shape":shape,"src":src}));
    };
    for (nexp, ans, name) in &shapes { for ms in &ms_list { emit(w, t, *nexp, ans, *ms, "class", name); } }
    for _ in 0..random {
        let nexp = w.rng.gen_range(1..=5);
        let len = w.rng.gen_range(0..=6);
        let mut ans: Vec<(usize, u8)> = vec![];
        let mut pool: Vec<usize> = (0..9).collect();
        for _ in 0..len { if pool.is_empty() { break; } let j = w.rng.gen_range(0..pool.len()); let ki = pool.remove(j); ans.push((ki, if w.rng.gen_range(0..6) == 0 { w.rng.gen_range(1..=2) } else { 0 })); }
        let ms = match w.rng.gen_range(0..3) { 0 => w.rng.gen_range(0..60), 1 => w.rng.gen_range(300..1100), _ => w.rng.gen_range(0..3000) };
        emit(w, t, nexp, &ans, ms, "random", "random");
    }
}

// ------------------------------------------------------------------------------------------
// Challenge events
// ------------------------------------------------------------------------------------------
type Reply = tokio::sync::oneshot::Sender<Result<Response, NetworkError>>;

#[derive(Clone, Debug)]
struct Beh {
    beh: String,
    lack: Vec<usize>,
    extra: usize,
    at: usize,
    how: String,
}
fn beh_of(v: &Value) -> Beh {
    Beh { beh: st(&v["beh"], "node").to_string(), lack: v["lack"].as_array().map(|a| a.iter().map(|x| uz(x) as usize).collect()).unwrap_or_default(),
          extra: uz(&v["extra"]) as usize, at: uz(&v["at"]).max(1) as usize, how: st(&v["how"], "nonce").to_string() }
}

/// Run one round of storage_challenge on challenger `which` (0 = main, 1 = second). `plan[j]` is the behaviour of the
/// j-th closest peer (own metric). Returns after the event was written.
async fn challenge_event(w: &mut World, t: &mut Trace, which: usize, plan: &[Beh], scn: &Value, src: &str) {
    w.run += 1;
    // ---- the harness's own view: peers of the challenger by closeness, own records
    let (self_peer, known): (PeerId, Vec<PeerId>) = {
        let c = if which == 0 { &mut w.chal } else { &mut w.chal2 };
        let me = c.peer;
        let all = c.driver.verif_closest_k_value_local_peers();
        (me, all.into_iter().filter(|p| *p != me).collect())
    };
    let self_id = w.peer_id_of(&self_peer);
    let known_ids: Vec<usize> = known.iter().map(|p| w.ids.id(&p.to_bytes())).collect();
    let sd = w.ids.dig[self_id - 1].clone();
    let mut ranked: Vec<PeerId> = known.clone();
    ranked.sort_by_key(|p| xor_dist(&sd, &sha(&p.to_bytes())));
    let beh_for = |p: &PeerId| -> Beh {
        ranked.iter().position(|x| x == p).and_then(|j| plan.get(j).cloned()).unwrap_or(Beh { beh: "node".into(), lack: vec![], extra: 0, at: 1, how: "nonce".into() })
    };
    let own_listed: Vec<usize> = {
        let c = if which == 0 { &mut w.chal } else { &mut w.chal2 };
        c.all_listed().iter().map(|k| *w.ids.by_bytes.get(k.as_ref()).unwrap_or(&0)).collect()
    };
    let mut own_chunks: Vec<usize> = own_listed.iter().cloned().filter(|k| w.recs.get(k).map(|r| r.chunk).unwrap_or(false)).collect();
    let mut own_others: Vec<usize> = own_listed.iter().cloned().filter(|k| !w.recs.get(k).map(|r| r.chunk).unwrap_or(false)).collect();
    own_chunks.sort();
    own_others.sort();

    let net = if which == 0 { w.chal.network.clone() } else { w.chal2.network.clone() };
    let fut = VerifNode::storage_challenge(net);
    tokio::pin!(fut);
    let mut expected: Vec<usize> = vec![];
    let mut asked: Vec<usize> = vec![];
    let mut reqs: Vec<Value> = vec![];
    let mut resp: Vec<Value> = vec![];
    let mut reported: Vec<Value> = vec![];
    let mut reported_peers: Vec<PeerId> = vec![];
    let mut req_nonce: Option<Nonce> = None;
    let mut undo_remove: Vec<(usize, usize)> = vec![]; // (responder, record id) removed for this run
    let mut undo_add: Vec<(usize, usize)> = vec![];
    let mut t0: Option<Instant> = None;
    let mut done = false;
    let mut quiet = 0;
    let mut guard = 0u32;
    while quiet < 6 {
        guard += 1;
        if guard > 200_000 { panic!("harness: storage_challenge does not finish"); }
        let mut progressed = 0;
        if !done {
            if let Poll::Ready(()) = futures::poll!(&mut fut) { done = true; progressed += 1; }
        }
        tokio::task::yield_now().await;
        gates_tick();
        // ---- local commands of the challenger, one by one
        loop {
            let cmd = { let c = if which == 0 { &mut w.chal } else { &mut w.chal2 }; c.driver.verif_try_recv_local_cmd() };
            let Some(cmd) = cmd else { break };
            progressed += 1;
            match &cmd {
                LocalSwarmCmd::GetLocalRecord { key, .. } => {
                    let kid = *w.ids.by_bytes.get(key.as_ref()).unwrap_or(&0);
                    if expected.is_empty() {
                        // the target is known now (the closest expected record is the target itself): shape the responders
                        // BEFORE any clock of the challenger starts
                        let target = kid;
                        let td = if target > 0 { w.ids.dig[target - 1].clone() } else { vec![0u8; 32] };
                        let mut by_t = own_chunks.clone();
                        by_t.sort_by_key(|k| xor_dist(&td, &w.ids.dig[*k - 1]));
                        let exp5: Vec<usize> = by_t.iter().take(5).cloned().collect();
                        for (j, p) in ranked.iter().enumerate() {
                            let Some(b) = plan.get(j) else { continue };
                            let Some(i) = w.peers.iter().position(|n| n.peer == *p) else { continue };
                            for rank in &b.lack {
                                if let Some(k) = exp5.get(rank - 1) {
                                    if w.held[i].contains(k) {
                                        let r = w.rec(*k).clone();
                                        remove(&mut w.peers[i], &r);
                                        w.held[i].retain(|x| x != k);
                                        undo_remove.push((i, *k));
                                    }
                                }
                            }
                            // extra chunks the challenger does not hold, closer to the target than its 5th expected record
                            let limit = exp5.last().map(|k| xor_dist(&td, &w.ids.dig[*k - 1])).unwrap_or_default();
                            let mut added = 0;
                            let mut tries = 0;
                            while added < b.extra && tries < 200_000 {
                                tries += 1;
                                w.next_chunk += 1;
                                let c = chunk_of(w.next_chunk);
                                let key = NetworkAddress::from_chunk_address(*c.address()).to_record_key();
                                if xor_dist(&td, &sha(key.as_ref())) < limit {
                                    let r = chunk_rec(&mut w.ids, w.next_chunk);
                                    w.recs.insert(r.id, r.clone());
                                    put(&mut w.peers[i], &r).await;
                                    w.held[i].push(r.id);
                                    undo_add.push((i, r.id));
                                    added += 1;
                                }
                            }
                            settle(&mut w.peers[i]).await;
                        }
                        t0 = Some(Instant::now());
                    }
                    expected.push(kid);
                }
                LocalSwarmCmd::RecordNodeIssue { peer_id, issue } => {
                    let pid = w.ids.id(&peer_id.to_bytes());
                    reported.push(json!({"peer": pid, "kind": format!("{issue:?}")}));
                    reported_peers.push(*peer_id);
                }
                _ => {}
            }
            let c = if which == 0 { &mut w.chal } else { &mut w.chal2 };
            let _ = c.driver.verif_handle_local_cmd(cmd);
        }
        // ---- what the challenger sends
        loop {
            let cmd = { let c = if which == 0 { &mut w.chal } else { &mut w.chal2 }; c.driver.verif_try_recv_network_cmd() };
            let Some(cmd) = cmd else { break };
            progressed += 1;
            let NetworkSwarmCmd::SendRequest { req, peer, sender } = cmd else { continue };
            let Request::Query(Query::GetChunkExistenceProof { key, nonce, difficulty }) = req else { continue };
            let pid = w.ids.id(&peer.to_bytes());
            let kid = w.ids.id(key.to_record_key().as_ref());
            if req_nonce.is_none() { req_nonce = Some(nonce); }
            asked.push(pid);
            reqs.push(json!({"peer": pid, "key": kid, "nonce": if Some(nonce) == req_nonce { 1 } else { 2 }, "difficulty": difficulty.min(1_000_000)}));
            let b = beh_for(&peer);
            let i = w.peers.iter().position(|n| n.peer == peer);
            let sender: Option<Reply> = sender;
            let honest: Vec<(NetworkAddress, Result<ChunkProof, ProtocolError>)> = match i {
                Some(i) if !matches!(b.beh.as_str(), "silent" | "error" | "empty" | "other") => {
                    match ask(&mut w.peers[i], key.clone(), nonce, difficulty).await {
                        Response::Query(QueryResponse::GetChunkExistenceProof(a)) => a,
                        _ => vec![],
                    }
                }
                _ => vec![],
            };
            let mut ms_lo = 0u64;
            let (kind, out): (&str, Option<Result<Response, NetworkError>>) = match (b.beh.as_str(), i) {
                (_, None) | ("silent", _) => ("silent", None),
                ("error", _) => ("error", Some(Err(NetworkError::InternalMsgChannelDropped))),
                ("empty", _) => ("proofs", Some(Ok(Response::Query(QueryResponse::GetChunkExistenceProof(vec![]))))),
                ("other", _) => ("other", Some(Ok(Response::Cmd(CmdResponse::Replicate(Ok(())))))),
                (how, Some(_)) => {
                    let mut a = honest.clone();
                    match how {
                        "lie" => {
                            // the `at`-th entry gets a proof made with another nonce / of other bytes
                            if !a.is_empty() {
                                let j = (b.at - 1).min(a.len() - 1);
                                let k = w.ids.id(a[j].0.to_record_key().as_ref());
                                let r = w.rec(k).clone();
                                let other = w.rec(*w.own.iter().find(|x| **x != k && w.rec(**x).chunk).expect("another chunk")).clone();
                                a[j].1 = Ok(if b.how == "bytes" { ChunkProof::new(&other.value, nonce) } else { ChunkProof::new(&r.value, nonce.wrapping_add(1)) });
                            }
                        }
                        "dup" => {
                            // the closest record it has (the target itself when it holds it), five times
                            if !a.is_empty() { let first = a[0].clone(); a = vec![first; 5]; }
                        }
                        "errEntries" => {
                            // it says which of the closest records it lacks: an error entry for the `at`-th
                            if !a.is_empty() { let j = (b.at - 1).min(a.len() - 1); let ad = a[j].0.clone(); a[j].1 = Err(ProtocolError::ChunkDoesNotExist(ad)); }
                        }
                        "slow" => { ms_lo = 1100; }
                        _ => {}
                    }
                    ("proofs", Some(Ok(Response::Query(QueryResponse::GetChunkExistenceProof(a)))))
                }
            };
            let abs = match &out {
                Some(Ok(Response::Query(QueryResponse::GetChunkExistenceProof(a)))) => abs_answers(w, a, nonce, nonce.wrapping_add(1)),
                _ => json!([]),
            };
            if ms_lo > 0 { std::thread::sleep(Duration::from_millis(ms_lo)); }
            match (sender, out) {
                (Some(tx), Some(r)) => { let _ = tx.send(r); }
                (Some(tx), None) => drop(tx),
                _ => {}
            }
            let held = i.map(|i| w.held_view(i)).unwrap_or(json!({"chunks": [], "others": []}));
            resp.push(json!({"peer": pid, "beh": b.beh, "kind": kind, "ans": abs, "msLo": ms_lo, "held": held}));
        }
        {
            let c = if which == 0 { &mut w.chal } else { &mut w.chal2 };
            while c.events.try_recv().is_ok() { progressed += 1; }
        }
        if done && progressed == 0 { quiet += 1 } else if progressed > 0 { quiet = 0 }
        if !done && progressed == 0 { tokio::task::yield_now().await; }
    }
    let ms_hi = t0.map(|x| x.elapsed().as_millis() as u64 + 1).unwrap_or(0);
    // ---- the accounting the report went into (specs/peers): the issue as recorded by the real handler
    let mut issues = vec![];
    for p in &reported_peers {
        let c = if which == 0 { &mut w.chal } else { &mut w.chal2 };
        let (iss, bad, in_rt) = c.driver.verif_node_issues(p);
        issues.push(json!({"peer": w.ids.id(&p.to_bytes()), "issues": iss.iter().map(|(k, a)| json!({"kind": k, "age": a})).collect::<Vec<_>>(), "bad": bad, "inRT": in_rt}));
        // more than the window passes before the next round: the issues of this round do not add up with the next one's
        c.driver.verif_age_node_issues(p, 301);
    }
    // ---- undo the shaping
    for (i, k) in undo_add { let r = w.rec(k).clone(); remove(&mut w.peers[i], &r); w.held[i].retain(|x| *x != k); }
    for (i, k) in undo_remove { let r = w.rec(k).clone(); put(&mut w.peers[i], &r).await; w.held[i].push(k); }
    for i in 0..w.peers.len() { settle(&mut w.peers[i]).await; }
    // the target is what the requests say (when there are requests); the first record read is the closest expected one
    let target = reqs.first().map(|r| uz(&r["key"]) as usize).unwrap_or(expected.first().cloned().unwrap_or(0));
    for r in resp.iter_mut() { r["msHi"] = json!(ms_hi.max(uz(&r["msLo"]))); }
    w.ids.flush(t);
    t.emit(json!({"ev":"Challenge","run":w.run,"chal":which + 1,"self":self_id,"peers":known_ids,"own":own_chunks,"ownOthers":own_others,
                  "asked":asked,"reqs":reqs,"target":target,"expected":expected,"nonce":1,"resp":resp,"reported":reported,"issues":issues,
                  "msHi":ms_hi,"scn":scn,"src":src}));
}

// ------------------------------------------------------------------------------------------
// Client events: verify_chunk_existence
// ------------------------------------------------------------------------------------------
async fn client_event(w: &mut World, t: &mut Trace, scn: &Value, src: &str) {
    w.run += 1;
    let quorum = uz(&scn["quorum"]).max(1) as usize;
    let attempts = uz(&scn["attempts"]).max(1) as usize;
    let rounds_plan: Vec<Vec<String>> = scn["rounds"].as_array().map(|a| a.iter().map(|r| r.as_array().map(|x| x.iter().map(|s| st(s, "good").to_string()).collect()).unwrap_or_default()).collect()).unwrap_or_default();
    let npeers = uz(&scn["npeers"]).max(5) as usize;
    let chunk = w.rec(w.own[0]).clone();
    let addr = NetworkAddress::from_record_key(&chunk.key);
    let nonce: Nonce = w.rng.gen();
    let expected = ChunkProof::new(&chunk.value, nonce);
    let expected_ok = proof_hex(&expected) == own_proof(&chunk.value, nonce);
    let close: Vec<PeerId> = w.peers.iter().take(npeers.min(w.peers.len())).map(|n| n.peer).collect();
    let net = w.client.network.clone();
    let q = match st(&scn["q"], "n") { "one" => Quorum::One, "majority" => Quorum::Majority, "all" => Quorum::All, _ => Quorum::N(NonZeroUsize::new(quorum).expect("quorum")) };
    let qn = match q { Quorum::One => 1, Quorum::Majority => 3, Quorum::All => 5, Quorum::N(n) => n.get() };
    let retry = if attempts == 1 && scn["noStrategy"].as_bool() == Some(true) { None } else { Some(RetryStrategy::N(NonZeroUsize::new(attempts).expect("attempts"))) };
    let fut = net.verify_chunk_existence(addr.clone(), nonce, expected, q, retry);
    tokio::pin!(fut);
    let mut rounds: Vec<Vec<Value>> = vec![];
    let mut close_queries = 0u64;
    let mut in_round = 0usize; // requests answered in the current round
    let res;
    let mut idle = 0u32;
    loop {
        if let Poll::Ready(r) = futures::poll!(&mut fut) { res = r; break; }
        let mut progressed = 0;
        tokio::task::yield_now().await;
        while let Some(cmd) = w.client.driver.verif_try_recv_local_cmd() { let _ = w.client.driver.verif_handle_local_cmd(cmd); progressed += 1; }
        while let Some(cmd) = w.client.driver.verif_try_recv_network_cmd() {
            progressed += 1;
            match cmd {
                NetworkSwarmCmd::GetClosestPeersToAddressFromNetwork { sender, .. } => { close_queries += 1; let _ = sender.send(close.clone()); }
                NetworkSwarmCmd::SendRequest { req, peer, sender } => {
                    let Request::Query(Query::GetChunkExistenceProof { key, nonce: n2, difficulty }) = req else { continue };
                    if in_round == 0 { rounds.push(vec![]); }
                    let ri = rounds.len() - 1;
                    let pos = close.iter().position(|p| *p == peer).unwrap_or(0);
                    let plan = rounds_plan.get(ri).and_then(|r| r.get(pos)).cloned().unwrap_or_else(|| "good".to_string());
                    let good = ChunkProof::new(&chunk.value, n2);
                    let (kind, out): (&str, Option<Result<Response, NetworkError>>) = match plan.as_str() {
                        "good" => ("proofs", Some(Ok(Response::Query(QueryResponse::GetChunkExistenceProof(vec![(key.clone(), Ok(good))]))))),
                        "node" => {
                            // a real node that holds the chunk answers
                            let i = w.peers.iter().position(|n| n.peer == peer).unwrap_or(0);
                            ("proofs", Some(Ok(ask(&mut w.peers[i], key.clone(), n2, difficulty).await)))
                        }
                        "wrongNonce" => ("proofs", Some(Ok(Response::Query(QueryResponse::GetChunkExistenceProof(vec![(key.clone(), Ok(ChunkProof::new(&chunk.value, n2.wrapping_add(1))))]))))),
                        "wrongBytes" => ("proofs", Some(Ok(Response::Query(QueryResponse::GetChunkExistenceProof(vec![(key.clone(), Ok(ChunkProof::new(b"other bytes", n2)))]))))),
                        "missing" => ("proofs", Some(Ok(Response::Query(QueryResponse::GetChunkExistenceProof(vec![(key.clone(), Err(ProtocolError::ChunkDoesNotExist(key.clone())))]))))),
                        "goodSecond" => ("proofs", Some(Ok(Response::Query(QueryResponse::GetChunkExistenceProof(vec![(key.clone(), Err(ProtocolError::ChunkDoesNotExist(key.clone()))), (key.clone(), Ok(good))]))))),
                        "empty" => ("proofs", Some(Ok(Response::Query(QueryResponse::GetChunkExistenceProof(vec![]))))),
                        "other" => ("other", Some(Ok(Response::Cmd(CmdResponse::Replicate(Ok(())))))),
                        "error" => ("error", Some(Err(NetworkError::InternalMsgChannelDropped))),
                        _ => ("silent", None),
                    };
                    let abs = match &out {
                        Some(Ok(Response::Query(QueryResponse::GetChunkExistenceProof(a)))) => abs_answers(w, a, nonce, nonce.wrapping_add(1)),
                        _ => json!([]),
                    };
                    let pid = w.ids.id(&peer.to_bytes());
                    rounds[ri].push(json!({"peer": pid, "kind": kind, "ans": abs, "plan": plan, "sameReq": n2 == nonce && difficulty == 1 && key == addr}));
                    if let Some(tx) = sender { match out { Some(r) => { let _ = tx.send(r); } None => drop(tx) } }
                    in_round += 1;
                    if in_round >= close.len() { in_round = 0; }
                }
                _ => {}
            }
        }
        if progressed == 0 { idle += 1; if idle > 3 { tokio::time::sleep(Duration::from_millis(5)).await; } } else { idle = 0; }
    }
    w.ids.flush(t);
    let close_ids: Vec<usize> = close.iter().map(|p| w.ids.id(&p.to_bytes())).collect();
    w.ids.flush(t);
    t.emit(json!({"ev":"Client","run":w.run,"key":chunk.id,"nonce":1,"quorum":qn,"attempts":attempts,"rounds":rounds,"closeQueries":close_queries,"close":close_ids,
                  "res": match &res { Ok(()) => "Ok".to_string(), Err(_) => "Err".to_string() }, "err": match &res { Ok(()) => String::new(), Err(e) => format!("{e:?}").chars().take(80).collect() },
                  "expectedOk": expected_ok, "scn":scn,"src":src}));
}

// ------------------------------------------------------------------------------------------
async fn build_world(seed: u64, work: &PathBuf, stub: &EvmStub, windex: u64) -> World {
    let mut rng = StdRng::seed_from_u64(seed.wrapping_mul(7907).wrapping_add(windex));
    let dir = work.join(format!("world-{windex}"));
    let _ = std::fs::remove_dir_all(&dir);
    let mut ids = Ids::default();
    let mut chal = NodeH::new(&mut rng, dir.join("chal"), stub.network());
    let mut chal2 = NodeH::new(&mut rng, dir.join("chal2"), stub.network());
    let client = NodeH::new(&mut rng, dir.join("client"), stub.network());
    let mut peers: Vec<NodeH> = (0..7).map(|i| NodeH::new(&mut rng, dir.join(format!("p{i}")), stub.network())).collect();
    // the second challenger knows the four peers closest to IT... any three for now; the fourth comes later
    for (i, p) in peers.iter().enumerate() { chal.add_peer(&p.peer.clone(), 45001 + i as u16); }
    for (i, p) in peers.iter().take(3).enumerate() { chal2.add_peer(&p.peer.clone(), 45101 + i as u16); }
    // 30 chunks in the challenger's half of the key space (same first bit of the digest), 20 in the other, 3 pads near
    let me = sha(&chal.peer.to_bytes());
    let mut recs = HashMap::new();
    let mut own = vec![];
    let (mut near, mut far, mut n) = (0, 0, windex * 1_000_000);
    while near < 30 || far < 20 {
        n += 1;
        let c = chunk_of(n);
        let key = NetworkAddress::from_chunk_address(*c.address()).to_record_key();
        let same = (sha(key.as_ref())[0] ^ me[0]) & 0x80 == 0;
        if (same && near < 30) || (!same && far < 20) {
            let r = chunk_rec(&mut ids, n);
            own.push(r.id);
            recs.insert(r.id, r);
            if same { near += 1 } else { far += 1 }
        }
    }
    let mut pn = windex * 100;
    let mut pads = 0;
    while pads < 3 {
        pn += 1;
        let r = pad_rec(&mut ids, pn);
        if (ids.dig[r.id - 1][0] ^ me[0]) & 0x80 == 0 || pn % 100 > 40 { own.push(r.id); recs.insert(r.id, r); pads += 1; }
    }
    let mut held = vec![];
    for id in &own { let r = recs.get(id).expect("rec").clone(); put(&mut chal, &r).await; put(&mut chal2, &r).await; }
    for p in peers.iter_mut() {
        for id in &own { let r = recs.get(id).expect("rec").clone(); put(p, &r).await; }
        settle(p).await;
        held.push(own.clone());
    }
    settle(&mut chal).await;
    settle(&mut chal2).await;
    World { ids, recs, own, chal, chal2, peers, held, client, rng, next_chunk: n + 500_000, run: 0 }
}

fn honest() -> Beh { Beh { beh: "node".into(), lack: vec![], extra: 0, at: 1, how: "nonce".into() } }

async fn run() {
    let out = arg("--out").expect("--out");
    let work = PathBuf::from(arg("--work").expect("--work"));
    let seed = vtrace::seed_from_env();
    if !sha3_selftest() { panic!("harness: SHA3-256 self-test failed"); }
    let mut t = Trace::create(&out);
    let cases = arg("--cases").map(|p| read_ndjson(&p)).unwrap_or_default();
    let random: usize = arg("--random").and_then(|s| s.parse().ok()).unwrap_or(20);
    let slow: usize = arg("--slow").and_then(|s| s.parse().ok()).unwrap_or(1);
    let client_fail_budget: u64 = arg("--client-sleep-ms").and_then(|s| s.parse().ok()).unwrap_or(4000);
    let only = arg("--only");
    let want = |k: &str| only.as_deref().map(|o| o.split(',').any(|x| x == k)).unwrap_or(true);
    let stub = EvmStub::start();
    let t_world = Instant::now();
    let mut w = build_world(seed, &work, &stub, 1).await;
    let world_ms = t_world.elapsed().as_millis();
    t.emit(json!({"ev":"Reset","run":0,"seed":seed}));
    w.ids.flush(&mut t);

    if want("proof") { proof_events(&mut w, &mut t, random); }
    if want("mark") { mark_events(&mut w, &mut t, random * 10); }

    // ---- challenges: the TLC-enumerated scenarios, then seeded random mixes, then the boundary worlds
    let mut slow_left = slow;
    if want("challenge") {
        for scn in cases.iter().filter(|c| st(&c["kind"], "") == "challenge") {
            let plan: Vec<Beh> = scn["resp"].as_array().map(|a| a.iter().map(beh_of).collect()).unwrap_or_default();
            if plan.iter().any(|b| b.beh == "slow") { if slow_left == 0 { continue; } slow_left -= 1; }
            challenge_event(&mut w, &mut t, 0, &plan, scn, "tlc").await;
        }
        let behs = ["node", "node", "node", "lie", "dup", "errEntries", "silent", "error", "empty", "other"];
        for _ in 0..random {
            let plan: Vec<Beh> = (0..4).map(|_| {
                let beh = behs[w.rng.gen_range(0..behs.len())].to_string();
                let nl = w.rng.gen_range(0..4);
                let mut lack: Vec<usize> = vec![];
                for _ in 0..nl { let r = w.rng.gen_range(1..=5); if !lack.contains(&r) { lack.push(r); } }
                Beh { beh, lack, extra: if w.rng.gen_range(0..3) == 0 { w.rng.gen_range(1..=2) } else { 0 }, at: w.rng.gen_range(1..=5), how: if w.rng.gen() { "nonce".into() } else { "bytes".into() } }
            }).collect();
            let scn = json!({"kind":"challenge","resp": plan.iter().map(|b| json!({"beh": b.beh, "lack": b.lack, "extra": b.extra, "at": b.at, "how": b.how})).collect::<Vec<_>>()});
            challenge_event(&mut w, &mut t, 0, &plan, &scn, "random").await;
        }
        // a peer that holds nothing but the target and repeats its proof (findings/CHAL-duplicate-proofs-inflate-score)
        {
            let mut plan = vec![honest(), honest(), honest(), honest()];
            plan[0] = Beh { beh: "dup".into(), lack: vec![2, 3, 4, 5], ..honest() };
            let scn = json!({"kind":"challenge","resp": plan.iter().map(|b| json!({"beh": b.beh, "lack": b.lack, "extra": b.extra, "at": b.at, "how": b.how})).collect::<Vec<_>>()});
            challenge_event(&mut w, &mut t, 0, &plan, &scn, "class").await;
        }
        // boundary worlds on the second challenger: 3 peers (one too few) / 4 peers and 49 chunks (+3 pads) / 4 peers and 50 chunks
        let plan = vec![honest(), honest(), honest(), honest()];
        challenge_event(&mut w, &mut t, 1, &plan, &json!({"kind":"challenge","world":"fewPeers"}), "class").await;
        let p4 = w.peers[3].peer;
        w.chal2.add_peer(&p4, 45104);
        let last_chunk = *w.own.iter().filter(|k| w.rec(**k).chunk).last().expect("chunk");
        let r = w.rec(last_chunk).clone();
        remove(&mut w.chal2, &r);
        settle(&mut w.chal2).await;
        challenge_event(&mut w, &mut t, 1, &plan, &json!({"kind":"challenge","world":"fewChunks"}), "class").await;
        put(&mut w.chal2, &r).await;
        settle(&mut w.chal2).await;
        for j in 0..3 {
            let mut plan = plan.clone();
            if j == 1 { plan[3] = Beh { beh: "silent".into(), ..honest() }; }
            if j == 2 { plan[0] = Beh { beh: "node".into(), lack: vec![1, 2, 3], ..honest() }; }
            challenge_event(&mut w, &mut t, 1, &plan, &json!({"kind":"challenge","world":"exact","j":j}), "class").await;
        }
    }
    if want("answer") { answer_events(&mut w, &mut t, if random > 50 { 6 } else { 2 }).await; }
    if want("client") {
        let mut slept = 0u64;
        for scn in cases.iter().filter(|c| st(&c["kind"], "") == "client") {
            // every failed attempt costs the real 300 ms (600 ms from the second on) the client waits: a budget
            let cost = uz(&scn["sleepMs"]);
            if slept + cost > client_fail_budget { continue; }
            slept += cost;
            client_event(&mut w, &mut t, scn, "tlc").await;
        }
    }
    let n = t.finish();
    println!("{}", json!({"events": n, "seed": seed, "world_ms": world_ms as u64, "ids": w.ids.dig.len()}));
}

fn main() {
    if std::env::var("VERIF_LOUD").is_err() { vtrace::quiet_panics(); }
    let rt = tokio::runtime::Builder::new_current_thread().enable_all().build().expect("runtime");
    rt.block_on(run());
}
