//! Network driver (second engine of C09): two or three REAL nodes in one process and a BAG OF MESSAGES
//! between them that the scenario delivers in any order or loses. Every handler runs unmodified:
//! TriggerIntervalReplication, the Cmd::Replicate handler with its closest-peers check, the replication
//! fetcher, fetch_replication_keys_without_wait, handle_query(GetReplicatedRecord),
//! store_replicated_in_record, PutLocalRecord -> notify_about_new_put. The harness only holds the
//! messages the nodes send and hands over the one the scenario names.
#[path = "../nodeworld.rs"]
mod nodeworld;
use nodeworld::*;

use ant_evm::RewardsAddress;
use ant_networking::verif_hooks::{LocalSwarmCmd, NetworkSwarmCmd};
use ant_networking::NetworkError;
use ant_node::verif_hooks::VerifNode;
use ant_protocol::messages::{Cmd, Query, QueryResponse, Request, Response};
use ant_protocol::storage::{RecordKind, RecordType};
use ant_protocol::NetworkAddress;
use libp2p::kad::{Record, RecordKey};
use libp2p::PeerId;
use rand::{rngs::StdRng, SeedableRng};
use serde_json::{json, Value};
use sha2::{Digest, Sha256};
use std::collections::HashMap;
use std::path::PathBuf;
use tokio::sync::oneshot;
use vtrace::{arg, read_ndjson, Trace};

fn uz(v: &Value) -> u64 { v.as_u64().unwrap_or(0) }
fn st<'a>(v: &'a Value, d: &'a str) -> &'a str { v.as_str().unwrap_or(d) }

type Reply = oneshot::Sender<Result<Response, NetworkError>>;

enum Payload {
    Adv { holder: NetworkAddress, keys: Vec<(NetworkAddress, RecordType)> },
    Qry { query: Query, reply: Option<Reply> },
    Rsp { resp: Response, reply: Option<Reply> },
}
struct Msg {
    id: u64,
    from: usize, // 1-based node numbers
    to: usize,
    a: usize, // address number (0 for an advertisement)
    payload: Payload,
}

struct World {
    nodes: Vec<NodeH>,
    run: u64,
    fams: Vec<String>,
    keys: Vec<Option<RecordKey>>, // address number - 1 -> key (known once a record of it was made)
    op_ids: HashMap<String, usize>,
    pad_contents: HashMap<String, u64>,
    types: HashMap<String, Value>, // advertised type (debug string) -> abstract content it stood for
    msgs: Vec<Msg>,
    next_id: u64,
    sent_now: Vec<u64>,
    /// answer the network-wide read a node falls back to after a failed direct fetch (with the copy of the
    /// lowest-numbered other node that holds the record)
    netserve: bool,
    settling: bool,
    netreads: Vec<Value>,
}

fn node_of(w: &World, p: &PeerId) -> usize { w.nodes.iter().position(|n| &n.peer == p).map(|i| i + 1).unwrap_or(0) }
fn addr_of(w: &World, k: &RecordKey) -> usize { w.keys.iter().position(|x| x.as_ref() == Some(k)).map(|i| i + 1).unwrap_or(0) }

/// a valid record of address `a` (its family is fixed by the scenario)
fn make(w: &mut World, a: usize, r: &Value) -> Record {
    let fam = w.fams[a - 1].clone();
    let slot = w.run * 1000 + a as u64;
    let owner = bls_key(slot);
    let (key, value) = match fam.as_str() {
        "chunk" => {
            let c = chunk_of(slot);
            (NetworkAddress::from_chunk_address(*c.address()).to_record_key(), ser(&c, RecordKind::Chunk))
        }
        "pad" => {
            let p = scratchpad(&owner, &owner, uz(&r["c"]).max(1), uz(&r["content"]), false);
            w.pad_contents.insert(hex::encode(p.encrypted_data_hash().0), uz(&r["content"]));
            (NetworkAddress::ScratchpadAddress(*p.address()).to_record_key(), ser(&p, RecordKind::Scratchpad))
        }
        "txs" => {
            let txs: Vec<_> = r["ids"].as_array().cloned().unwrap_or_default().iter().map(|i| transaction(&owner, &owner, uz(i))).collect();
            let k = NetworkAddress::from_transaction_address(transaction(&owner, &owner, 0).address()).to_record_key();
            (k, ser(&txs, RecordKind::Transaction))
        }
        "reg" => {
            let base = register_base(&owner, slot);
            let mut ops = vec![];
            for i in r["ops"].as_array().cloned().unwrap_or_default() {
                let op = register_op(&base, &owner, uz(&i));
                w.op_ids.insert(hex::encode(rmp_serde::to_vec(&op).unwrap_or_default()), uz(&i) as usize);
                ops.push(op);
            }
            let reg = register_with(&base, ops);
            (NetworkAddress::from_register_address(*reg.address()).to_record_key(), ser(&reg, RecordKind::Register))
        }
        other => panic!("family {other}"),
    };
    w.keys[a - 1] = Some(key.clone());
    record(key, value)
}

fn abs_record(w: &World, rec: &Option<Record>) -> Value {
    let d = describe(rec);
    let hash = rec.as_ref().map(|r| hex::encode(&Sha256::digest(&r.value)[..8])).unwrap_or_default();
    let mut out = match d["kind"].as_str().unwrap_or("none") {
        "chunk" => json!({"kind":"chunk"}),
        "pad" => json!({"kind":"pad","c":d["count"],"content":w.pad_contents.get(d["content"].as_str().unwrap_or("")).cloned().unwrap_or(999),"valid":d["valid"]}),
        "txs" => { let mut ids: Vec<u64> = d["txs"].as_array().map(|a| a.iter().map(|t| uz(&t["id"])).collect()).unwrap_or_default(); ids.sort(); json!({"kind":"txs","ids":ids}) }
        "reg" => { let mut ops: Vec<usize> = d["ops"].as_array().map(|a| a.iter().map(|o| *w.op_ids.get(o.as_str().unwrap_or("")).unwrap_or(&999)).collect()).unwrap_or_default(); ops.sort(); json!({"kind":"reg","ops":ops}) }
        other => json!({"kind":other}),
    };
    out["bytes"] = json!(hash);
    out
}

fn type_abs(w: &World, t: &RecordType) -> Value {
    match t {
        RecordType::Chunk => json!({"kind":"chunk"}),
        RecordType::Scratchpad => json!({"kind":"pad","c":0}),
        other => w.types.get(&format!("{other:?}")).cloned().unwrap_or(json!({"kind":"unknown"})),
    }
}

fn msg_abs(w: &World, m: &Msg) -> Value {
    match &m.payload {
        Payload::Adv { holder, keys } => {
            let mut ks: Vec<Value> = keys.iter().map(|(addr, t)| json!({"a": addr_of(w, &addr.to_record_key()), "t": type_abs(w, t)})).collect();
            ks.sort_by_key(|k| uz(&k["a"]));
            let hs = holder.as_peer_id().map(|p| node_of(w, &p)).unwrap_or(0);
            json!({"id": m.id, "k":"adv", "from": m.from, "to": m.to, "a": 0, "holder": hs, "keys": ks, "c": {"kind":"none"}})
        }
        Payload::Qry { .. } => json!({"id": m.id, "k":"qry", "from": m.from, "to": m.to, "a": m.a, "keys": [], "c": {"kind":"none"}}),
        Payload::Rsp { resp, .. } => {
            let c = match resp {
                Response::Query(QueryResponse::GetReplicatedRecord(Ok((_h, bytes)))) => {
                    let key = w.keys.get(m.a.wrapping_sub(1)).cloned().flatten();
                    match key { Some(k) => abs_record(w, &Some(Record::new(k, bytes.to_vec()))), None => json!({"kind":"unknown"}) }
                }
                _ => json!({"kind":"none"}),
            };
            json!({"id": m.id, "k":"rsp", "from": m.from, "to": m.to, "a": m.a, "keys": [], "c": c})
        }
    }
}

/// Let every node work until nothing moves; hold every message a node sends.
async fn collect(w: &mut World) {
    let mut quiet = 0;
    let mut guard = 0;
    while quiet < 6 && guard < 20000 {
        guard += 1;
        tokio::task::yield_now().await;
        let mut progressed = 0;
        for i in 0..w.nodes.len() {
            progressed += w.nodes[i].serve_pending();
            let lists: Vec<_> = w.nodes[i].fetch_events.drain(..).collect();
            for keys in lists {
                progressed += 1;
                let node = w.nodes[i].node.clone();
                let _ = node.fetch_replication_keys_without_wait(keys);
            }
            let out: Vec<NetworkSwarmCmd> = w.nodes[i].outbox.drain(..).collect();
            for cmd in out {
                progressed += 1;
                match cmd {
                    NetworkSwarmCmd::SendRequest { req, peer, sender } => {
                        let j = node_of(w, &peer);
                        if j == 0 { continue; } // a peer that does not exist: the request is lost
                        let id = w.next_id;
                        w.next_id += 1;
                        match req {
                            Request::Cmd(Cmd::Replicate { holder, keys }) => {
                                w.msgs.push(Msg { id, from: i + 1, to: j, a: 0, payload: Payload::Adv { holder, keys } });
                                w.sent_now.push(id);
                            }
                            Request::Query(q @ Query::GetReplicatedRecord { .. }) => {
                                let a = if let Query::GetReplicatedRecord { key, .. } = &q { addr_of(w, &key.to_record_key()) } else { 0 };
                                w.msgs.push(Msg { id, from: i + 1, to: j, a, payload: Payload::Qry { query: q, reply: sender } });
                                w.sent_now.push(id);
                            }
                            _ => {}
                        }
                    }
                    // the fall-back read from the network at large after a failed direct fetch: answered with the copy of
                    // the lowest-numbered other holder when the scenario says so, otherwise nobody answers
                    NetworkSwarmCmd::GetNetworkRecord { key, sender, .. } => {
                        let a = addr_of(w, &key);
                        let mut found: Option<(usize, Record)> = None;
                        if w.netserve && !w.settling && a != 0 {
                            for j in 0..w.nodes.len() {
                                if j == i { continue; }
                                if let Some(rec) = w.nodes[j].stored(&key) { found = Some((j, rec)); break; }
                            }
                        }
                        match found {
                            Some((j, rec)) => {
                                let c = abs_record(w, &Some(rec.clone()));
                                w.netreads.push(json!({"node": i + 1, "a": a, "from": j + 1, "c": c}));
                                let _ = sender.send(Ok(rec));
                            }
                            None => drop(sender), // the read fails
                        }
                    }
                    _ => {}
                }
            }
        }
        if progressed == 0 { quiet += 1 } else { quiet = 0 }
    }
}

fn snapshot(w: &mut World) -> Value {
    // what every node holds for every address; learn the advertised types on the way
    let mut content = vec![];
    for i in 0..w.nodes.len() {
        let mut per = vec![];
        let types: HashMap<RecordKey, RecordType> = {
            let n = &mut w.nodes[i];
            n.driver.verif_node_store_mut().map(|s| ant_networking::verif_hooks::store_record_addresses_ref(s).iter().map(|(k, (_a, t))| (k.clone(), t.clone())).collect()).unwrap_or_default()
        };
        for a in 0..w.fams.len() {
            let v = match w.keys[a].clone() {
                None => json!({"kind":"none","listed":false,"bytes":""}),
                Some(key) => {
                    let rec = w.nodes[i].stored(&key);
                    let mut v = abs_record(w, &rec);
                    v["listed"] = json!(types.contains_key(&key));
                    if let Some(t) = types.get(&key) {
                        if rec.is_some() {
                            let mut plain = v.clone();
                            if let Some(o) = plain.as_object_mut() { o.remove("listed"); o.remove("bytes"); }
                            w.types.insert(format!("{t:?}"), plain);
                        }
                    }
                    v
                }
            };
            per.push(v);
        }
        content.push(Value::Array(per));
    }
    let mut fetchers = vec![];
    for i in 0..w.nodes.len() {
        let (tf, og) = w.nodes[i].driver.verif_fetcher_view();
        let conv = |w: &World, v: &Vec<(RecordKey, RecordType, PeerId)>| -> Vec<Value> {
            let mut out: Vec<Value> = v.iter().map(|(k, t, h)| json!({"a": addr_of(w, k), "t": type_abs(w, t), "h": node_of(w, h)})).collect();
            out.sort_by_key(|e| e.to_string());
            out
        };
        fetchers.push(json!({"tf": conv(w, &tf), "og": conv(w, &og)}));
    }
    let msgs: Vec<Value> = w.msgs.iter().map(|m| msg_abs(w, m)).collect();
    json!({"content": content, "fetchers": fetchers, "msgs": msgs})
}

/// the oldest held message matching the descriptor (the `ord`-th one when several match)
fn find_msg(w: &World, d: &Value) -> Option<usize> {
    let k = st(&d["k"], "");
    let ord = uz(&d["ord"]).max(1) as usize;
    let mut seen = 0;
    for (i, m) in w.msgs.iter().enumerate() {
        let mk = match m.payload { Payload::Adv { .. } => "adv", Payload::Qry { .. } => "qry", Payload::Rsp { .. } => "rsp" };
        if mk == k && m.from as u64 == uz(&d["from"]) && m.to as u64 == uz(&d["to"]) && (k == "adv" || m.a as u64 == uz(&d["a"])) {
            seen += 1;
            if seen == ord { return Some(i); }
        }
    }
    None
}

async fn deliver(w: &mut World, idx: usize) -> Value {
    let m = w.msgs.remove(idx);
    let desc = msg_abs(w, &m);
    match m.payload {
        Payload::Adv { holder, keys } => {
            w.nodes[m.to - 1].driver.verif_handle_replicate(holder, keys);
        }
        Payload::Qry { query, reply } => {
            let j = m.to - 1;
            let net = w.nodes[j].network.clone();
            let resp = run_serving(&mut w.nodes[j], VerifNode::handle_query(&net, query, RewardsAddress::default())).await;
            let id = w.next_id;
            w.next_id += 1;
            w.msgs.push(Msg { id, from: m.to, to: m.from, a: m.a, payload: Payload::Rsp { resp, reply } });
            w.sent_now.push(id);
        }
        Payload::Rsp { resp, reply } => {
            if let Some(tx) = reply { let _ = tx.send(Ok(resp)); }
        }
    }
    collect(w).await;
    desc
}

fn expire_all(w: &mut World) -> usize {
    let mut n = 0;
    for i in 0..w.nodes.len() {
        let (_tf, og) = w.nodes[i].driver.verif_fetcher_view();
        for (k, t, _h) in og {
            if w.nodes[i].driver.verif_expire_fetch(&k, &t) { n += 1; }
        }
    }
    n
}

async fn step(w: &mut World, t: &mut Trace, s: &Value) {
    let ev = st(&s["ev"], "");
    w.sent_now.clear();
    w.netreads.clear();
    match ev {
        "Update" => {
            let i = uz(&s["node"]) as usize - 1;
            let a = uz(&s["a"]) as usize;
            let rec = make(w, a, &s["rec"]);
            let input = abs_record(w, &Some(rec.clone()));
            let node = w.nodes[i].node.clone();
            let res = run_serving(&mut w.nodes[i], node.store_replicated_in_record(rec)).await;
            collect(w).await;
            let snap = snapshot(w);
            t.emit(json!({"ev":"Update","node":i+1,"a":a,"input":input,"res":if res.is_ok() {"Ok".to_string()} else {format!("Err:{}", res.unwrap_err())},"sent":w.sent_now,"state":snap}));
        }
        "Interval" => {
            let i = uz(&s["node"]) as usize - 1;
            // ten minutes pass (longer than every replication throttle): the real throttle state decides, nothing is reset
            w.nodes[i].driver.verif_age_replication_timers(600);
            let _ = w.nodes[i].driver.verif_handle_local_cmd(LocalSwarmCmd::TriggerIntervalReplication);
            collect(w).await;
            let snap = snapshot(w);
            t.emit(json!({"ev":"Interval","node":i+1,"sent":w.sent_now,"state":snap}));
        }
        "Deliver" | "Drop" => {
            match find_msg(w, &s["m"]) {
                None => {
                    let snap = snapshot(w);
                    t.emit(json!({"ev":"Skipped","what":ev,"m":s["m"],"sent":[],"state":snap}));
                }
                Some(idx) => {
                    if ev == "Deliver" {
                        let desc = deliver(w, idx).await;
                        let snap = snapshot(w);
                        t.emit(json!({"ev":"Deliver","m":desc,"sent":w.sent_now,"netreads":w.netreads,"state":snap}));
                    } else {
                        let m = w.msgs.remove(idx);
                        let desc = msg_abs(w, &m);
                        drop(m); // a lost request / answer: the waiting fetch task gets an error
                        collect(w).await;
                        let snap = snapshot(w);
                        t.emit(json!({"ev":"Drop","m":desc,"sent":w.sent_now,"netreads":w.netreads,"state":snap}));
                    }
                }
            }
        }
        "Expire" => {
            let i = uz(&s["node"]) as usize - 1;
            let a = uz(&s["a"]) as usize;
            let h = uz(&s["h"]) as usize;
            let (_tf, og) = w.nodes[i].driver.verif_fetcher_view();
            let mut done = false;
            for (k, ty, holder) in og {
                if addr_of(w, &k) == a && node_of(w, &holder) == h && !done {
                    done = w.nodes[i].driver.verif_expire_fetch(&k, &ty);
                }
            }
            let snap = snapshot(w);
            t.emit(json!({"ev": if done {"Expire"} else {"Skipped"},"what":"Expire","node":i+1,"a":a,"h":h,"sent":[],"state":snap}));
        }
        "Settle" => {
            let lost = w.msgs.len();
            w.settling = true; // every message still in flight is lost, and so are the network-wide reads that follow
            w.msgs.clear();
            collect(w).await;
            w.msgs.clear();
            w.settling = false;
            let expired = expire_all(w);
            let snap = snapshot(w);
            t.emit(json!({"ev":"Settle","lost":lost,"expired":expired,"sent":[],"state":snap}));
        }
        "Check" => {
            let snap = snapshot(w);
            t.emit(json!({"ev":"Check","sent":[],"state":snap}));
        }
        other => panic!("unknown step {other}"),
    }
}

async fn run() {
    let out = arg("--out").expect("--out");
    let work = PathBuf::from(arg("--work").expect("--work"));
    let seed = vtrace::seed_from_env();
    let mut t = Trace::create(&out);
    let scns = arg("--scenarios").map(|p| read_ndjson(&p)).unwrap_or_default();
    let stub = EvmStub::start();
    let mut run_no = 0;
    for scn in scns {
        run_no += 1;
        let nn = uz(&scn["nodes"]).max(2) as usize;
        let fams: Vec<String> = scn["fams"].as_array().expect("fams").iter().map(|f| st(f, "chunk").to_string()).collect();
        let mut rng = StdRng::seed_from_u64(seed.wrapping_mul(37).wrapping_add(run_no));
        let dir = work.join(format!("run-{run_no}"));
        let mut nodes: Vec<NodeH> = (0..nn).map(|i| NodeH::new(&mut rng, dir.join(format!("n{i}")), stub.network())).collect();
        let peers: Vec<PeerId> = nodes.iter().map(|n| n.peer).collect();
        for (i, n) in nodes.iter_mut().enumerate() {
            for (j, p) in peers.iter().enumerate() {
                if i != j { n.add_peer(p, 42000 + j as u16); }
            }
        }
        let na = fams.len();
        let mut w = World { nodes, run: run_no, fams: fams.clone(), keys: vec![None; na], op_ids: HashMap::new(), pad_contents: HashMap::new(), types: HashMap::new(), msgs: vec![], next_id: 1, sent_now: vec![], netserve: scn["netserve"].as_bool().unwrap_or(false), settling: false, netreads: vec![] };
        t.emit(json!({"ev":"Reset","run":run_no,"nodes":nn,"fams":fams}));
        for s in scn["steps"].as_array().expect("steps") {
            step(&mut w, &mut t, s).await;
        }
        w.msgs.clear();
        drop(w);
        let _ = std::fs::remove_dir_all(&dir);
    }
    let n = t.finish();
    println!("{}", json!({"events": n, "runs": run_no, "seed": seed}));
}

fn main() {
    if std::env::var("VERIF_LOUD").is_err() { vtrace::quiet_panics(); }
    let rt = tokio::runtime::Builder::new_current_thread().enable_all().build().expect("runtime");
    rt.block_on(run());
}
