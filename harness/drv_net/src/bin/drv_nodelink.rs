//! C08 (node level): the link between a REAL node's record store and its replication fetcher.
//! A node built by `build_node` (never run) is given peers, its store is filled to the shipped capacity
//! through the real `PutLocalRecord` handler, and advertisements are delivered through the real
//! `Cmd::Replicate` handler before and after (a) the store's responsible range was set and handed to the
//! fetcher by a local put, (b) the store refused a farther record with MaxRecords. Each advertisement is
//! one trace line with, per advertised key, where it lies (beyond the farthest held record / inside the
//! range) and whether the fetcher took it (started or queued). Judged by specs/replfetcher/NodeLinkTrace.
#[path = "../nodeworld.rs"]
#[allow(dead_code)]
mod nodeworld;
use nodeworld::*;

use ant_evm::U256;
use ant_networking::verif_hooks::{self as vh, LocalSwarmCmd};
use ant_protocol::storage::{RecordHeader, RecordKind, RecordType};
use ant_protocol::NetworkAddress;
use libp2p::kad::{Record, RecordKey};
use libp2p::PeerId;
use rand::{rngs::StdRng, Rng, SeedableRng};
use serde_json::json;
use sha2::{Digest, Sha256};
use std::collections::HashSet;
use std::path::PathBuf;
use vtrace::{arg, Trace};

fn sha(b: &[u8]) -> [u8; 32] { Sha256::digest(b).into() }
fn xor(a: &[u8; 32], b: &[u8; 32]) -> [u8; 32] {
    let mut o = [0u8; 32];
    for i in 0..32 { o[i] = a[i] ^ b[i]; }
    o
}

fn chunk_record(key: &RecordKey, tag: usize) -> Record {
    let mut bytes = RecordHeader { kind: RecordKind::Chunk }.try_serialize().expect("header").to_vec();
    bytes.extend_from_slice(format!("filler {tag}").as_bytes());
    Record { key: key.clone(), value: bytes, publisher: None, expires: None }
}

struct W {
    n: NodeH,
    my: [u8; 32],
    holders: Vec<PeerId>,
    next_holder: usize,
    far: Option<[u8; 32]>,     // distance of the farthest held record when the store refused a record
    range: Option<[u8; 32]>,   // range handed to the fetcher by the last local put
    store_range: Option<[u8; 32]>,
    limited: bool,
    next_id: u64,
}

impl W {
    fn dist(&self, key: &RecordKey) -> [u8; 32] { xor(&self.my, &sha(key.as_ref())) }

    async fn put_local(&mut self, rec: Record) -> String {
        let res = self.n.driver.verif_handle_local_cmd(LocalSwarmCmd::PutLocalRecord { record: rec });
        settle(&mut self.n).await;
        self.range = self.store_range;
        match res {
            Ok(()) => "Ok".to_string(),
            Err(e) => { let s = format!("{e:?}"); if s.contains("MaxRecords") { "MaxRecords".to_string() } else { s } }
        }
    }

    fn farthest_held(&mut self) -> [u8; 32] {
        let keys = self.n.all_listed();
        keys.iter().map(|k| self.dist(k)).max().unwrap_or([0u8; 32])
    }

    async fn advert(&mut self, t: &mut Trace, keys: &[RecordKey], note: &str) {
        let holder = self.holders[self.next_holder % self.holders.len()];
        self.next_holder += 1;
        self.n.fetch_events.clear();
        let list: Vec<(NetworkAddress, RecordType)> = keys.iter().map(|k| (NetworkAddress::from_record_key(k), RecordType::Chunk)).collect();
        self.n.driver.verif_handle_replicate(NetworkAddress::from_peer(holder), list);
        settle(&mut self.n).await;
        let mut taken: HashSet<RecordKey> = HashSet::new();
        for l in self.n.fetch_events.drain(..) { for (_p, k) in l { taken.insert(k); } }
        let (tf, og) = self.n.driver.verif_fetcher_view();
        for (k, _t, _p) in tf.into_iter().chain(og.into_iter()) { taken.insert(k); }
        let far = self.farthest_held();
        let held: HashSet<RecordKey> = self.n.all_listed().into_iter().collect();
        let mut ks = vec![];
        let mut tk = vec![];
        for k in keys {
            self.next_id += 1;
            let d = self.dist(k);
            ks.push(json!({"id": self.next_id, "beyond": d > far, "inRange": self.range.map(|r| d <= r).unwrap_or(true), "held": held.contains(k)}));
            if taken.contains(k) { tk.push(json!(self.next_id)); }
        }
        t.emit(json!({"ev":"Advert","note":note,"limited":self.limited,"rangeSet":self.range.is_some(),"keys":ks,"taken":tk,
                       "held": self.n.all_listed().len()}));
    }

    /// entries of the fetcher (queued or in flight) farther than the farthest held record
    fn beyond_left(&mut self) -> usize {
        let far = self.farthest_held();
        let (tf, og) = self.n.driver.verif_fetcher_view();
        tf.iter().chain(og.iter()).filter(|(k, _t, _p)| self.dist(k) > far).count()
    }

    fn set_store_range(&mut self, r: [u8; 32]) {
        let s = self.n.driver.verif_node_store_mut().expect("node store");
        vh::store_set_responsible_distance_range(s, U256::from_be_bytes(r));
        self.store_range = Some(r);
    }
}

async fn run() {
    let out = arg("--out").expect("--out");
    let work = PathBuf::from(arg("--work").expect("--work"));
    let fill: usize = arg("--fill").and_then(|s| s.parse().ok()).unwrap_or(16384);
    let seed = vtrace::seed_from_env();
    let mut t = Trace::create(&out);
    let stub = EvmStub::start();
    let mut rng = StdRng::seed_from_u64(seed.wrapping_mul(77).wrapping_add(5));
    let dir = work.join("nodelink");
    let _ = std::fs::remove_dir_all(&dir);
    let mut n = NodeH::new(&mut rng, dir.clone(), stub.network());
    let holders: Vec<PeerId> = (0..3).map(|_| PeerId::from(keypair(&mut rng).public())).collect();
    for (j, p) in holders.iter().enumerate() { n.add_peer(p, 42000 + j as u16); }
    let my = sha(&n.peer.to_bytes());
    let mut w = W { n, my, holders, next_holder: 0, far: None, range: None, store_range: None, limited: false, next_id: 0 };

    // key universe, sorted by distance: [early (held before the fill) | probes interleaved with fillers | beyond]
    const PROBES: usize = 40;
    const BEYOND: usize = 8;
    let total = fill + PROBES + BEYOND;
    let mut all: Vec<(RecordKey, [u8; 32])> = (0..total).map(|_| {
        let mut b = [0u8; 32];
        rng.fill(&mut b);
        let key = RecordKey::new(&b);
        let d = xor(&my, &sha(key.as_ref()));
        (key, d)
    }).collect();
    all.sort_by(|a, b| a.1.cmp(&b.1));
    let beyond: Vec<RecordKey> = all[total - BEYOND..].iter().map(|x| x.0.clone()).collect();
    let inner = &all[..total - BEYOND];
    // probes: evenly spread over the inner keys (never the farthest one, which must be a held record)
    let stride = inner.len() / PROBES;
    let probe_idx: HashSet<usize> = (0..PROBES).map(|i| i * stride + stride / 2).collect();
    let probes: Vec<(RecordKey, [u8; 32])> = inner.iter().enumerate().filter(|(i, _)| probe_idx.contains(i)).map(|(_, x)| x.clone()).collect();
    let fillers: Vec<RecordKey> = inner.iter().enumerate().filter(|(i, _)| !probe_idx.contains(i)).map(|(_, x)| x.0.clone()).collect();
    assert_eq!(fillers.len(), fill);
    let take_probes = |from: usize, to: usize, k: usize, used: &mut HashSet<usize>| -> Vec<RecordKey> {
        // k unused probes with index in from..to
        let mut v = vec![];
        for i in from..to.min(PROBES) { if v.len() < k && !used.contains(&i) { used.insert(i); v.push(probes[i].0.clone()); } }
        v
    };
    let mut used: HashSet<usize> = HashSet::new();

    // ---- phase 1: a nearly empty node
    for (i, k) in fillers.iter().take(8).enumerate() {
        let r = w.put_local(chunk_record(k, i)).await;
        assert_eq!(r, "Ok");
    }
    t.emit(json!({"ev":"Filled","held": w.n.all_listed().len()}));
    let ks = take_probes(0, PROBES, 3, &mut used);
    w.advert(&mut t, &ks, "no limits").await;
    let mut ks = vec![fillers[0].clone(), fillers[3].clone()];
    ks.extend(take_probes(0, PROBES, 2, &mut used));
    w.advert(&mut t, &ks, "two held, two missing").await;
    w.advert(&mut t, &[fillers[1].clone()], "single held key").await;
    // the store learns its range (between probe 12 and 13), a local put hands it to the fetcher
    let r1 = probes[12].1;
    w.set_store_range(r1);
    t.emit(json!({"ev":"SetRange"}));
    let r = w.put_local(chunk_record(&fillers[8], 8)).await;
    t.emit(json!({"ev":"PutNear","res":r}));
    let mut ks = take_probes(3, 12, 2, &mut used);
    ks.extend(take_probes(14, PROBES, 2, &mut used));
    w.advert(&mut t, &ks, "range handed over by a local put: two inside, two outside").await;
    let ks = take_probes(14, PROBES, 1, &mut used);
    w.advert(&mut t, &ks, "single key outside the range (fresh-replication path)").await;

    // ---- phase 2: fill to capacity (range widened to everything first)
    w.set_store_range([0xff; 32]);
    t.emit(json!({"ev":"SetRange"}));
    for (i, k) in fillers.iter().enumerate().skip(9) {
        let res = w.n.driver.verif_handle_local_cmd(LocalSwarmCmd::PutLocalRecord { record: chunk_record(k, i) });
        assert!(res.is_ok(), "fill put {i}: {res:?}");
        if i % 128 == 127 { settle(&mut w.n).await; }
    }
    settle(&mut w.n).await;
    w.range = w.store_range;
    let held = w.n.all_listed().len();
    t.emit(json!({"ev":"Filled","held": held}));
    assert_eq!(held, fill, "every filler acknowledged");
    let mut ks = vec![beyond[0].clone()];
    ks.extend(take_probes(14, PROBES, 2, &mut used));
    w.advert(&mut t, &ks, "full, nothing refused yet").await;
    let mut ks = vec![fillers[fill - 1].clone(), fillers[fill / 2].clone()];
    ks.extend(take_probes(14, PROBES, 1, &mut used));
    w.advert(&mut t, &ks, "full: two held (one of them the farthest), one missing").await;
    // a farther record is refused -> the fetcher is limited
    let r = w.put_local(chunk_record(&beyond[1], 1)).await;
    w.limited = r == "MaxRecords";
    w.far = Some(w.farthest_held());
    t.emit(json!({"ev":"PutFar","res":r,"beyondLeft":w.beyond_left()}));
    let mut ks = vec![beyond[2].clone()];
    ks.extend(take_probes(14, PROBES, 2, &mut used));
    w.advert(&mut t, &ks, "limited: one beyond, two near").await;
    w.advert(&mut t, &[beyond[3].clone()], "limited: single key beyond").await;
    let ks = vec![beyond[4].clone(), beyond[5].clone()];
    w.advert(&mut t, &ks, "limited: two beyond").await;
    // range again, handed over by a refused put
    let r2 = probes[30].1;
    w.set_store_range(r2);
    t.emit(json!({"ev":"SetRange"}));
    let r = w.put_local(chunk_record(&beyond[6], 6)).await;
    t.emit(json!({"ev":"PutFar","res":r,"beyondLeft":w.beyond_left()}));
    let mut ks = take_probes(14, 30, 2, &mut used);
    ks.extend(take_probes(31, PROBES, 2, &mut used));
    ks.push(beyond[7].clone());
    w.advert(&mut t, &ks, "limited and ranged: two inside, two outside, one beyond").await;

    drop(w);
    let _ = std::fs::remove_dir_all(&dir);
    let lines = t.finish();
    println!("{}", json!({"events": lines, "seed": seed, "fill": fill}));
}

fn main() {
    if std::env::var("VERIF_LOUD").is_err() { vtrace::quiet_panics(); }
    let rt = tokio::runtime::Builder::new_current_thread().enable_all().build().expect("runtime");
    rt.block_on(run());
}
