//! C09 driver: two or three REAL nodes in one process; the harness is the transport between them.
//! Periodic replication rounds (TriggerIntervalReplication -> Cmd::Replicate -> fetcher ->
//! GetReplicatedRecord -> store_replicated_in_record) run through the real handlers of every node.
#[path = "../nodeworld.rs"]
mod nodeworld;
use nodeworld::*;

use ant_networking::verif_hooks::{LocalSwarmCmd, NetworkSwarmCmd};
use ant_node::verif_hooks::VerifNode;
use ant_protocol::messages::{Cmd, Query, Request};
use ant_protocol::storage::{RecordKind, RecordType};
use ant_protocol::NetworkAddress;
use ant_evm::RewardsAddress;
use libp2p::kad::{Record, RecordKey};
use libp2p::PeerId;
use rand::{rngs::StdRng, SeedableRng};
use serde_json::{json, Value};
use sha2::{Digest, Sha256};
use std::collections::HashMap;
use std::path::PathBuf;
use vtrace::{arg, read_ndjson, Trace};

fn uz(v: &Value) -> u64 { v.as_u64().unwrap_or(0) }
fn st<'a>(v: &'a Value, d: &'a str) -> &'a str { v.as_str().unwrap_or(d) }

struct World {
    nodes: Vec<NodeH>,
    stranger: PeerId,
    run: u64,
    op_ids: HashMap<String, usize>,
    pad_contents: HashMap<String, u64>,
    keys: HashMap<(String, u64), RecordKey>, // (family, slot) -> key
    adverts: Vec<Value>,
    spoof_fetches: usize,
}

/// a valid record of the family for this slot
fn make(w: &mut World, r: &Value) -> Record {
    let fam = st(&r["fam"], "chunk");
    let slot = w.run * 1000 + uz(&r["slot"]);
    let owner = bls_key(slot);
    let (key, value) = match fam {
        "chunk" => {
            let c = chunk_of(slot);
            (NetworkAddress::from_chunk_address(*c.address()).to_record_key(), ser(&c, RecordKind::Chunk))
        }
        "pad" => {
            let p = scratchpad(&owner, &owner, uz(&r["c"]).max(1), uz(&r["content"]), false);
            w.pad_contents.insert(hex::encode(p.encrypted_data_hash().0), uz(&r["content"]));
            (NetworkAddress::ScratchpadAddress(*p.address()).to_record_key(), ser(&p, RecordKind::Scratchpad))
        }
        "txs" => {
            let txs: Vec<_> = r["ids"].as_array().cloned().unwrap_or_default().iter().map(|i| transaction(&owner, &owner, uz(i))).collect();
            let k = NetworkAddress::from_transaction_address(transaction(&owner, &owner, 0).address()).to_record_key();
            (k, ser(&txs, RecordKind::Transaction))
        }
        "reg" => {
            let base = register_base(&owner, slot);
            let mut ops = vec![];
            for i in r["ops"].as_array().cloned().unwrap_or_default() {
                let op = register_op(&base, &owner, uz(&i));
                w.op_ids.insert(hex::encode(rmp_serde::to_vec(&op).unwrap_or_default()), uz(&i) as usize);
                ops.push(op);
            }
            let reg = register_with(&base, ops);
            (NetworkAddress::from_register_address(*reg.address()).to_record_key(), ser(&reg, RecordKind::Register))
        }
        other => panic!("family {other}"),
    };
    w.keys.insert((fam.to_string(), uz(&r["slot"])), key.clone());
    record(key, value)
}

fn abs_content(w: &World, node: &mut NodeH, key: &RecordKey) -> Value {
    let rec = node.stored(key);
    let listed = node.listed(key);
    let d = describe(&rec);
    let hash = rec.as_ref().map(|r| hex::encode(&Sha256::digest(&r.value)[..8])).unwrap_or_default();
    let mut out = match d["kind"].as_str().unwrap_or("none") {
        "chunk" => json!({"kind":"chunk"}),
        "pad" => json!({"kind":"pad","c":d["count"],"content":w.pad_contents.get(d["content"].as_str().unwrap_or("")).cloned().unwrap_or(999),"valid":d["valid"]}),
        "txs" => json!({"kind":"txs","ids":d["txs"].as_array().map(|a| a.iter().map(|t| t["id"].clone()).collect::<Vec<_>>()).unwrap_or_default()}),
        "reg" => { let mut ops: Vec<usize> = d["ops"].as_array().map(|a| a.iter().map(|o| *w.op_ids.get(o.as_str().unwrap_or("")).unwrap_or(&999)).collect()).unwrap_or_default(); ops.sort(); json!({"kind":"reg","ops":ops}) }
        other => json!({"kind":other}),
    };
    out["listed"] = json!(listed);
    out["bytes"] = json!(hash);
    out
}

/// Run the whole system to quiescence: serve every node, carry every message.
async fn pump(w: &mut World, carry_adverts: bool) {
    let mut quiet = 0;
    let mut guard = 0;
    while quiet < 6 && guard < 20000 {
        guard += 1;
        tokio::task::yield_now().await;
        let mut progressed = 0;
        for i in 0..w.nodes.len() {
            progressed += w.nodes[i].serve_pending();
            // fetch lists produced by the fetcher -> the node's own replication fetch tasks
            let lists: Vec<_> = w.nodes[i].fetch_events.drain(..).collect();
            for keys in lists {
                progressed += 1;
                let node = w.nodes[i].node.clone();
                let _ = node.fetch_replication_keys_without_wait(keys);
            }
            let out: Vec<NetworkSwarmCmd> = w.nodes[i].outbox.drain(..).collect();
            for cmd in out {
                progressed += 1;
                if let NetworkSwarmCmd::SendRequest { req, peer, sender } = cmd {
                    let Some(j) = w.nodes.iter().position(|n| n.peer == peer) else { continue };
                    match req {
                        Request::Cmd(Cmd::Replicate { holder, keys }) => {
                            let from = w.nodes[i].peer;
                            w.adverts.push(json!({"from": i + 1, "to": j + 1, "n": keys.len(), "holderIsSender": holder.as_peer_id() == Some(from)}));
                            if carry_adverts {
                                w.nodes[j].driver.verif_handle_replicate(holder, keys);
                            }
                        }
                        Request::Query(q @ Query::GetReplicatedRecord { .. }) => {
                            let net = w.nodes[j].network.clone();
                            let resp = run_serving(&mut w.nodes[j], VerifNode::handle_query(&net, q, RewardsAddress::default())).await;
                            if let Some(tx) = sender { let _ = tx.send(Ok(resp)); }
                        }
                        _ => {}
                    }
                }
            }
        }
        if progressed == 0 { quiet += 1 } else { quiet = 0 }
    }
}

fn snapshot(w: &mut World) -> Value {
    let keys: Vec<((String, u64), RecordKey)> = w.keys.iter().map(|(k, v)| (k.clone(), v.clone())).collect();
    let mut out = vec![];
    for ((fam, slot), key) in keys {
        let mut per = vec![];
        for i in 0..w.nodes.len() {
            // borrow dance: take the node out for the call
            let mut n = w.nodes.remove(i);
            per.push(abs_content(w, &mut n, &key));
            w.nodes.insert(i, n);
        }
        out.push(json!({"fam": fam, "slot": slot, "nodes": per}));
    }
    out.sort_by_key(|v| (v["fam"].as_str().unwrap_or("").to_string(), v["slot"].as_u64().unwrap_or(0)));
    json!(out)
}

async fn step(w: &mut World, t: &mut Trace, s: &Value) {
    let ev = st(&s["ev"], "");
    match ev {
        "Place" => {
            let i = uz(&s["node"]) as usize - 1;
            let rec = make(w, &s["rec"]);
            let node = w.nodes[i].node.clone();
            let res = run_serving(&mut w.nodes[i], node.store_replicated_in_record(rec)).await;
            pump(w, false).await; // fresh-replication adverts of the placement are dropped: divergence is the point
            w.adverts.clear();
            let snap = snapshot(w);
            t.emit(json!({"ev":"Place","node":i+1,"rec":s["rec"],"res":if res.is_ok() {"Ok".to_string()} else {format!("Err:{}", res.unwrap_err())},"state":snap}));
        }
        "Round" => {
            let i = uz(&s["node"]) as usize - 1;
            w.adverts.clear();
            let held = w.nodes[i].all_listed().len();
            // ten minutes pass (longer than every replication throttle): the real throttle state decides, nothing is reset
            w.nodes[i].driver.verif_age_replication_timers(600);
            let _ = w.nodes[i].driver.verif_handle_local_cmd(LocalSwarmCmd::TriggerIntervalReplication);
            pump(w, true).await;
            let adverts = std::mem::take(&mut w.adverts);
            let snap = snapshot(w);
            t.emit(json!({"ev":"Round","node":i+1,"held":held,"adverts":adverts,"state":snap}));
        }
        "Spoof" => {
            // an advertisement whose holder is the receiver itself, or a peer it does not know
            let j = uz(&s["to"]) as usize - 1;
            let holder = match st(&s["holder"], "self") {
                "self" => w.nodes[j].peer,
                // a peer the receiver KNOWS (it is in its routing table) but that is beyond its K closest peers:
                // 30 further peers are inserted and the one farthest from the receiver (XOR of SHA-256 digests,
                // computed here) advertises
                "far" => {
                    let me = Sha256::digest(w.nodes[j].peer.to_bytes());
                    let mut rng = StdRng::seed_from_u64(w.run * 7919 + j as u64);
                    let mut fillers: Vec<PeerId> = (0..30).map(|_| PeerId::from(keypair(&mut rng).public())).collect();
                    for (n, p) in fillers.iter().enumerate() { w.nodes[j].add_peer(p, 43000 + n as u16); }
                    fillers.sort_by_key(|p| { let d = Sha256::digest(p.to_bytes()); let x: Vec<u8> = me.iter().zip(d.iter()).map(|(a, b)| a ^ b).collect(); x });
                    *fillers.last().expect("fillers")
                }
                _ => w.stranger,
            };
            let src = uz(&s["from"]) as usize - 1;
            let keys: Vec<(NetworkAddress, RecordType)> = {
                let n = &mut w.nodes[src];
                n.driver.verif_node_store_mut().map(|s| ant_networking::verif_hooks::store_record_addresses_ref(s).values().cloned().collect()).unwrap_or_default()
            };
            let before = w.nodes[j].fetch_events.len();
            w.nodes[j].driver.verif_handle_replicate(NetworkAddress::from_peer(holder), keys.clone());
            for _ in 0..6 { tokio::task::yield_now().await; w.nodes[j].serve_pending(); }
            let fetches = w.nodes[j].fetch_events.len() - before;
            let (tf, og) = w.nodes[j].driver.verif_fetcher_view();
            w.nodes[j].fetch_events.clear();
            let snap = snapshot(w);
            t.emit(json!({"ev":"Spoof","to":j+1,"holder":s["holder"],"advertised":keys.len(),"fetches":fetches,"queued":tf.len(),"inflight":og.len(),"state":snap}));
        }
        "Check" => {
            let snap = snapshot(w);
            t.emit(json!({"ev":"Check","state":snap}));
        }
        other => panic!("unknown step {other}"),
    }
}

async fn run() {
    let out = arg("--out").expect("--out");
    let work = PathBuf::from(arg("--work").expect("--work"));
    let seed = vtrace::seed_from_env();
    let mut t = Trace::create(&out);
    let scns = arg("--scenarios").map(|p| read_ndjson(&p)).unwrap_or_default();
    let stub = EvmStub::start();
    let mut run_no = 0;
    for scn in scns {
        run_no += 1;
        let nn = uz(&scn["nodes"]).max(2) as usize;
        let mut rng = StdRng::seed_from_u64(seed.wrapping_mul(31).wrapping_add(run_no));
        let dir = work.join(format!("run-{run_no}"));
        let mut nodes: Vec<NodeH> = (0..nn).map(|i| NodeH::new(&mut rng, dir.join(format!("n{i}")), stub.network())).collect();
        let peers: Vec<PeerId> = nodes.iter().map(|n| n.peer).collect();
        for (i, n) in nodes.iter_mut().enumerate() {
            for (j, p) in peers.iter().enumerate() {
                if i != j { n.add_peer(p, 41000 + j as u16); }
            }
        }
        let stranger = PeerId::from(keypair(&mut rng).public());
        let mut w = World { nodes, stranger, run: run_no, op_ids: HashMap::new(), pad_contents: HashMap::new(), keys: HashMap::new(), adverts: vec![], spoof_fetches: 0 };
        t.emit(json!({"ev":"Reset","run":run_no,"nodes":nn}));
        for s in scn["steps"].as_array().expect("steps") {
            step(&mut w, &mut t, s).await;
        }
        drop(w);
        let _ = std::fs::remove_dir_all(&dir);
    }
    let n = t.finish();
    println!("{}", json!({"events": n, "runs": run_no, "seed": seed}));
}

fn main() {
    if std::env::var("VERIF_LOUD").is_err() { vtrace::quiet_panics(); }
    let rt = tokio::runtime::Builder::new_current_thread().enable_all().build().expect("runtime");
    rt.block_on(run());
}
