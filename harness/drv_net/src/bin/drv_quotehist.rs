//! C13 (node level): the quote-history check of a REAL SwarmDriver (cmd.rs, QuoteVerification ->
//! verify_peer_quote). Scenarios are sequences of quotes of two peers (TLC-generated, or seeded random over a
//! wider value table); each quote is handed to the real handler and the retained quote / issue record of the
//! peer is logged before and after (hook H8). Judged by specs/quote/QuoteHistoryTrace.tla.
#[path = "../nodeworld.rs"]
#[allow(dead_code)]
mod nodeworld;
use nodeworld::*;

use ant_evm::{PaymentQuote, QuotingMetrics, RewardsAddress};
use ant_networking::verif_hooks::LocalSwarmCmd;
use libp2p::PeerId;
use rand::{rngs::StdRng, Rng, SeedableRng};
use serde_json::{json, Value};
use std::path::PathBuf;
use std::time::{Duration, SystemTime};
use vtrace::{arg, read_ndjson, Trace};
use xor_name::XorName;

fn quote(t0: SystemTime, ts: u64, live: u64, rpc: u64) -> PaymentQuote {
    PaymentQuote {
        content: XorName([7u8; 32]),
        timestamp: t0 + Duration::from_secs(ts),
        quoting_metrics: QuotingMetrics { close_records_stored: 1, max_records: 16384, received_payment_count: rpc as usize, live_time: live, network_density: None, network_size: Some(100) },
        rewards_address: RewardsAddress::default(),
        pub_key: vec![],
        signature: vec![],
    }
}

fn proj(t0: SystemTime, q: &Option<PaymentQuote>) -> Value {
    match q {
        None => json!({"ts": -1, "live": -1, "rpc": -1}),
        Some(q) => json!({"ts": q.timestamp.duration_since(t0).map(|d| d.as_secs() as i64).unwrap_or(-2), "live": q.quoting_metrics.live_time, "rpc": q.quoting_metrics.received_payment_count}),
    }
}

async fn run() {
    let out = arg("--out").expect("--out");
    let work = PathBuf::from(arg("--work").expect("--work"));
    let random: usize = arg("--random").and_then(|s| s.parse().ok()).unwrap_or(0);
    let seed = vtrace::seed_from_env();
    let mut t = Trace::create(&out);
    let mut scns: Vec<Value> = arg("--scenarios").map(|p| read_ndjson(&p)).unwrap_or_default();
    let mut rng = StdRng::seed_from_u64(seed.wrapping_mul(131).wrapping_add(9));
    for _ in 0..random {
        // wider table than the model-checked one: close timestamps (inside the 10 s margin), equal timestamps, big jumps
        let n = rng.gen_range(2..9);
        let mut steps = vec![];
        for _ in 0..n {
            let ts = [100u64, 100, 103, 109, 111, 120, 140, 400][rng.gen_range(0..8)];
            let live = [0u64, 50, 55, 61, 70, 90, 200, 360][rng.gen_range(0..8)];
            steps.push(json!({"p": if rng.gen_bool(0.7) { "A" } else { "B" }, "q": {"ts": ts, "live": live, "rpc": rng.gen_range(0..4)}}));
        }
        scns.push(json!(steps));
    }
    let stub = EvmStub::start();
    let dir = work.join("quotehist");
    let _ = std::fs::remove_dir_all(&dir);
    let mut n = NodeH::new(&mut rng, dir.clone(), stub.network());
    let t0 = SystemTime::now() - Duration::from_secs(5000);
    let mut runs = 0;
    for scn in scns {
        runs += 1;
        let a = PeerId::from(keypair(&mut rng).public());
        let b = PeerId::from(keypair(&mut rng).public());
        t.emit(json!({"ev":"Reset","run":runs}));
        for s in scn.as_array().expect("steps") {
            let p = s["p"].as_str().unwrap_or("A");
            let peer = if p == "A" { a } else { b };
            let q = quote(t0, s["q"]["ts"].as_u64().unwrap_or(0), s["q"]["live"].as_u64().unwrap_or(0), s["q"]["rpc"].as_u64().unwrap_or(0));
            let (before, _i0, _b0) = n.driver.verif_quote_history(&peer);
            let res = n.driver.verif_handle_local_cmd(LocalSwarmCmd::QuoteVerification { quotes: vec![(peer, q)] });
            let (after, issues, bad) = n.driver.verif_quote_history(&peer);
            t.emit(json!({"ev":"Quote","p":p,"q":s["q"],"before":proj(t0,&before),"after":proj(t0,&after),"issue":issues > 0,"issues":issues,"bad":bad,"ok":res.is_ok()}));
        }
        n.serve_pending();
    }
    // quotes CREATED by the node (ant-node create_quote_for_storecost: the node's own key signs): they must verify
    // only for the node itself and only as long as every signed field is untouched
    let nq: usize = arg("--node-quotes").and_then(|s| s.parse().ok()).unwrap_or(40);
    let other = PeerId::from(keypair(&mut rng).public());
    for i in 0..nq {
        use ant_node::verif_hooks::VerifNode;
        use ant_protocol::NetworkAddress;
        let mut x = [0u8; 32];
        rng.fill(&mut x);
        let addr = match i % 3 {
            0 => NetworkAddress::from_chunk_address(ant_protocol::storage::ChunkAddress::new(XorName(x))),
            1 => NetworkAddress::from_transaction_address(ant_protocol::storage::TransactionAddress::new(XorName(x))),
            _ => NetworkAddress::from_record_key(&libp2p::kad::RecordKey::new(&x)),
        };
        let m = QuotingMetrics { close_records_stored: rng.gen_range(0..5000), max_records: 16384, received_payment_count: rng.gen_range(0..50), live_time: rng.gen_range(0..100000),
                                 network_density: if rng.gen_bool(0.5) { Some([rng.gen::<u8>(); 32]) } else { None }, network_size: if rng.gen_bool(0.5) { Some(rng.gen_range(1..100000)) } else { None } };
        let mut rew = [0u8; 20];
        rng.fill(&mut rew);
        let rewards = RewardsAddress::from(rew);
        match VerifNode::create_quote_for_storecost(&n.network, &addr, &m, &rewards) {
            Ok(q) => {
                let mut alts = vec![];
                let mut a = q.clone(); a.content = XorName([9u8; 32]); alts.push(a);
                let mut a = q.clone(); a.timestamp = q.timestamp + Duration::from_secs(1); alts.push(a);
                let mut a = q.clone(); a.quoting_metrics.received_payment_count += 1; alts.push(a);
                let mut a = q.clone(); a.quoting_metrics.live_time += 1; alts.push(a);
                let mut a = q.clone(); a.quoting_metrics.close_records_stored += 1; alts.push(a);
                let mut a = q.clone(); a.rewards_address = RewardsAddress::from([1u8; 20]); alts.push(a);
                let altered: Vec<bool> = alts.iter().map(|a| a.check_is_signed_by_claimed_peer(n.peer)).collect();
                t.emit(json!({"ev":"NodeQuote","res":"ok","own":q.check_is_signed_by_claimed_peer(n.peer),"other":q.check_is_signed_by_claimed_peer(other),
                    "altered":altered,"content_ok":q.content == addr.as_xorname().unwrap_or_default(),"metrics_ok":q.quoting_metrics == m,"rewards_ok":q.rewards_address == rewards,
                    "fresh":!q.has_expired()}));
            }
            Err(e) => t.emit(json!({"ev":"NodeQuote","res":e,"own":false,"other":false,"altered":[],"content_ok":false,"metrics_ok":false,"rewards_ok":false,"fresh":false})),
        }
    }
    drop(n);
    let _ = std::fs::remove_dir_all(&dir);
    let lines = t.finish();
    println!("{}", json!({"events": lines, "runs": runs, "seed": seed}));
}

fn main() {
    if std::env::var("VERIF_LOUD").is_err() { vtrace::quiet_panics(); }
    let rt = tokio::runtime::Builder::new_current_thread().enable_all().build().expect("runtime");
    rt.block_on(run());
}
