//! C13 (node level): the quote-history check of a REAL SwarmDriver (cmd.rs, QuoteVerification ->
//! verify_peer_quote). Scenarios are sequences of quotes of up to three peers (TLC-generated, crafted, or seeded
//! random over a wider value table). Consecutive steps flagged `j` are handed to the real handler in ONE
//! QuoteVerification command (batches of up to 4 entries, any mix of peers); a `mark` step makes the node consider
//! the peer bad first (three BadQuoting reports through the real RecordNodeIssue handler, aged by hook H10). The
//! retained quote / issue record of every peer of a command is logged before and after it (hook H8).
//! Judged by specs/quote/QuoteHistoryTrace.tla.
#[path = "../nodeworld.rs"]
#[allow(dead_code)]
mod nodeworld;
use nodeworld::*;

use ant_evm::{PaymentQuote, QuotingMetrics, RewardsAddress};
use ant_networking::verif_hooks::LocalSwarmCmd;
use ant_networking::NodeIssue;
use libp2p::PeerId;
use rand::{rngs::StdRng, Rng, SeedableRng};
use serde_json::{json, Value};
use std::path::PathBuf;
use std::time::{Duration, SystemTime};
use vtrace::{arg, read_ndjson, Trace};
use xor_name::XorName;

fn quote(t0: SystemTime, ts: u64, live: u64, rpc: u64) -> PaymentQuote {
    PaymentQuote {
        content: XorName([7u8; 32]),
        timestamp: t0 + Duration::from_secs(ts),
        quoting_metrics: QuotingMetrics { close_records_stored: 1, max_records: 16384, received_payment_count: rpc as usize, live_time: live, network_density: None, network_size: Some(100) },
        rewards_address: RewardsAddress::default(),
        pub_key: vec![],
        signature: vec![],
    }
}

fn proj(t0: SystemTime, q: &Option<PaymentQuote>) -> Value {
    match q {
        None => json!({"ts": -1, "live": -1, "rpc": -1}),
        Some(q) => json!({"ts": q.timestamp.duration_since(t0).map(|d| d.as_secs() as i64).unwrap_or(-2), "live": q.quoting_metrics.live_time, "rpc": q.quoting_metrics.received_payment_count}),
    }
}

async fn run() {
    let out = arg("--out").expect("--out");
    let work = PathBuf::from(arg("--work").expect("--work"));
    let random: usize = arg("--random").and_then(|s| s.parse().ok()).unwrap_or(0);
    let seed = vtrace::seed_from_env();
    let mut t = Trace::create(&out);
    let mut scns: Vec<Value> = arg("--scenarios").map(|p| read_ndjson(&p)).unwrap_or_default();
    let mut rng = StdRng::seed_from_u64(seed.wrapping_mul(131).wrapping_add(9));
    // crafted batches (the shapes a reviewer named): (A inconsistent, B consistent), (A, A newer / A lower), an already-bad
    // peer in front of an inconsistent one, four entries of two peers
    let crafted = arg("--crafted").map(|s| s != "0").unwrap_or(false);
    if crafted {
        let st = |p: &str, ts: u64, live: u64, rpc: u64, j: bool| json!({"p": p, "q": {"ts": ts, "live": live, "rpc": rpc}, "j": j, "mark": false});
        let mark = |p: &str| json!({"p": p, "q": {"ts": -1, "live": -1, "rpc": -1}, "j": false, "mark": true});
        scns.push(json!([st("A", 100, 50, 1, false), st("A", 120, 40, 1, false), st("B", 100, 50, 0, true), st("A", 140, 70, 1, false), st("B", 120, 40, 0, true)]));
        scns.push(json!([st("A", 100, 50, 1, false), st("B", 100, 50, 1, false), st("B", 120, 60, 1, false), st("A", 120, 40, 1, true)]));
        scns.push(json!([st("A", 100, 50, 0, false), st("A", 120, 60, 0, true), st("A", 140, 55, 0, false)]));
        scns.push(json!([st("A", 100, 50, 0, false), st("A", 120, 40, 0, true)]));
        scns.push(json!([st("A", 120, 50, 2, false), st("A", 100, 50, 2, true), st("A", 140, 60, 1, true), st("A", 140, 60, 2, true)]));
        scns.push(json!([st("C", 100, 50, 0, false), mark("C"), st("C", 120, 40, 0, false), st("B", 100, 50, 0, true), st("C", 140, 90, 0, false), st("B", 120, 40, 0, true)]));
        scns.push(json!([mark("C"), st("B", 100, 70, 1, false), st("C", 100, 70, 1, false), st("B", 120, 70, 0, true), st("A", 100, 70, 1, true)]));
        scns.push(json!([st("A", 100, 50, 1, false), st("B", 100, 50, 1, true), st("A", 120, 40, 1, true), st("B", 120, 60, 0, true)]));
        scns.push(json!([st("A", 100, 50, 1, false), st("B", 100, 50, 1, false), st("A", 120, 40, 1, false), st("B", 120, 60, 0, true), st("A", 140, 45, 1, true), st("B", 140, 70, 1, true)]));
    }
    for _ in 0..random {
        // wider table than the model-checked one: close timestamps (inside the 10 s margin), equal timestamps, big jumps;
        // two in five of the scenarios come as batches, some with a peer the node considers bad
        let n = rng.gen_range(2..9);
        let batched = rng.gen_bool(0.4);
        let mark_at = if batched && rng.gen_bool(0.4) { rng.gen_range(0..n) } else { usize::MAX };
        let mut steps = vec![];
        for i in 0..n {
            if i == mark_at {
                steps.push(json!({"p": "C", "q": {"ts": -1, "live": -1, "rpc": -1}, "j": false, "mark": true}));
            }
            let ts = [100u64, 100, 103, 109, 111, 120, 140, 400][rng.gen_range(0..8)];
            let live = [0u64, 50, 55, 61, 70, 90, 200, 360][rng.gen_range(0..8)];
            let p = if !batched { if rng.gen_bool(0.7) { "A" } else { "B" } } else { ["A", "A", "A", "B", "B", "C"][rng.gen_range(0..6)] };
            steps.push(json!({"p": p, "q": {"ts": ts, "live": live, "rpc": rng.gen_range(0..4)}, "j": batched && rng.gen_bool(0.6), "mark": false}));
        }
        scns.push(json!(steps));
    }
    let stub = EvmStub::start();
    let dir = work.join("quotehist");
    let _ = std::fs::remove_dir_all(&dir);
    let mut n = NodeH::new(&mut rng, dir.clone(), stub.network());
    let t0 = SystemTime::now() - Duration::from_secs(5000);
    let mut runs = 0;
    let (mut cmds, mut batches, mut marks) = (0u64, 0u64, 0u64);
    for scn in scns {
        runs += 1;
        let ids = [("A", PeerId::from(keypair(&mut rng).public())), ("B", PeerId::from(keypair(&mut rng).public())), ("C", PeerId::from(keypair(&mut rng).public()))];
        let peer_of = |p: &str| ids.iter().find(|(name, _)| *name == p).map(|(_, id)| *id).unwrap_or(ids[0].1);
        t.emit(json!({"ev":"Reset","run":runs,"scn":scn}));
        // group the steps into commands: a step flagged j joins the command of the step before it (at most 4 entries)
        enum Grp<'a> { Mark(&'a str), Cmd(Vec<&'a Value>) }
        let mut groups: Vec<Grp> = vec![];
        for s in scn.as_array().expect("steps") {
            let p = s["p"].as_str().unwrap_or("A");
            if s["mark"].as_bool().unwrap_or(false) {
                groups.push(Grp::Mark(p));
                continue;
            }
            if s["j"].as_bool().unwrap_or(false) {
                if let Some(Grp::Cmd(v)) = groups.last_mut() {
                    if v.len() < 4 {
                        v.push(s);
                        continue;
                    }
                }
            }
            groups.push(Grp::Cmd(vec![s]));
        }
        for g in groups {
            match g {
                Grp::Mark(p) => {
                    // three reports of the same kind, each more than 10 s after the one before (time passes by ageing: hook H10)
                    let peer = peer_of(p);
                    for _ in 0..3 {
                        let _ = n.driver.verif_handle_local_cmd(LocalSwarmCmd::RecordNodeIssue { peer_id: peer, issue: NodeIssue::BadQuoting });
                        n.driver.verif_age_node_issues(&peer, 11);
                    }
                    n.serve_pending();
                    n.outbox.clear();
                    let (kept, issues, bad) = n.driver.verif_quote_history(&peer);
                    marks += 1;
                    t.emit(json!({"ev":"MarkBad","p":p,"issues":issues,"bad":bad,"kept":proj(t0,&kept)}));
                }
                Grp::Cmd(steps) => {
                    cmds += 1;
                    let entries: Vec<(&str, PeerId, PaymentQuote)> = steps
                        .iter()
                        .map(|s| {
                            let p = s["p"].as_str().unwrap_or("A");
                            (p, peer_of(p), quote(t0, s["q"]["ts"].as_u64().unwrap_or(0), s["q"]["live"].as_u64().unwrap_or(0), s["q"]["rpc"].as_u64().unwrap_or(0)))
                        })
                        .collect();
                    let befores: Vec<_> = entries.iter().map(|(_, peer, _)| n.driver.verif_quote_history(peer)).collect();
                    let res = n.driver.verif_handle_local_cmd(LocalSwarmCmd::QuoteVerification { quotes: entries.iter().map(|(_, peer, q)| (*peer, q.clone())).collect() });
                    let afters: Vec<_> = entries.iter().map(|(_, peer, _)| n.driver.verif_quote_history(peer)).collect();
                    if entries.len() == 1 {
                        let (before, _i0, bad0) = &befores[0];
                        let (after, issues, bad) = &afters[0];
                        t.emit(json!({"ev":"Quote","p":entries[0].0,"q":steps[0]["q"],"before":proj(t0,before),"after":proj(t0,after),"issue":*issues > 0,"issues":issues,"bad0":bad0,"bad":bad,"ok":res.is_ok()}));
                    } else {
                        batches += 1;
                        let ents: Vec<Value> = (0..entries.len())
                            .map(|i| json!({"p":entries[i].0,"q":steps[i]["q"],"before":proj(t0,&befores[i].0),"after":proj(t0,&afters[i].0),"issue":afters[i].1 > 0,"issues":afters[i].1,"bad0":befores[i].2,"bad":afters[i].2}))
                            .collect();
                        t.emit(json!({"ev":"Batch","entries":ents,"ok":res.is_ok()}));
                    }
                }
            }
        }
        n.serve_pending();
        n.outbox.clear();
    }
    // quotes CREATED by the node (ant-node create_quote_for_storecost: the node's own key signs): they must verify
    // only for the node itself and only as long as every signed field is untouched
    let nq: usize = arg("--node-quotes").and_then(|s| s.parse().ok()).unwrap_or(60);
    let other = PeerId::from(keypair(&mut rng).public());
    for i in 0..nq {
        use ant_node::verif_hooks::VerifNode;
        use ant_protocol::NetworkAddress;
        let mut x = [0u8; 32];
        rng.fill(&mut x);
        // every address kind; `name` is the content name the DRIVER derives from the parts of the address (the 32 bytes
        // themselves for chunk / transaction, XorName::from_content(meta ++ owner key) for a register, of the owner key for
        // a scratchpad); raw record keys and peer ids have no name (the quote then carries the all-zero name)
        let owner = bls_key(rng.gen::<u32>() as u64).public_key();
        let (kind, addr, name) = match i % 6 {
            0 => ("chunk", NetworkAddress::from_chunk_address(ant_protocol::storage::ChunkAddress::new(XorName(x))), Some(XorName(x))),
            1 => ("transaction", NetworkAddress::from_transaction_address(ant_protocol::storage::TransactionAddress::new(XorName(x))), Some(XorName(x))),
            2 => ("recordkey", NetworkAddress::from_record_key(&libp2p::kad::RecordKey::new(&x)), None),
            3 => {
                let mut b = x.to_vec();
                b.extend_from_slice(&owner.to_bytes());
                ("register", NetworkAddress::from_register_address(ant_registers::RegisterAddress::new(XorName(x), owner)), Some(XorName::from_content(&b)))
            }
            4 => ("scratchpad", NetworkAddress::ScratchpadAddress(ant_protocol::storage::ScratchpadAddress::new(owner)), Some(XorName::from_content(&owner.to_bytes()))),
            _ => ("peer", NetworkAddress::from_peer(PeerId::from(keypair(&mut rng).public())), None),
        };
        let m = QuotingMetrics { close_records_stored: rng.gen_range(0..5000), max_records: 16384, received_payment_count: rng.gen_range(0..50), live_time: rng.gen_range(0..100000),
                                 network_density: if rng.gen_bool(0.5) { Some([rng.gen::<u8>(); 32]) } else { None }, network_size: if rng.gen_bool(0.5) { Some(rng.gen_range(1..100000)) } else { None } };
        let mut rew = [0u8; 20];
        rng.fill(&mut rew);
        let rewards = RewardsAddress::from(rew);
        match VerifNode::create_quote_for_storecost(&n.network, &addr, &m, &rewards) {
            Ok(q) => {
                let mut alts = vec![];
                let mut a = q.clone(); a.content = XorName([9u8; 32]); alts.push(a);
                let mut a = q.clone(); a.timestamp = q.timestamp + Duration::from_secs(1); alts.push(a);
                let mut a = q.clone(); a.quoting_metrics.received_payment_count += 1; alts.push(a);
                let mut a = q.clone(); a.quoting_metrics.live_time += 1; alts.push(a);
                let mut a = q.clone(); a.quoting_metrics.close_records_stored += 1; alts.push(a);
                let mut a = q.clone(); a.rewards_address = RewardsAddress::from([1u8; 20]); alts.push(a);
                let altered: Vec<bool> = alts.iter().map(|a| a.check_is_signed_by_claimed_peer(n.peer)).collect();
                t.emit(json!({"ev":"NodeQuote","res":"ok","own":q.check_is_signed_by_claimed_peer(n.peer),"other":q.check_is_signed_by_claimed_peer(other),
                    "altered":altered,"kind":kind,"named":name.is_some(),"content_ok":q.content == name.unwrap_or_default(),"metrics_ok":q.quoting_metrics == m,"rewards_ok":q.rewards_address == rewards,
                    "fresh":!q.has_expired()}));
            }
            Err(e) => t.emit(json!({"ev":"NodeQuote","res":e,"kind":kind,"named":name.is_some(),"own":false,"other":false,"altered":[],"content_ok":false,"metrics_ok":false,"rewards_ok":false,"fresh":false})),
        }
    }
    drop(n);
    let _ = std::fs::remove_dir_all(&dir);
    let lines = t.finish();
    println!("{}", json!({"events": lines, "runs": runs, "commands": cmds, "batches": batches, "marks": marks, "seed": seed}));
}

fn main() {
    if std::env::var("VERIF_LOUD").is_err() { vtrace::quiet_panics(); }
    let rt = tokio::runtime::Builder::new_current_thread().enable_all().build().expect("runtime");
    rt.block_on(run());
}
