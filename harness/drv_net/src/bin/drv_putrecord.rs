//! Put-path driver (specs/putrecord): the REAL `Network::put_record` (retry loop, `put_record_once`, the
//! verification by `get_record_from_network` / `verify_chunk_existence`) with the harness owning the
//! command receivers of the `SwarmDriver` the `Network` handle belongs to (the driver is never run).
//!
//! mode 1  client built by `build_client()`: the harness answers every command itself, as the scenario
//!         prescribes (reply to each PutRecord / PutRecordTo, answer class of each GetNetworkRecord, the
//!         close nodes and which of them return a ChunkProof that verifies / a wrong one / nothing).
//! mode 2  node built by `build_node()`: PutRecord / PutRecordTo / GetNetworkRecord commands are handed to the
//!         REAL `SwarmDriver::handle_network_cmd` with the harness sitting on the reply channel (it creates
//!         its own oneshot pair, hands the sender to the handler, logs what arrives and forwards it to the
//!         caller); a kad PutRecord result event (Ok / QuorumFailed / Timeout) is injected after every put
//!         command and the peers' GetRecord replies + terminating event of every read through
//!         `handle_kad_event`.  ChunkProof commands are answered by the harness in both modes.
//!
//! All cases run concurrently on one current-thread runtime, each under its own record key (commands are
//! attributed to cases by key).  The code under test really sleeps (300..750 ms before a verification, the
//! back-off of both retry loops): the harness waits for it in 2 ms naps and never orders anything by time;
//! elapsed times are logged as data.
//!
//! One `Put` line per finished call: configuration, per attempt the observed command (record compared byte
//! for byte with the caller's, quorum, peers), the replies its sender got, the verification commands and
//! their answers, and the result.
use ant_networking::verif_hooks::NetworkSwarmCmd;
use ant_networking::{GetRecordCfg, GetRecordError, Network, NetworkBuilder, NetworkError, NetworkEvent, PutRecordCfg, SwarmDriver, VerificationKind};
use ant_protocol::messages::{ChunkProof, Query, QueryResponse, Request, Response};
use ant_protocol::storage::{try_serialize_record, Chunk, RecordKind, RetryStrategy, Transaction};
use ant_protocol::NetworkAddress;
use bls::SecretKey;
use bytes::Bytes;
use libp2p::kad::{self, GetRecordOk, PeerRecord, ProgressStep, QueryId, QueryResult, QueryStats, Quorum, Record, RecordKey};
use libp2p::{identity::Keypair, PeerId};
use rand::{rngs::StdRng, Rng, SeedableRng};
use serde_json::{json, Value};
use std::collections::{BTreeMap, HashMap, HashSet};
use std::num::NonZeroUsize;
use std::time::Instant;
use tokio::sync::{mpsc, oneshot};
use vtrace::{arg, guarded, read_ndjson, Trace};
use xor_name::XorName;

type GetOutcome = std::result::Result<Record, GetRecordError>;
type PutReply = std::result::Result<(), NetworkError>;

fn uz(v: &Value) -> usize {
    v.as_u64().unwrap_or(0) as usize
}

fn quorum_of(s: &str) -> Quorum {
    match s {
        "One" => Quorum::One,
        "N2" => Quorum::N(NonZeroUsize::new(2).expect("2")),
        "Maj" => Quorum::Majority,
        "All" => Quorum::All,
        other => panic!("unknown quorum {other}"),
    }
}
fn quorum_name(q: &Quorum) -> &'static str {
    match q {
        Quorum::One => "One",
        Quorum::Majority => "Maj",
        Quorum::All => "All",
        Quorum::N(n) if n.get() == 2 => "N2",
        _ => "Other",
    }
}
/// the harness's own reading of a quorum name (close group of 5)
fn quorum_value(s: &str) -> usize {
    match s {
        "One" => 1,
        "N2" => 2,
        "Maj" => 3,
        _ => 5,
    }
}
fn strategy(natt: usize, alt: bool) -> Option<RetryStrategy> {
    match natt {
        1 if alt => None,
        1 => Some(RetryStrategy::None),
        4 if alt => Some(RetryStrategy::Quick),
        n => Some(RetryStrategy::N(NonZeroUsize::new(n).expect("natt"))),
    }
}

// ------------------------------------------------------------------ contents
struct Universe {
    t1: Vec<u8>,    // transaction record [T1]: what the Network / Crdt cases put
    t2: Vec<u8>,    // transaction record [T2]: the other content
    ca: Vec<u8>,    // chunk A: what the ChunkProof / unverified cases put
    cb: Vec<u8>,    // chunk B
    big: Vec<u8>,   // a value the node's record store refuses (>= MAX_PACKET_SIZE)
}
impl Universe {
    fn new() -> Self {
        let mut rng = StdRng::seed_from_u64(0xB11);
        let mut b = [0u8; 32];
        rng.fill(&mut b);
        b[0] &= 0x3f;
        let owner = SecretKey::from_bytes(b).expect("secret key");
        let ser = |v: &Vec<Transaction>| try_serialize_record(v, RecordKind::Transaction).expect("ser").to_vec();
        let t1 = Transaction::new(owner.public_key(), vec![], [1u8; 32], vec![], &owner);
        let t2 = Transaction::new(owner.public_key(), vec![], [2u8; 32], vec![], &owner);
        let chunk = |i: u8| try_serialize_record(&Chunk::new(Bytes::from(vec![i; 48])), RecordKind::Chunk).expect("ser").to_vec();
        Universe { t1: ser(&vec![t1]), t2: ser(&vec![t2]), ca: chunk(1), cb: chunk(2), big: vec![7u8; ant_networking::MAX_PACKET_SIZE] }
    }
}

// ------------------------------------------------------------------ one case
#[derive(Default)]
struct ReadObs {
    a: String,
    q: String,
    tgt: bool,
    n: usize,
    t: u128,
}
#[derive(Default)]
struct ProofObs {
    n: usize,
    v: usize,
    lie: usize,
    silent: usize,
    noncediff: usize,
    t: u128,
}
#[derive(Default)]
struct AttObs {
    cmd: String,
    same: bool,
    q: String,
    peersok: bool,
    nrep: usize,
    reply: String,
    rat: String,
    kres: String,
    hres: String,
    reads: Vec<ReadObs>,
    proofs: Vec<ProofObs>,
    round_peers: HashSet<PeerId>,
    closeq: usize,
    t: u128,
}
struct Case {
    scn: usize,
    mode: usize,
    cfg: Value,
    script: Vec<Value>,
    key: RecordKey,
    record: Record,
    other: Record,
    peers: Vec<PeerId>,
    close: Vec<PeerId>,
    nonce: u64,
    att: Vec<AttObs>,
    orphans: usize,
    t0: Instant,
    handle: Option<tokio::task::JoinHandle<Result<(), NetworkError>>>,
    result: Option<Value>,
    total_ms: u128,
}

fn peer(rng: &mut StdRng) -> PeerId {
    let mut b = [0u8; 32];
    rng.fill(&mut b);
    PeerId::from(Keypair::ed25519_from_bytes(b).expect("seed").public())
}

fn classify(r: &Result<(), NetworkError>) -> Value {
    let e = match r {
        Ok(()) => return json!({"kind":"Ok","e":""}),
        Err(NetworkError::RecordNotStoredByNodes(_)) => "RecordNotStoredByNodes".to_string(),
        Err(NetworkError::FailedToVerifyChunkProof(_)) => "FailedToVerifyChunkProof".to_string(),
        Err(NetworkError::KademliaStoreError(_)) => "PutReplyErr".to_string(),
        Err(NetworkError::SenderDropped(_)) | Err(NetworkError::InternalMsgChannelDropped) => "ChannelDropped".to_string(),
        Err(NetworkError::GetRecordError(g)) => match g {
            GetRecordError::SplitRecord { .. } => "Split",
            GetRecordError::NotEnoughCopies { .. } => "NotEnoughCopies",
            GetRecordError::QueryTimeout => "QueryTimeout",
            GetRecordError::RecordDoesNotMatch(_) => "RecordDoesNotMatch",
            GetRecordError::RecordNotFound => "NotFound",
            GetRecordError::RecordKindMismatch => "RecordKindMismatch",
        }
        .to_string(),
        Err(other) => format!("Other:{}", format!("{other:?}").chars().take(40).collect::<String>()),
    };
    json!({"kind":"Err","e":e})
}

struct World {
    mode: usize,
    net: Network,
    drv: SwarmDriver,
    _events: mpsc::Receiver<NetworkEvent>,
    _dir: Option<tempfile::TempDir>,
    put_qid: QueryId,
    found_count: HashMap<QueryId, usize>,
}

impl World {
    fn new(mode: usize, rng: &mut StdRng, work: &str) -> Self {
        let mut seed = [0u8; 32];
        rng.fill(&mut seed);
        let kp = Keypair::ed25519_from_bytes(seed).expect("ed25519 seed");
        let (net, events, drv, dir) = if mode == 1 {
            let (net, events, drv) = NetworkBuilder::new(kp.clone(), true).build_client().expect("build_client");
            (net, events, drv, None)
        } else {
            std::fs::create_dir_all(work).expect("work dir");
            let dir = tempfile::Builder::new().prefix("putnode").tempdir_in(work).expect("tempdir");
            let mut b = NetworkBuilder::new(kp.clone(), true);
            b.listen_addr("127.0.0.1:0".parse().expect("addr"));
            let root = dir.path().join("node");
            std::fs::create_dir_all(&root).expect("node dir");
            let (net, events, drv) = b.build_node(root).expect("build_node");
            (net, events, drv, Some(dir))
        };
        // a QueryId value for the synthetic PutRecord result events (the handlers only log it): taken from a
        // scratch kad behaviour of the harness, QueryId having no public constructor
        let me = PeerId::from(kp.public());
        let mut scratch = kad::Behaviour::with_config(me, kad::store::MemoryStore::new(me), kad::Config::new(libp2p::StreamProtocol::new("/verif/kad")));
        let put_qid = scratch.get_closest_peers(me);
        World { mode, net, drv, _events: events, _dir: dir, put_qid, found_count: HashMap::new() }
    }

    fn get_event(&mut self, qid: QueryId, result: kad::GetRecordResult, last: bool) -> kad::Event {
        let n = self.found_count.entry(qid).or_insert(0);
        *n += 1;
        kad::Event::OutboundQueryProgressed {
            id: qid,
            result: QueryResult::GetRecord(result),
            stats: QueryStats::empty(),
            step: ProgressStep { count: NonZeroUsize::new(*n).expect("count"), last },
        }
    }
}

fn split_map(a: &Record, b: &Record, pa: PeerId, pb: PeerId) -> HashMap<XorName, (Record, HashSet<PeerId>)> {
    let mut m = HashMap::new();
    m.insert(XorName::from_content(&a.value), (a.clone(), [pa].into_iter().collect()));
    m.insert(XorName::from_content(&b.value), (b.clone(), [pb].into_iter().collect()));
    m
}

/// the answer class of what a GetNetworkRecord caller was given (harness's own comparison of bytes)
fn class_of(o: &GetOutcome, case: &Case, u: &Universe) -> &'static str {
    match o {
        Ok(r) if *r == case.record => "OkMatch",
        Ok(_) => "OkOther",
        Err(GetRecordError::SplitRecord { result_map }) => {
            let vals: HashSet<&Vec<u8>> = result_map.values().map(|(r, _)| &r.value).collect();
            if vals.len() >= 2 && vals.iter().all(|v| **v == u.t1 || **v == u.t2) {
                "SplitMerge"
            } else {
                "Split"
            }
        }
        Err(GetRecordError::RecordNotFound) => "NotFound",
        Err(GetRecordError::NotEnoughCopies { .. }) => "NotEnoughCopies",
        Err(GetRecordError::QueryTimeout) => "QueryTimeout",
        Err(GetRecordError::RecordDoesNotMatch(_)) => "RecordDoesNotMatch",
        Err(GetRecordError::RecordKindMismatch) => "Other",
    }
}

fn scripted_att(case: &Case) -> Value {
    case.script.get(case.att.len().saturating_sub(1)).cloned().unwrap_or_else(|| json!({"reply":"Ok","reads":[],"proofs":[]}))
}

fn on_put(w: &mut World, case: &mut Case, cmd: NetworkSwarmCmd) {
    let (name, record, quorum, peers) = match &cmd {
        NetworkSwarmCmd::PutRecord { record, quorum, .. } => ("PutRecord", record.clone(), *quorum, None),
        NetworkSwarmCmd::PutRecordTo { record, quorum, peers, .. } => ("PutRecordTo", record.clone(), *quorum, Some(peers.clone())),
        _ => unreachable!("put command"),
    };
    let mut a = AttObs { cmd: name.to_string(), same: record == case.record, q: quorum_name(&quorum).to_string(), t: case.t0.elapsed().as_millis(), ..Default::default() };
    a.peersok = match &peers {
        Some(p) => *p == case.peers,
        None => true,
    };
    case.att.push(a);
    let script = scripted_att(case);
    let idx = case.att.len() - 1;
    if w.mode == 1 {
        let reply: PutReply = if script["reply"] == "Err" { Err(NetworkError::KademliaStoreError(kad::store::Error::MaxRecords)) } else { Ok(()) };
        let a = &mut case.att[idx];
        a.reply = if reply.is_ok() { "Ok" } else { "Err" }.to_string();
        a.nrep = 1;
        a.rat = "harness".to_string();
        match cmd {
            NetworkSwarmCmd::PutRecord { sender, .. } | NetworkSwarmCmd::PutRecordTo { sender, .. } => {
                let _ = sender.send(reply);
            }
            _ => {}
        }
        return;
    }
    // mode 2: the real handler, the harness on the reply channel
    let (tx2, mut rx2) = oneshot::channel::<PutReply>();
    let (orig, cmd2) = match cmd {
        NetworkSwarmCmd::PutRecord { record, sender, quorum } => (sender, NetworkSwarmCmd::PutRecord { record, sender: tx2, quorum }),
        NetworkSwarmCmd::PutRecordTo { peers, record, sender, quorum } => (sender, NetworkSwarmCmd::PutRecordTo { peers, record, sender: tx2, quorum }),
        _ => unreachable!("put command"),
    };
    let drv = &mut w.drv;
    let hres = guarded(move || drv.verif_handle_network_cmd(cmd2));
    let mut got: Option<PutReply> = None;
    let mut rat = "never";
    let mut closed = false;
    match rx2.try_recv() {
        Ok(r) => {
            got = Some(r);
            rat = "cmd";
        }
        Err(oneshot::error::TryRecvError::Closed) => closed = true,
        Err(oneshot::error::TryRecvError::Empty) => {}
    }
    // the kad result of the put query arrives (which one rotates over the cases: the handlers only log it)
    let kres = ["Ok", "QuorumFailed", "Timeout"][(case.scn + idx) % 3];
    let key = case.key.clone();
    let q1 = NonZeroUsize::new(1).expect("1");
    let result = match kres {
        "Ok" => Ok(kad::PutRecordOk { key }),
        "QuorumFailed" => Err(kad::PutRecordError::QuorumFailed { key, success: vec![], quorum: q1 }),
        _ => Err(kad::PutRecordError::Timeout { key, success: vec![], quorum: q1 }),
    };
    let event = kad::Event::OutboundQueryProgressed {
        id: w.put_qid,
        result: QueryResult::PutRecord(result),
        stats: QueryStats::empty(),
        step: ProgressStep { count: q1, last: true },
    };
    let drv = &mut w.drv;
    let eres = guarded(move || drv.verif_handle_kad_event(event));
    if got.is_none() && !closed {
        match rx2.try_recv() {
            Ok(r) => {
                got = Some(r);
                rat = "event";
            }
            Err(oneshot::error::TryRecvError::Closed) => closed = true,
            Err(oneshot::error::TryRecvError::Empty) => {}
        }
    }
    let a = &mut case.att[idx];
    a.kres = kres.to_string();
    a.hres = format!(
        "{}/{}",
        match &hres { Ok(Ok(())) => "Ok", Ok(Err(_)) => "Err", Err(_) => "Panic" },
        match &eres { Ok(Ok(())) => "Ok", Ok(Err(_)) => "Err", Err(_) => "Panic" }
    );
    a.rat = rat.to_string();
    match got {
        Some(r) => {
            a.nrep = 1;
            a.reply = if r.is_ok() { "Ok" } else { "Err" }.to_string();
            let _ = orig.send(r);
        }
        None => {
            // no reply after the command and the result event were handled: the caller's channel is closed
            a.nrep = if closed { 2 } else { 0 };
            a.reply = "None".to_string();
            drop(orig);
        }
    }
}

fn on_get(w: &mut World, case: &mut Case, u: &Universe, key: RecordKey, sender: oneshot::Sender<GetOutcome>, cfg: GetRecordCfg) {
    let want_target = case.cfg["target"].as_bool().unwrap_or(false);
    let tgt = if want_target { cfg.target_record.as_ref() == Some(&case.record) } else { cfg.target_record.is_none() };
    let gq = case.cfg["gq"].as_str().unwrap_or("Maj").to_string();
    let t = case.t0.elapsed().as_millis();
    if case.att.is_empty() {
        case.orphans += 1;
        let _ = sender.send(Err(GetRecordError::RecordNotFound));
        return;
    }
    let script = scripted_att(case);
    let ridx = case.att.last().expect("att").reads.len();
    let class = script["reads"].get(ridx).and_then(|v| v.as_str()).unwrap_or("NotFound").to_string();
    let mut obs = ReadObs { q: quorum_name(&cfg.get_quorum).to_string(), tgt, t, ..Default::default() };
    let p = |i: usize| case.close[i % case.close.len()];
    let chunk_a = Record { key: key.clone(), value: u.ca.clone(), publisher: None, expires: None };
    let chunk_b = Record { key: key.clone(), value: u.cb.clone(), publisher: None, expires: None };
    let t1 = Record { key: key.clone(), value: u.t1.clone(), publisher: None, expires: None };
    let t2 = Record { key: key.clone(), value: u.t2.clone(), publisher: None, expires: None };
    if w.mode == 1 {
        let reply: GetOutcome = match class.as_str() {
            "OkMatch" => Ok(case.record.clone()),
            "OkOther" => Ok(case.other.clone()),
            "SplitMerge" => Err(GetRecordError::SplitRecord { result_map: split_map(&t1, &t2, p(0), p(1)) }),
            "Split" => Err(GetRecordError::SplitRecord { result_map: split_map(&chunk_a, &chunk_b, p(0), p(1)) }),
            "NotEnoughCopies" => Err(GetRecordError::NotEnoughCopies { record: case.record.clone(), expected: quorum_value(&gq), got: quorum_value(&gq) - 1 }),
            "QueryTimeout" => Err(GetRecordError::QueryTimeout),
            "RecordDoesNotMatch" => Err(GetRecordError::RecordDoesNotMatch(case.other.clone())),
            _ => Err(GetRecordError::RecordNotFound),
        };
        obs.a = class_of(&reply, case, u).to_string();
        case.att.last_mut().expect("att").reads.push(obs);
        let _ = sender.send(reply);
        return;
    }
    // mode 2: the real GetNetworkRecord handler, raw replies through the real kad event handlers
    let before: HashSet<QueryId> = w.drv.verif_pending_get_record().iter().map(|x| x.0).collect();
    let (tx2, mut rx2) = oneshot::channel::<GetOutcome>();
    let drv = &mut w.drv;
    let k2 = key.clone();
    let _ = guarded(move || drv.verif_handle_network_cmd(NetworkSwarmCmd::GetNetworkRecord { key: k2, sender: tx2, cfg }));
    let qid = w.drv.verif_pending_get_record().iter().find(|x| !before.contains(&x.0) && x.1 == key).map(|x| x.0);
    let qn = quorum_value(&gq);
    // (peer index, record) replies, then the terminating event
    let (replies, term): (Vec<(usize, Record)>, &str) = match class.as_str() {
        "OkMatch" => ((0..qn).map(|i| (i, case.record.clone())).collect(), "Finished"),
        "OkOther" | "RecordDoesNotMatch" => ((0..qn).map(|i| (i, case.other.clone())).collect(), "Finished"),
        "SplitMerge" => (vec![(0, t1.clone()), (1, t2.clone())], "Finished"),
        "Split" => (vec![(0, chunk_a.clone()), (1, chunk_b.clone())], "Finished"),
        "NotEnoughCopies" => ((0..qn.saturating_sub(1)).map(|i| (i, case.record.clone())).collect(), "Finished"),
        "QueryTimeout" => (vec![], "Timeout"),
        _ => (vec![], "NotFound"),
    };
    let mut got: Option<GetOutcome> = None;
    let mut matching: HashSet<usize> = HashSet::new();
    if let Some(qid) = qid {
        for (i, r) in replies {
            if got.is_some() {
                break;
            }
            if r == case.record {
                matching.insert(i);
            }
            let ev = w.get_event(qid, Ok(GetRecordOk::FoundRecord(PeerRecord { peer: Some(p(i)), record: r })), false);
            let drv = &mut w.drv;
            let _ = guarded(move || drv.verif_handle_kad_event(ev));
            got = rx2.try_recv().ok();
        }
        if got.is_none() {
            let ev = match term {
                "Finished" => w.get_event(qid, Ok(GetRecordOk::FinishedWithNoAdditionalRecord { cache_candidates: BTreeMap::new() }), true),
                "Timeout" => w.get_event(qid, Err(kad::GetRecordError::Timeout { key: key.clone() }), true),
                _ => w.get_event(qid, Err(kad::GetRecordError::NotFound { key: key.clone(), closest_peers: vec![] }), true),
            };
            let drv = &mut w.drv;
            let _ = guarded(move || drv.verif_handle_kad_event(ev));
            got = rx2.try_recv().ok();
        }
    } else {
        got = rx2.try_recv().ok();
    }
    obs.n = matching.len();
    match got {
        Some(o) => {
            obs.a = class_of(&o, case, u).to_string();
            case.att.last_mut().expect("att").reads.push(obs);
            let _ = sender.send(o);
        }
        None => {
            obs.a = "Other".to_string();
            case.att.last_mut().expect("att").reads.push(obs);
            drop(sender);
        }
    }
}

fn on_proof_request(case: &mut Case, u: &Universe, peer: PeerId, nonce: u64, addr: NetworkAddress, sender: oneshot::Sender<Result<Response, NetworkError>>) {
    let t = case.t0.elapsed().as_millis();
    if case.att.is_empty() {
        case.orphans += 1;
        return;
    }
    let script = scripted_att(case);
    let close = case.close.clone();
    let case_nonce = case.nonce;
    let value = case.record.value.clone();
    let a = case.att.last_mut().expect("att");
    if a.proofs.is_empty() || a.round_peers.contains(&peer) {
        a.proofs.push(ProofObs { t, ..Default::default() });
        a.round_peers.clear();
    }
    a.round_peers.insert(peer);
    let ridx = a.proofs.len() - 1;
    let v = script["proofs"].get(ridx).map(uz).unwrap_or(0);
    let rank = close.iter().position(|p| *p == peer).unwrap_or(usize::MAX);
    let round = a.proofs.last_mut().expect("round");
    round.n += 1;
    if nonce != case_nonce {
        round.noncediff += 1;
    }
    let reply = |proofs| Ok(Response::Query(QueryResponse::GetChunkExistenceProof(proofs)));
    if rank < v {
        // an honest holder: hash(record value + the nonce it was sent)
        if nonce == case_nonce {
            round.v += 1;
        }
        let _ = sender.send(reply(vec![(addr, Ok(ChunkProof::new(&value, nonce)))]));
    } else {
        let rest = rank.saturating_sub(v);
        match rest % 4 {
            0 => {
                round.lie += 1;
                let _ = sender.send(reply(vec![(addr, Ok(ChunkProof::new(&u.cb, nonce)))]));
            }
            1 => {
                round.silent += 1;
                drop(sender);
            }
            2 => {
                round.lie += 1;
                let _ = sender.send(reply(vec![]));
            }
            _ => {
                round.lie += 1;
                let _ = sender.send(reply(vec![(addr.clone(), Err(ant_protocol::error::Error::ChunkDoesNotExist(addr)))]));
            }
        }
    }
}

fn emit(t: &mut Trace, c: &Case) {
    let att: Vec<Value> = c
        .att
        .iter()
        .map(|a| {
            json!({"cmd": a.cmd, "same": a.same, "q": a.q, "peersok": a.peersok, "nrep": a.nrep, "reply": a.reply,
                   "reads": a.reads.iter().map(|r| json!({"a": r.a, "q": r.q, "tgt": r.tgt, "n": r.n, "t": r.t as u64})).collect::<Vec<_>>(),
                   "proofs": a.proofs.iter().map(|p| json!({"n": p.n, "v": p.v, "lie": p.lie, "silent": p.silent, "noncediff": p.noncediff, "t": p.t as u64})).collect::<Vec<_>>(),
                   "rat": a.rat, "kres": a.kres, "hres": a.hres, "closeq": a.closeq, "t": a.t as u64})
        })
        .collect();
    t.emit(json!({"ev":"Put","mode":c.mode,"scn":c.scn,"cfg":c.cfg,"att":att,"res":c.result.clone().expect("result"),
                  "orphans":c.orphans,"ms":c.total_ms as u64,"script":c.script,"src":"tlc"}));
}

async fn run() {
    let out = arg("--out").expect("--out");
    let work = arg("--work").expect("--work");
    let seed = vtrace::seed_from_env();
    let max_big: usize = arg("--big").and_then(|s| s.parse().ok()).unwrap_or(3);
    let only_mode: usize = arg("--mode").and_then(|s| s.parse().ok()).unwrap_or(0);
    let mut t = Trace::create(&out);
    let u = Universe::new();
    let scns = arg("--scenarios").map(|p| read_ndjson(&p)).unwrap_or_default();
    let mut rng = StdRng::seed_from_u64(seed.wrapping_mul(611_953).wrapping_add(11));
    let mut worlds = vec![World::new(1, &mut rng, &work), World::new(2, &mut rng, &work)];
    let mut cases: Vec<Case> = vec![];
    let mut big_used = 0usize;
    for (si, s) in scns.iter().enumerate() {
        let cfg = s["cfg"].clone();
        let script: Vec<Value> = s["att"].as_array().expect("att").clone();
        let verif = cfg["verif"].as_str().expect("verif").to_string();
        let to = cfg["to"].as_bool().unwrap_or(false);
        for mode in [1usize, 2] {
            if only_mode != 0 && only_mode != mode {
                continue;
            }
            let all_ok = script.iter().all(|a| a["reply"] == "Ok");
            let all_err = script.iter().all(|a| a["reply"] == "Err");
            let mut big = false;
            if mode == 2 && !all_ok {
                // the real handler refuses a record only when the node's store does (oversize value, PutRecord only)
                if all_err && !to && big_used < max_big {
                    big = true;
                    big_used += 1;
                } else {
                    continue;
                }
            }
            let mut kb = [0u8; 32];
            rng.fill(&mut kb);
            let key = RecordKey::new(&kb);
            let value = if big { u.big.clone() } else if verif == "Network" || verif == "Crdt" { u.t1.clone() } else { u.ca.clone() };
            let other_value = if verif == "Network" || verif == "Crdt" { u.t2.clone() } else { u.cb.clone() };
            let record = Record { key: key.clone(), value, publisher: None, expires: None };
            let other = Record { key: key.clone(), value: other_value, publisher: None, expires: None };
            let peers: Vec<PeerId> = (0..3).map(|_| peer(&mut rng)).collect();
            let mut close: Vec<PeerId> = (0..7).map(|_| peer(&mut rng)).collect();
            // rank = closeness to the key, as the code under test will sort them
            let target = NetworkAddress::from_record_key(&key);
            close.sort_by_key(|p| target.distance(&NetworkAddress::from_peer(*p)));
            cases.push(Case {
                scn: si + 1, mode, cfg: cfg.clone(), script: script.clone(), key, record, other, peers, close, nonce: rng.gen(),
                att: vec![], orphans: 0, t0: Instant::now(), handle: None, result: None, total_ms: 0,
            });
        }
    }
    let by_key: HashMap<RecordKey, usize> = cases.iter().enumerate().map(|(i, c)| (c.key.clone(), i)).collect();
    // from here on a panic is one of the code under test: data
    vtrace::quiet_panics();
    // start every call
    for c in cases.iter_mut() {
        let cfg = &c.cfg;
        let verif = cfg["verif"].as_str().expect("verif");
        let alt = c.scn % 2 == 0;
        let get_cfg = GetRecordCfg {
            get_quorum: quorum_of(cfg["gq"].as_str().expect("gq")),
            retry_strategy: strategy(uz(&cfg["gnatt"]), alt),
            target_record: if cfg["target"].as_bool().unwrap_or(false) { Some(c.record.clone()) } else { None },
            expected_holders: HashSet::new(),
            is_register: false,
        };
        let verification = match verif {
            "None" => None,
            "Network" => Some((VerificationKind::Network, get_cfg)),
            "Crdt" => Some((VerificationKind::Crdt, get_cfg)),
            _ => Some((VerificationKind::ChunkProof { expected_proof: ChunkProof::new(&c.record.value, c.nonce), nonce: c.nonce }, get_cfg)),
        };
        let put_cfg = PutRecordCfg {
            put_quorum: quorum_of(cfg["pq"].as_str().expect("pq")),
            retry_strategy: strategy(uz(&cfg["natt"]), !alt),
            use_put_record_to: if cfg["to"].as_bool().unwrap_or(false) { Some(c.peers.clone()) } else { None },
            verification,
        };
        let net = worlds[c.mode - 1].net.clone();
        let record = c.record.clone();
        c.t0 = Instant::now();
        c.handle = Some(tokio::spawn(async move { net.put_record(record, &put_cfg).await }));
    }
    t.emit(json!({"ev":"Reset","run":1,"src":"tlc","cases":cases.len(),"seed":seed}));
    // serve the commands until every call has returned
    let started = Instant::now();
    let mut last_progress = Instant::now();
    loop {
        let mut progressed = false;
        for w in worlds.iter_mut() {
            while let Some(_local) = w.drv.verif_try_recv_local_cmd() {
                progressed = true;
            }
            while let Some(cmd) = w.drv.verif_try_recv_network_cmd() {
                progressed = true;
                match cmd {
                    NetworkSwarmCmd::PutRecord { ref record, .. } | NetworkSwarmCmd::PutRecordTo { ref record, .. } => {
                        if let Some(ci) = by_key.get(&record.key).cloned() {
                            on_put(w, &mut cases[ci], cmd);
                        }
                    }
                    NetworkSwarmCmd::GetNetworkRecord { key, sender, cfg } => {
                        if let Some(ci) = by_key.get(&key).cloned() {
                            on_get(w, &mut cases[ci], &u, key, sender, cfg);
                        }
                    }
                    NetworkSwarmCmd::GetClosestPeersToAddressFromNetwork { key, sender } => {
                        if let Some(ci) = by_key.get(&key.to_record_key()).cloned() {
                            let c = &mut cases[ci];
                            if let Some(a) = c.att.last_mut() {
                                a.closeq += 1;
                            }
                            let _ = sender.send(c.close.clone());
                        }
                    }
                    NetworkSwarmCmd::SendRequest { req, peer, sender } => {
                        if let (Request::Query(Query::GetChunkExistenceProof { key, nonce, .. }), Some(sender)) = (req, sender) {
                            if let Some(ci) = by_key.get(&key.to_record_key()).cloned() {
                                on_proof_request(&mut cases[ci], &u, peer, nonce, key, sender);
                            }
                        }
                    }
                    _ => {}
                }
            }
        }
        let mut all = true;
        for c in cases.iter_mut() {
            if c.result.is_some() {
                continue;
            }
            if c.handle.as_ref().map(|h| h.is_finished()).unwrap_or(false) {
                c.total_ms = c.t0.elapsed().as_millis();
                c.result = Some(match c.handle.take().expect("handle").await {
                    Ok(r) => classify(&r),
                    Err(_) => json!({"kind":"Panic","e":"Panic"}),
                });
                progressed = true;
            } else {
                all = false;
            }
        }
        if all {
            break;
        }
        if progressed {
            last_progress = Instant::now();
        } else if last_progress.elapsed().as_secs() > 90 {
            // longer than any sleep of the code under test (back-off is capped at 32 s + jitter): these calls hang
            for c in cases.iter_mut().filter(|c| c.result.is_none()) {
                if let Some(h) = c.handle.take() {
                    h.abort();
                }
                c.total_ms = c.t0.elapsed().as_millis();
                c.result = Some(json!({"kind":"Panic","e":"Hung"}));
            }
            break;
        }
        if progressed {
            tokio::task::yield_now().await;
        } else {
            // nothing to serve: the code under test is in one of its own sleeps
            tokio::time::sleep(std::time::Duration::from_millis(2)).await;
        }
    }
    for c in cases.iter() {
        emit(&mut t, c);
    }
    let n = t.finish();
    println!("{}", json!({"events": n, "cases": cases.len(), "seed": seed, "wall_ms": started.elapsed().as_millis() as u64}));
}

fn main() {
    let rt = tokio::runtime::Builder::new_current_thread().enable_all().build().expect("runtime");
    rt.block_on(run());
}
