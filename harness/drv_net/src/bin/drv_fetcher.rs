//! C08 driver: replays TLC-generated behaviours of MCReplFetcher, and seeded random behaviours,
//! on the REAL `ReplicationFetcher` (through the cfg-guarded `VerifFetcher` wrapper) and logs
//! every call with its result and the projected queue / in-flight sets.
//!
//! Ids: keys are numbered by their distance rank to the node, computed here with an independent
//! XOR metric (SHA-256 of the address bytes); a range / farthest limit r stands for "the distance of
//! key r". The code's parallel-fetch limit is 20 (K_VALUE); the model uses 2: the driver occupies
//! 18 slots with filler fetches of keys closer than every model key and hides them (Abs = minus filler).
use ant_evm::U256;
use ant_networking::verif_hooks::VerifFetcher;
use ant_networking::NetworkEvent;
use ant_protocol::{storage::RecordType, NetworkAddress};
use libp2p::{identity::Keypair, kad::RecordKey, PeerId};
use rand::{rngs::StdRng, seq::SliceRandom, Rng, SeedableRng};
use serde_json::{json, Value};
use sha2::{Digest, Sha256};
use std::collections::{BTreeSet, HashMap};
use tokio::sync::mpsc;
use vtrace::{arg, read_ndjson, Trace};
use xor_name::XorName;

const NK: usize = 8;
const NT: usize = 4;
const NH: usize = 4;
const MODEL_PAR: usize = 2;
const REAL_PAR: usize = 20;
const FILLER: usize = REAL_PAR - 1;

fn sha(b: &[u8]) -> [u8; 32] {
    Sha256::digest(b).into()
}
fn xor(a: &[u8; 32], b: &[u8; 32]) -> [u8; 32] {
    let mut o = [0u8; 32];
    for i in 0..32 {
        o[i] = a[i] ^ b[i];
    }
    o
}
fn peer(rng: &mut StdRng) -> PeerId {
    let mut seed = [0u8; 32];
    rng.fill(&mut seed);
    PeerId::from(Keypair::ed25519_from_bytes(seed).expect("ed25519 seed").public())
}

struct World {
    me: PeerId,
    f: VerifFetcher,
    ev_rx: mpsc::Receiver<NetworkEvent>,
    keys: Vec<RecordKey>, // index 0..NK-1 = rank 1..NK
    dists: Vec<[u8; 32]>,
    filler: Vec<RecordKey>,
    holders: Vec<PeerId>,
    filler_holder: PeerId,
    types: Vec<RecordType>,
    padded: bool,
}

/// number of parallel-fetch slots left to the model keys (default MODEL_PAR; `--free N` for the ordering-stress runs)
fn free_slots() -> usize {
    arg("--free").and_then(|s| s.parse().ok()).unwrap_or(MODEL_PAR)
}

impl World {
    fn new(rng: &mut StdRng, padded: bool) -> Self {
        let me = peer(rng);
        let my = sha(&me.to_bytes());
        let mut all: Vec<(RecordKey, [u8; 32])> = (0..NK + FILLER)
            .map(|_| {
                let mut b = [0u8; 32];
                rng.fill(&mut b);
                let key = RecordKey::new(&b);
                let d = xor(&my, &sha(key.as_ref()));
                (key, d)
            })
            .collect();
        all.sort_by(|a, b| a.1.cmp(&b.1));
        let filler = all[..FILLER].iter().map(|x| x.0.clone()).collect();
        let keys = all[FILLER..].iter().map(|x| x.0.clone()).collect();
        let dists = all[FILLER..].iter().map(|x| x.1).collect();
        let holders = (0..NH).map(|_| peer(rng)).collect();
        let filler_holder = peer(rng);
        let types = vec![
            RecordType::NonChunk(XorName::from_content(b"v1")),
            RecordType::NonChunk(XorName::from_content(b"v2")),
            RecordType::Chunk,
            RecordType::Scratchpad,
        ];
        assert_eq!(types.len(), NT);
        let (tx, ev_rx) = mpsc::channel(1000);
        let f = VerifFetcher::new(me, tx);
        LAGGED.with(|l| l.borrow_mut().clear());
        let mut w = World { me, f, ev_rx, keys, dists, filler, holders, filler_holder, types, padded };
        if padded {
            let empty = HashMap::new();
            for fk in w.filler.clone().into_iter().take(REAL_PAR - free_slots()) {
                let got = w.f.add_keys(w.filler_holder, vec![(NetworkAddress::from_record_key(&fk), RecordType::Chunk)], &empty);
                assert_eq!(got.len(), 1, "filler fetch must start");
            }
        }
        w
    }
    fn addr(&self, k: usize) -> NetworkAddress {
        NetworkAddress::from_record_key(&self.keys[k - 1])
    }
    fn key_id(&self, k: &RecordKey) -> Option<usize> {
        self.keys.iter().position(|x| x == k).map(|i| i + 1)
    }
    fn type_id(&self, t: &RecordType) -> usize {
        self.types.iter().position(|x| x == t).map(|i| i + 1).unwrap_or(0)
    }
    fn holder_id(&self, h: &PeerId) -> usize {
        self.holders.iter().position(|x| x == h).map(|i| i + 1).unwrap_or(0)
    }
    fn entries(&self, v: Vec<(RecordKey, RecordType, PeerId)>) -> (Vec<Value>, usize) {
        let mut out = BTreeSet::new();
        let mut filler = 0;
        for (k, t, h) in v {
            match self.key_id(&k) {
                Some(id) => {
                    out.insert((id, self.type_id(&t), self.holder_id(&h)));
                }
                None => filler += 1,
            }
        }
        (out.into_iter().map(|(k, t, h)| json!({"k": k, "t": t, "h": h})).collect(), filler)
    }
    fn held_map(&self, held: &[usize]) -> HashMap<RecordKey, (NetworkAddress, RecordType)> {
        let mut m = HashMap::new();
        for (i, &t) in held.iter().enumerate() {
            if t != 0 && i < NK {
                m.insert(self.keys[i].clone(), (self.addr(i + 1), self.types[t - 1].clone()));
            }
        }
        m
    }
    /// rank of the observed range / farthest limit (0 = unset, 99 = not the distance of a model key)
    fn range_id(&self) -> usize {
        match self.f.distance_range() {
            None => 0,
            Some(r) => self.dists.iter().position(|d| U256::from_be_bytes(*d) == r).map(|i| i + 1).unwrap_or(99),
        }
    }
    fn far_id(&self) -> usize {
        match self.f.farthest_acceptable_distance() {
            None => 0,
            Some(d) => {
                let me = NetworkAddress::from_peer(self.me);
                (1..=NK).find(|&k| me.distance(&self.addr(k)) == d).unwrap_or(99)
            }
        }
    }
    async fn drain_failed(&mut self) -> Vec<usize> {
        // the event is sent from a spawned task: let it run
        for _ in 0..4 {
            tokio::task::yield_now().await;
        }
        let mut out = BTreeSet::new();
        while let Ok(ev) = self.ev_rx.try_recv() {
            if let NetworkEvent::FailedToFetchHolders(hs) = ev {
                for h in hs {
                    out.insert(self.holder_id(&h));
                }
            }
        }
        out.into_iter().collect()
    }
}

fn uz(v: &Value) -> usize {
    v.as_u64().unwrap_or(0) as usize
}

/// Execute one step (model-level ids) on the real fetcher and log it.
async fn step(w: &mut World, t: &mut Trace, s: &Value, src: &str, exp: Option<&Value>) {
    let ev = s["ev"].as_str().expect("ev").to_string();
    let mut ret: Vec<(PeerId, RecordKey)> = vec![];
    let held: Vec<usize> = s["held"].as_array().map(|a| a.iter().map(uz).collect()).unwrap_or_default();
    match ev.as_str() {
        "AddKeys" => {
            let h = w.holders[uz(&s["h"]) - 1];
            let list: Vec<(NetworkAddress, RecordType)> = s["list"]
                .as_array()
                .expect("list")
                .iter()
                .map(|p| (w.addr(uz(&p[0])), w.types[uz(&p[1]) - 1].clone()))
                .collect();
            let hm = w.held_map(&held);
            ret = w.f.add_keys(h, list, &hm);
        }
        "NextKeys" => ret = w.f.next_keys_to_fetch(),
        "NotifyPut" => ret = w.f.notify_about_new_put(w.keys[uz(&s["k"]) - 1].clone(), w.types[uz(&s["t"]) - 1].clone()),
        "NotifyEarly" => ret = w.f.notify_fetch_early_completed(w.keys[uz(&s["k"]) - 1].clone(), w.types[uz(&s["t"]) - 1].clone()),
        "SetRange" => w.f.set_replication_distance_range(U256::from_be_bytes(w.dists[uz(&s["rg"]) - 1])),
        "SetFarthest" => w.f.set_farthest_on_full(Some(w.keys[uz(&s["k"]) - 1].clone())),
        "ExpireFetch" => {
            let e = &s["e"];
            // age the fetch only if exactly this (holder, key, type) is in flight: the hook addresses fetches by
            // (key, type), and after another admissible tie order the real fetcher may run that fetch from another
            // holder, or not at all
            let (key, ty, holder) = (w.keys[uz(&e["k"]) - 1].clone(), w.types[uz(&e["t"]) - 1].clone(), w.holders[uz(&e["h"]) - 1]);
            if w.f.on_going_fetches().iter().any(|(k, t, h)| *k == key && *t == ty && *h == holder) {
                let _ = w.f.expire_on_going(&key, &ty);
            }
        }
        "ExpirePending" => {
            let e = &s["e"];
            let _ = w.f.expire_pending(&w.keys[uz(&e["k"]) - 1], &w.types[uz(&e["t"]) - 1], &w.holders[uz(&e["h"]) - 1]);
        }
        other => panic!("unknown step {other}"),
    }
    // let the clock move past aged deadlines (they were set 1 ms in the past)
    let failed = w.drain_failed().await;
    let (tf, tf_fill) = w.entries(w.f.to_be_fetched());
    let (og, og_fill) = w.entries(w.f.on_going_fetches());
    let ret_ids: Vec<Value> = ret
        .iter()
        .filter_map(|(h, k)| w.key_id(k).map(|kid| json!([w.holder_id(h), kid])))
        .collect();
    let ret_filler = ret.iter().filter(|(_, k)| w.key_id(k).is_none()).count();
    let mut line = json!({
        "ev": ev, "h": uz(&s["h"]), "list": s.get("list").cloned().unwrap_or(json!([])),
        "held": if held.is_empty() { json!(vec![0; NK]) } else { let mut h = held.clone(); h.resize(NK, 0); json!(h) },
        "k": uz(&s["k"]), "t": uz(&s["t"]), "rg": uz(&s["rg"]),
        "e": if s["e"].is_object() { s["e"].clone() } else { json!(0) },
        "ret": ret_ids, "failed": failed, "tf": tf, "og": og,
        "range": w.range_id(), "far": w.far_id(),
        "filler_og": og_fill, "filler_tf": tf_fill, "filler_ret": ret_filler, "src": src,
    });
    if let Some(x) = exp.filter(|x| !x["tf"].is_null()) {
        line["exp"] = json!({"tf": x["tf"], "og": x["og"], "failed": x["failed"], "issued": x["issued"], "range": x["range"], "far": x["far"]});
    }
    t.emit(line);
}

/// Random behaviour generated by the driver itself (bigger universe than the model-checked one).
thread_local! { static LAGGED: std::cell::RefCell<Vec<(usize, usize)>> = std::cell::RefCell::new(vec![]); }
fn random_step(w: &World, rng: &mut StdRng, held: &mut Vec<usize>) -> Value {
    // the index catches up with an earlier put (no fetcher call)
    if rng.gen_bool(0.4) {
        if let Some((k, t)) = LAGGED.with(|l| { let mut l = l.borrow_mut(); if l.is_empty() { None } else { Some(l.remove(0)) } }) {
            held[k - 1] = t;
        }
    }
    let og = w.entries(w.f.on_going_fetches()).0;
    let tf = w.entries(w.f.to_be_fetched()).0;
    loop {
        match rng.gen_range(0..100) {
            0..=39 => {
                let h = rng.gen_range(1..=NH);
                let n = *[1usize, 1, 2, 3, 4, 6].choose(rng).expect("n");
                let mut set = BTreeSet::new();
                while set.len() < n {
                    set.insert((rng.gen_range(1..=NK), rng.gen_range(1..=NT)));
                }
                let list: Vec<Value> = set.into_iter().map(|(k, t)| json!([k, t])).collect();
                return json!({"ev":"AddKeys","h":h,"list":list,"held":held.clone()});
            }
            40..=49 => return json!({"ev":"NextKeys"}),
            50..=64 => {
                // a fetch completes (mostly one that is in flight), or an upload arrives
                let (k, t) = if !og.is_empty() && rng.gen_bool(0.8) {
                    let e = og.choose(rng).expect("og");
                    (uz(&e["k"]), uz(&e["t"]))
                } else {
                    (rng.gen_range(1..=NK), rng.gen_range(1..=NT))
                };
                if held[k - 1] == t { continue; }
                // the store's index may list the record only later (PutLocalRecord .. AddLocalRecordAsStored):
                // advertisements in between are shown the old held map
                if rng.gen_bool(0.3) {
                    LAGGED.with(|l| l.borrow_mut().push((k, t)));
                } else {
                    held[k - 1] = t;
                }
                return json!({"ev":"NotifyPut","k":k,"t":t,"held":held.clone()});
            }
            65..=72 => {
                if og.is_empty() { continue; }
                let e = og.choose(rng).expect("og");
                return json!({"ev":"NotifyEarly","k":e["k"],"t":e["t"]});
            }
            73..=79 => return json!({"ev":"SetRange","rg":rng.gen_range(1..=NK)}),
            80..=84 => return json!({"ev":"SetFarthest","k":rng.gen_range(2..=NK)}),
            85..=94 => {
                if og.is_empty() { continue; }
                return json!({"ev":"ExpireFetch","e":og.choose(rng).expect("og").clone()});
            }
            _ => {
                if tf.is_empty() { continue; }
                return json!({"ev":"ExpirePending","e":tf.choose(rng).expect("tf").clone()});
            }
        }
    }
}

/// Bounded-progress rounds (liveness on the code): a responsive holder re-advertises all keys, every
/// started fetch completes; after R rounds every in-range, within-limit key must have been fetched.
async fn rounds(w: &mut World, t: &mut Trace, rng: &mut StdRng, run: u64) {
    let mut held = vec![0usize; NK];
    if rng.gen_bool(0.5) { step(w, t, &json!({"ev":"SetRange","rg":rng.gen_range(1..=NK)}), "rounds", None).await; }
    if rng.gen_bool(0.3) { step(w, t, &json!({"ev":"SetFarthest","k":rng.gen_range(2..=NK)}), "rounds", None).await; }
    // noise from other holders / timers first
    for _ in 0..rng.gen_range(0..6) {
        let s = random_step(w, rng, &mut held);
        step(w, t, &s, "rounds", None).await;
    }
    // from here on range and limit are fixed (the limit can only shrink through SetFarthest, which is not called)
    let (range, far) = (w.range_id(), w.far_id());
    let tsel = rng.gen_range(1..=NT);
    let max_rounds = NK / MODEL_PAR + 2;
    let mut fetched: BTreeSet<usize> = BTreeSet::new();
    for _round in 0..max_rounds {
        let list: Vec<Value> = (1..=NK).filter(|k| held[k - 1] == 0).map(|k| json!([k, tsel])).collect();
        if list.is_empty() { break; }
        step(w, t, &json!({"ev":"AddKeys","h":1,"list":list,"held":held.clone()}), "rounds", None).await;
        // complete everything in flight
        loop {
            let og = w.entries(w.f.on_going_fetches()).0;
            if og.is_empty() { break; }
            let e = &og[0];
            let (k, ty) = (uz(&e["k"]), uz(&e["t"]));
            held[k - 1] = ty;
            fetched.insert(k);
            step(w, t, &json!({"ev":"NotifyPut","k":k,"t":ty,"held":held.clone()}), "rounds", None).await;
        }
    }
    let want: Vec<usize> = (1..=NK).filter(|&k| (range == 0 || k <= range) && (far == 0 || k <= far)).collect();
    let missing: Vec<usize> = want.iter().cloned().filter(|k| held[k - 1] == 0).collect();
    t.emit(json!({"ev":"RoundsDone","run":run,"range":range,"far":far,"rounds":max_rounds,"want":want,"missing":missing,"src":"rounds"}));
}

async fn run() {
    let out = arg("--out").expect("--out");
    let seed = vtrace::seed_from_env();
    let mut t = Trace::create(&out);
    let mut run_no = 0u64;
    if let Some(p) = arg("--scenarios") {
        for scn in read_ndjson(&p) {
            run_no += 1;
            let mut rng = StdRng::seed_from_u64(seed.wrapping_mul(1_000_003).wrapping_add(run_no));
            let mut w = World::new(&mut rng, true);
            t.emit(json!({"ev":"Reset","run":run_no,"src":"tlc"}));
            for s in scn.as_array().expect("scenario array") {
                step(&mut w, &mut t, s, "tlc", Some(s)).await;
            }
        }
    }
    let n_rand: usize = arg("--random").and_then(|s| s.parse().ok()).unwrap_or(0);
    let steps: usize = arg("--steps").and_then(|s| s.parse().ok()).unwrap_or(40);
    for i in 0..n_rand {
        run_no += 1;
        let mut rng = StdRng::seed_from_u64(seed.wrapping_mul(7_919).wrapping_add(i as u64));
        let mut w = World::new(&mut rng, true);
        t.emit(json!({"ev":"Reset","run":run_no,"src":"random"}));
        let mut held = vec![0usize; NK];
        for _ in 0..steps {
            let s = random_step(&w, &mut rng, &mut held);
            step(&mut w, &mut t, &s, "random", None).await;
        }
    }
    // ordering stress: single-key advertisements of the closest keys go in flight, then another holder
    // advertises a long list containing the same records: many queued entries, the closest of them not startable
    let n_stress: usize = arg("--stress").and_then(|s| s.parse().ok()).unwrap_or(0);
    let stress_from: usize = arg("--stress-from").and_then(|s| s.parse().ok()).unwrap_or(0);
    for i in stress_from..stress_from + n_stress {
        run_no += 1;
        let mut rng = StdRng::seed_from_u64(seed.wrapping_mul(15_485_863).wrapping_add(i as u64));
        let mut w = World::new(&mut rng, true);
        t.emit(json!({"ev":"Reset","run":run_no,"src":"stress","index":i}));
        let mut held = vec![0usize; NK];
        let ty = rng.gen_range(1..=NT);
        let singles = rng.gen_range(1..free_slots().max(2));
        let mut ks: Vec<usize> = (1..=NK).collect();
        ks.shuffle(&mut rng);
        let mut firsts: Vec<usize> = ks[..singles].to_vec();
        if rng.gen_bool(0.7) { firsts = (1..=singles).collect(); }
        for k in &firsts {
            step(&mut w, &mut t, &json!({"ev":"AddKeys","h":1,"list":[[k, ty]],"held":held.clone()}), "stress", None).await;
        }
        let mut set = BTreeSet::new();
        for k in &firsts { set.insert((*k, ty)); }
        let n = rng.gen_range(5..=12);
        while set.len() < n + firsts.len() {
            set.insert((rng.gen_range(1..=NK), if rng.gen_bool(0.6) { ty } else { rng.gen_range(1..=NT) }));
        }
        let list: Vec<Value> = set.into_iter().map(|(k, t)| json!([k, t])).collect();
        step(&mut w, &mut t, &json!({"ev":"AddKeys","h":2,"list":list,"held":held.clone()}), "stress", None).await;
        // every other run: long lists from the remaining holders too (several dozen queued entries)
        if i % 2 == 1 {
            for h in 3..=NH {
                let mut set = BTreeSet::new();
                let n = rng.gen_range(16..=NK * NT);
                while set.len() < n { set.insert((rng.gen_range(1..=NK), rng.gen_range(1..=NT))); }
                let list: Vec<Value> = set.into_iter().map(|(k, t)| json!([k, t])).collect();
                step(&mut w, &mut t, &json!({"ev":"AddKeys","h":h,"list":list,"held":held.clone()}), "stress", None).await;
            }
        }
        for _ in 0..steps / 2 {
            let s = random_step(&w, &mut rng, &mut held);
            step(&mut w, &mut t, &s, "stress", None).await;
        }
    }
    let n_rounds: usize = arg("--rounds").and_then(|s| s.parse().ok()).unwrap_or(0);
    for i in 0..n_rounds {
        run_no += 1;
        let mut rng = StdRng::seed_from_u64(seed.wrapping_mul(104_729).wrapping_add(i as u64));
        let mut w = World::new(&mut rng, true);
        t.emit(json!({"ev":"Reset","run":run_no,"src":"rounds"}));
        rounds(&mut w, &mut t, &mut rng, run_no).await;
    }
    let n = t.finish();
    println!("{}", json!({"events": n, "runs": run_no, "seed": seed}));
}

fn main() {
    let rt = tokio::runtime::Builder::new_current_thread().enable_all().build().expect("runtime");
    rt.block_on(run());
}
