//! C03 / C04 / C07 driver: deliveries (client put, unpaid update, replication, raw kad put) into a
//! REAL node (`VerifNode` + real `SwarmDriver` + real store), with real signatures and a local
//! payment-contract stub. See nodeworld.rs.
#[path = "../nodeworld.rs"]
mod nodeworld;
use nodeworld::*;

use ant_protocol::storage::{RecordKind, Scratchpad, Transaction};
use ant_protocol::NetworkAddress;
use ant_registers::SignedRegister;
use libp2p::identity::Keypair;
use libp2p::kad::store::RecordStore;
use libp2p::kad::{Record, RecordKey};
use libp2p::PeerId;
use rand::{rngs::StdRng, SeedableRng};
use serde_json::{json, Value};
use std::collections::HashMap;
use std::path::PathBuf;
use vtrace::{arg, read_ndjson, Trace};
use xor_name::XorName;

struct World {
    n: NodeH,
    stub: EvmStub,
    near: Vec<Keypair>,
    far: Keypair,
    /// in the routing table, but not among the K closest peers
    far_known: Keypair,
    far_mode_known: bool,
    forger: Keypair,
    /// known peers at the edge of the K closest: the 19th closest (last one inside), the 20th and 21st (first ones outside)
    edge: (Keypair, Keypair, Keypair),
    key_ids: HashMap<String, usize>,
    op_ids: HashMap<String, usize>,
    pad_contents: HashMap<String, u64>,
    run: u64,
}

fn sha256_bytes(b: &[u8]) -> [u8; 32] {
    use sha2::Digest;
    sha2::Sha256::digest(b).into()
}
fn xor32(a: &[u8; 32], b: &[u8; 32]) -> [u8; 32] {
    let mut o = [0u8; 32];
    for i in 0..32 { o[i] = a[i] ^ b[i]; }
    o
}
fn uz(v: &Value) -> u64 {
    v.as_u64().unwrap_or(0)
}
fn st<'a>(v: &'a Value, d: &'a str) -> &'a str {
    v.as_str().unwrap_or(d)
}

impl World {
    fn new(seed: u64, root: PathBuf) -> Self {
        let mut rng = StdRng::seed_from_u64(seed);
        let stub = EvmStub::start();
        let mut n = NodeH::new(&mut rng, root, stub.network());
        // 30 peers in the routing table, ordered by distance to the node: the three closest are the payees the node
        // "knows as close"; the farthest one is KNOWN to the node but not among its K closest (self + 19)
        let me_d = sha256_bytes(&n.peer.to_bytes());
        let mut cands: Vec<(Keypair, [u8; 32])> = (0..30).map(|_| { let k = keypair(&mut rng); let d = xor32(&me_d, &sha256_bytes(&PeerId::from(k.public()).to_bytes())); (k, d) }).collect();
        cands.sort_by(|a, b| a.1.cmp(&b.1));
        for (i, (k, _)) in cands.iter().enumerate() {
            n.add_peer(&PeerId::from(k.public()), 40000 + i as u16);
        }
        assert!(keccak_selftest(), "the driver's own Keccak-256 fails its self-test");
        let near: Vec<Keypair> = cands[..5].iter().map(|x| x.0.clone()).collect();
        let far_known = cands[29].0.clone();
        let closest = n.driver.verif_closest_k_value_local_peers();
        assert!(near.iter().all(|k| closest.contains(&PeerId::from(k.public()))), "near payees must be among the K closest");
        assert!(!closest.contains(&PeerId::from(far_known.public())), "the known-far payee must not be among the K closest");
        // K_VALUE = 20 INCLUDING the node itself (driver.rs get_closest_k_value_local_peers: once(self).chain(closest).take(K)):
        // the 19th closest known peer is the last payee that still counts as close, the 20th is the first that does not.
        // The boundary is taken from the driver's OWN distance order (sha256 of the peer id bytes, XOR), so that a node
        // whose K is off by one shows up as a wrong admission decision; the routing table is only cross-checked away
        // from the boundary (every candidate made it into the table, in the same order)
        let pid = |i: usize| PeerId::from(cands[i].0.public());
        assert!(closest[0] == n.peer && (0..17).all(|i| closest.get(i + 1) == Some(&pid(i))) && (22..30).all(|i| !closest.contains(&pid(i))),
                "the driver's own distance order agrees with the routing table");
        let (in19, out20, out21) = (cands[18].0.clone(), cands[19].0.clone(), cands[20].0.clone());
        let far = keypair(&mut rng);
        let forger = keypair(&mut rng);
        World { n, stub, near, far, far_known, far_mode_known: false, forger, edge: (in19, out20, out21), key_ids: HashMap::new(), op_ids: HashMap::new(), pad_contents: HashMap::new(), run: 0 }
    }
    fn kid(&mut self, key: &RecordKey) -> usize {
        let h = hex::encode(key.as_ref());
        let n = self.key_ids.len() + 1;
        *self.key_ids.entry(h).or_insert(n)
    }
    fn kid_hex(&mut self, h: &str) -> usize {
        let n = self.key_ids.len() + 1;
        *self.key_ids.entry(h.to_string()).or_insert(n)
    }

    /// Abstract description of what the store holds under `key` (ids instead of bytes).
    fn held(&mut self, key: &RecordKey, slot: u64) -> Value {
        let rec = self.n.stored(key);
        let listed = self.n.listed(key);
        let mut d = describe(&rec);
        let owner_hex = hex::encode(bls_key(self.run * 1000 + slot).public_key().to_bytes());
        if let Some(h) = d.get("derived").and_then(|x| x.as_str()).map(|s| s.to_string()) {
            d["derivedKey"] = json!(self.kid_hex(&h));
        }
        if d["kind"] == "pad" {
            d["ownerSame"] = json!(d["owner"] == json!(owner_hex));
            let c = d["content"].as_str().unwrap_or("").to_string();
            d["content"] = json!(self.pad_contents.get(&c).cloned().unwrap_or(999));
            d.as_object_mut().map(|o| o.remove("owner"));
        }
        if d["kind"] == "txs" {
            let mut out = vec![];
            for t in d["txs"].as_array().cloned().unwrap_or_default() {
                let dk = t["derived"].as_str().unwrap_or("").to_string();
                out.push(json!({"id": t["id"], "valid": t["valid"], "ownerSame": t["owner"] == json!(owner_hex), "derivedKey": self.kid_hex(&dk)}));
            }
            d["txs"] = json!(out);
        }
        if d["kind"] == "reg" {
            let ops: Vec<usize> = d["ops"].as_array().cloned().unwrap_or_default().iter().map(|o| *self.op_ids.get(o.as_str().unwrap_or("")).unwrap_or(&999)).collect();
            let mut ops = ops;
            ops.sort();
            d["ops"] = json!(ops);
        }
        d.as_object_mut().map(|o| o.remove("derived"));
        d["listed"] = json!(listed);
        d
    }
}

/// content in the shape of NodePut.tla
fn abs(d: &Value) -> Value {
    match d["kind"].as_str().unwrap_or("none") {
        "chunk" => json!({"kind": "chunk"}),
        "pad" => json!({"kind": "pad", "c": d["count"], "content": d["content"]}),
        "txs" => json!({"kind": "txs", "ids": d["txs"].as_array().map(|a| a.iter().map(|t| t["id"].clone()).collect::<Vec<_>>()).unwrap_or_default()}),
        "reg" => json!({"kind": "reg", "ops": d["ops"]}),
        "none" => json!({"kind": "none"}),
        other => json!({"kind": other}),
    }
}
/// every stored entry verifies and belongs to the address owner
fn content_ok(d: &Value) -> bool {
    match d["kind"].as_str().unwrap_or("none") {
        "pad" => d["valid"] == json!(true) && d["ownerSame"] == json!(true),
        // ... and no entry is stored twice (C07 "independent of ... duplication"): transaction ids / operation ids pairwise distinct
        "txs" => d["txs"].as_array().map(|a| a.iter().all(|t| t["valid"] == json!(true) && t["ownerSame"] == json!(true)) && distinct(a.iter().map(|t| t["id"].to_string()))).unwrap_or(true),
        "reg" => d["verify"] == json!(true) && d["ops"].as_array().map(|a| a.iter().all(|o| o.as_u64().unwrap_or(999) < 100) && distinct(a.iter().map(|o| o.to_string()))).unwrap_or(true),
        "unparsable" => false,
        _ => true,
    }
}
fn distinct<I: Iterator<Item = String>>(it: I) -> bool {
    let v: Vec<String> = it.collect();
    let s: std::collections::BTreeSet<&String> = v.iter().collect();
    s.len() == v.len()
}
/// what is stored under key id `k` derives to `k`
fn derived_ok(d: &Value, k: usize) -> bool {
    match d["kind"].as_str().unwrap_or("none") {
        "none" => true,
        "txs" => d["txs"].as_array().map(|a| a.iter().all(|t| t["derivedKey"] == json!(k))).unwrap_or(true),
        "unparsable" => false,
        _ => d["derivedKey"] == json!(k),
    }
}

struct Built {
    record: Record,
    derived: RecordKey, // the key the content determines (computed here, independently of the node)
    size: usize,
    /// what the contract must be asked (one triple per quote of the proof, in order), computed by the driver
    exp: Vec<(String, String, String)>,
    /// index of this node's quote in the proof
    self_at: Option<usize>,
    payx: Option<PayX>,
}

/// Build the real record for a delivery spec.
fn build(w: &mut World, d: &Value) -> Built {
    let kind = st(&d["kind"], "Chunk");
    let slot = w.run * 1000 + uz(&d["slot"]);
    let owner = bls_key(slot);
    let stranger = bls_key(slot + 500);
    // "victim": content of another owner / other bytes, presented under the key of the slot owner's record
    let victim = st(&d["key"], "derived") == "victim";
    let mut dv = d.clone();
    if victim {
        dv["owner"] = json!("other");
        dv["variant"] = json!(1);
        if let Some(a) = dv["txs"].as_array_mut() { for t in a.iter_mut() { t["owner"] = json!("other"); } }
    }
    let d = &dv;
    let pay = if d["pay"].is_object() { Some(PayX::from_json(&d["pay"])) } else { None };
    let all_ok = PayX::from_json(&json!({}));
    let proof_info: std::cell::RefCell<(Vec<(String, String, String)>, Option<usize>)> = std::cell::RefCell::new((vec![], None));
    let me = w.n.kp.clone();
    // a payee that is not close: unknown to the node (even slots) or known but beyond its K closest peers (odd slots)
    let known_far = w.far_mode_known;
    let mk_proof = |w: &World, content: XorName, p: PayX| {
        let payees = Payees { me: &me, near: &w.near, far: if known_far { &w.far_known } else { &w.far }, forger: &w.forger, edge: (&w.edge.0, &w.edge.1, &w.edge.2) };
        let (proof, self_at) = proof_x(&payees, content, &p);
        *proof_info.borrow_mut() = (proof.peer_quotes.iter().map(|(_, q)| expected_triple(q)).collect(), self_at);
        proof
    };
    let (value, derived): (Vec<u8>, RecordKey) = match kind {
        "Chunk" | "ChunkWithPayment" => {
            // "collide": the chunk whose bytes are the slot owner's public key shares its address with the owner's
            // scratchpad and transactions
            let c = if d["collide"] == json!(true) { ant_protocol::storage::Chunk::new(bytes::Bytes::from(owner.public_key().to_bytes().to_vec())) }
                    else { chunk_of(slot * 10 + uz(&d["variant"])) };
            let derived = NetworkAddress::from_chunk_address(*c.address()).to_record_key();
            let v = if kind == "Chunk" { ser(&c, RecordKind::Chunk) } else {
                let p = pay.clone().unwrap_or(all_ok.clone());
                ser(&(mk_proof(w, *c.name(), p), c.clone()), RecordKind::ChunkWithPayment)
            };
            (v, derived)
        }
        "Scratchpad" | "ScratchpadWithPayment" => {
            let pad_owner = if st(&d["owner"], "same") == "same" { &owner } else { &stranger };
            let sig = st(&d["sig"], "ok");
            let signer = if sig == "bad" { &stranger } else { pad_owner };
            let pad = scratchpad(pad_owner, signer, uz(&d["c"]).max(1), uz(&d["content"]), sig == "bumped");
            // "none": the signature removed; "swapped": other data under the (valid) signature made for the original data
            let pad = match sig {
                "none" => pad_edit(&pad, |m| m.signature = None),
                "swapped" => { let other = scratchpad(pad_owner, pad_owner, uz(&d["c"]).max(1), uz(&d["content"]) + 7000, false);
                               pad_edit(&pad, |m| m.encrypted_data = other.encrypted_data().clone()) }
                _ => pad,
            };
            w.pad_contents.insert(hex::encode(pad.encrypted_data_hash().0), uz(&d["content"]));
            // the slot's address is that of the slot owner: a pad of another owner is a foreign record
            let derived = NetworkAddress::ScratchpadAddress(*pad.address()).to_record_key();
            let v = if kind == "Scratchpad" { ser(&pad, RecordKind::Scratchpad) } else {
                let p = pay.clone().unwrap_or(all_ok.clone());
                ser(&(mk_proof(w, pad.address().xorname(), p), pad.clone()), RecordKind::ScratchpadWithPayment)
            };
            (v, derived)
        }
        "Transaction" | "TransactionWithPayment" => {
            // the address owner's own transactions first, transactions of other owners after them
            let mut listed = d["txs"].as_array().cloned().unwrap_or_default();
            listed.sort_by_key(|t| st(&t["owner"], "same") != "same");
            let txs: Vec<Transaction> = listed.iter().map(|t| {
                let o = if st(&t["owner"], "same") == "same" { &owner } else { &stranger };
                let s = if st(&t["sig"], "ok") == "ok" { o } else { &stranger };
                let s = if st(&t["sig"], "ok") == "ok" { s } else { if std::ptr::eq(o, &stranger) { &owner } else { &stranger } };
                let tx = transaction(o, s, uz(&t["id"]));
                // "rich": validly signed, with parents and outputs; "tamper*": a field changed after the owner signed
                let pk = |i: u64| bls_key(900_000 + i).public_key();
                match st(&t["variant"], "plain") {
                    "rich" => Transaction::new(o.public_key(), vec![pk(1), pk(2)], tx.content, vec![(pk(3), [7u8; 32]), (pk(4), [8u8; 32])], s),
                    "tamperOutputs" => { let mut x = Transaction::new(o.public_key(), vec![pk(1)], tx.content, vec![(pk(3), [7u8; 32])], s); x.outputs[0].1 = [9u8; 32]; x }
                    "tamperOutputsAdd" => { let mut x = tx; x.outputs.push((pk(3), [7u8; 32])); x }
                    "tamperParents" => { let mut x = Transaction::new(o.public_key(), vec![pk(1), pk(2)], tx.content, vec![], s); x.parents.swap(0, 1); x }
                    "tamperParentsAdd" => { let mut x = tx; x.parents.push(pk(1)); x }
                    "tamperContent" => { let mut x = tx; x.content[31] ^= 1; x }
                    _ => tx,
                }
            }).collect();
            let addr_tx = transaction(&owner, &owner, 0);
            let derived = NetworkAddress::from_transaction_address(addr_tx.address()).to_record_key();
            let v = if kind == "Transaction" { ser(&txs, RecordKind::Transaction) } else {
                let p = pay.clone().unwrap_or(all_ok.clone());
                let first = txs.first().cloned().unwrap_or(addr_tx.clone());
                let dk = NetworkAddress::from_transaction_address(first.address());
                ser(&(mk_proof(w, dk.as_xorname().unwrap_or_default(), p), first), RecordKind::TransactionWithPayment)
            };
            (v, derived)
        }
        "Register" | "RegisterWithPayment" => {
            // base "alt": the same address, but a base register whose owner-signed permissions differ from the held one
            let base = if victim { register_base(&stranger, slot) } else if st(&d["base"], "std") == "alt" { register_base_alt(&owner, slot) } else { register_base(&owner, slot) };
            let mut ops = vec![];
            for o in d["ops"].as_array().cloned().unwrap_or_default() {
                let sig = st(&o["sig"], "ok");
                let signer = if sig == "ok" { &owner } else { &stranger };
                let op = register_op(&base, signer, uz(&o["id"]));
                let h = hex::encode(rmp_serde::to_vec(&op).unwrap_or_default());
                let code = uz(&o["id"]) as usize + if sig == "ok" { 0 } else { 100 };
                w.op_ids.insert(h, code);
                ops.push(op);
            }
            let reg: SignedRegister = register_with(&base, ops);
            let derived = NetworkAddress::from_register_address(*reg.address()).to_record_key();
            let v = if kind == "Register" { ser(&reg, RecordKind::Register) } else {
                let p = pay.clone().unwrap_or(all_ok.clone());
                ser(&(mk_proof(w, reg.address().xorname(), p), reg.clone()), RecordKind::RegisterWithPayment)
            };
            (v, derived)
        }
        other => panic!("unknown kind {other}"),
    };
    let mut value = value;
    match st(&d["parse"], "ok") {
        "trunc" => value.truncate(2),
        "header1" => value.truncate(1),
        "unknownkind" => { if value.len() > 1 { value[1] = 0x20; } }
        "oversize" => value.extend(std::iter::repeat(0u8).take(5 * 1024 * 1024)),
        // the store's own limit, both sides (record_store.rs put: `len >= max_value_bytes` is refused; max_value_bytes = MAX_PACKET_SIZE)
        "maxm1" => value.resize(ant_networking::MAX_PACKET_SIZE - 1, 0),
        "max" => value.resize(ant_networking::MAX_PACKET_SIZE, 0),
        "garbage" => { let n = value.len(); for b in value.iter_mut().skip(3) { *b = b.wrapping_mul(31).wrapping_add(7); } let _ = n; }
        _ => {}
    }
    let key = if st(&d["key"], "derived") == "derived" { derived.clone() } else if victim {
        // the key of the record the slot owner holds for this family
        match kind {
            "Chunk" | "ChunkWithPayment" => NetworkAddress::from_chunk_address(*chunk_of(slot * 10).address()).to_record_key(),
            "Scratchpad" | "ScratchpadWithPayment" => NetworkAddress::ScratchpadAddress(ant_protocol::storage::ScratchpadAddress::new(owner.public_key())).to_record_key(),
            "Transaction" | "TransactionWithPayment" => NetworkAddress::from_transaction_address(transaction(&owner, &owner, 0).address()).to_record_key(),
            _ => NetworkAddress::from_register_address(*register_base(&owner, slot).address()).to_record_key(),
        }
    } else { other_key(slot * 10 + uz(&d["variant"])) };
    let size = value.len();
    let (exp, self_at) = proof_info.into_inner();
    Built { record: record(key, value), derived, size, exp, self_at, payx: pay }
}

/// edit a scratchpad's private fields through its serialised form
#[derive(serde::Serialize, serde::Deserialize)]
struct PadMirror {
    address: ant_protocol::storage::ScratchpadAddress,
    data_encoding: u64,
    encrypted_data: bytes::Bytes,
    counter: u64,
    signature: Option<bls::Signature>,
}
fn pad_edit<F: FnOnce(&mut PadMirror)>(pad: &Scratchpad, f: F) -> Scratchpad {
    let mut m: PadMirror = rmp_serde::from_slice(&rmp_serde::to_vec_named(pad).expect("pad ser")).expect("pad mirror");
    f(&mut m);
    rmp_serde::from_slice(&rmp_serde::to_vec_named(&m).expect("mirror ser")).expect("pad from mirror")
}

/// Tell the contract stub how to answer for this delivery (C03 "the payment is confirmed by the payment contract").
fn prescribe(stub: &EvmStub, p: &PayX, n: usize, self_at: Option<usize>) {
    let amount = |i: usize| 10 + i as u64;
    let all = |v: bool| (0..n).map(|i| (v, if v { amount(i) } else { 0 })).collect::<Vec<_>>();
    let mut verdicts = all(true);
    let mut fail = None;
    match p.mode.as_str() {
        "ok" => {}
        "allBad" => verdicts = all(false),
        "ownBadOnly" => { if let Some(i) = self_at { verdicts[i] = (false, 0); } }
        // the last of the first three entries that is not this node's
        "otherBadOnly" => { if let Some(i) = (0..n.min(3)).rev().find(|i| Some(*i) != self_at) { verdicts[i] = (false, 0); } }
        "ownAmountZero" => { if let Some(i) = self_at { verdicts[i] = (true, 0); } }
        f => fail = Some(f.to_string()),
    }
    stub.prescribe(Some(verdicts), None, fail);
}

/// one short digest per (quote hash, metrics words, rewards address) triple: the trace compares digests, the full
/// triples are logged only when expectation and calldata differ
fn triples_json(v: &[(String, String, String)]) -> Value {
    json!(v.iter().map(|(h, m, r)| hex::encode(&sha256(&format!("{h}|{m}|{r}"))[..10])).collect::<Vec<_>>())
}
fn triples_full(v: &[(String, String, String)]) -> Value {
    json!(v.iter().map(|(h, m, r)| json!({"h": h, "m": m, "r": r})).collect::<Vec<_>>())
}

fn err_name(e: &str) -> String {
    let cut = e.find(|c| c == '(' || c == '{' || c == ' ').unwrap_or(e.len());
    format!("Err:{}", &e[..cut])
}

async fn deliver(w: &mut World, t: &mut Trace, d: &Value, src: &str) {
    let b = build(w, d);
    let slot = uz(&d["slot"]);
    let presented = b.record.key.clone();
    let before_p = w.held(&presented, slot);
    let before_d = w.held(&b.derived, slot);
    let listed_before: Vec<usize> = { let ks = w.n.all_listed(); let mut v: Vec<usize> = ks.iter().map(|k| w.kid(k)).collect(); v.sort(); v };
    let calls0 = w.stub.calls();
    if let Some(p) = d.get("pay").filter(|p| p.is_object()) { w.stub.set_valid(p["chain"].as_bool().unwrap_or(true)); }
    let payx = b.payx.clone().unwrap_or(PayX::from_json(&json!({})));
    prescribe(&w.stub, &payx, b.exp.len(), b.self_at);
    let _ = w.stub.take_received();
    let path = st(&d["path"], "client");
    let node = w.n.node.clone();
    let mut unverified = 0;
    // every UnverifiedRecord event of this delivery carries exactly the presented record (key and bytes)
    let mut unv_same = true;
    let res: String = match path {
        "client" => match vtrace::guarded_async(run_serving(&mut w.n, node.validate_and_store_record(b.record.clone()))).await {
            Ok(Ok(())) => "Ok".into(), Ok(Err(e)) => err_name(&e), Err(_) => "Panic".into() },
        "repl" => match vtrace::guarded_async(run_serving(&mut w.n, node.store_replicated_in_record(b.record.clone()))).await {
            Ok(Ok(())) => "Ok".into(), Ok(Err(e)) => err_name(&e), Err(_) => "Panic".into() },
        "kadput" => {
            // the kad entry point: RecordStore::put on the node's store
            let before = w.n.unverified.len();
            let r = { let rec = b.record.clone(); match w.n.driver.verif_node_store_mut() { Some(s) => vtrace::guarded(|| s.put(rec)), None => Ok(Ok(())) } };
            settle(&mut w.n).await;
            unverified = w.n.unverified.len() - before;
            unv_same = w.n.unverified[before..].iter().all(|r| r.key == b.record.key && r.value == b.record.value);
            match r { Ok(Ok(())) => "Ok".into(), Ok(Err(e)) => format!("Err:{e:?}"), Err(_) => "Panic".into() }
        }
        "kadput+validate" => {
            // the whole way in from the network: RecordStore::put, then the record of each UnverifiedRecord event it emits
            // goes through validate_and_store_record (what the node's event loop does with that event)
            let before = w.n.unverified.len();
            let r = { let rec = b.record.clone(); match w.n.driver.verif_node_store_mut() { Some(s) => vtrace::guarded(|| s.put(rec)), None => Ok(Ok(())) } };
            settle(&mut w.n).await;
            unverified = w.n.unverified.len() - before;
            let evs: Vec<Record> = w.n.unverified[before..].to_vec();
            unv_same = evs.iter().all(|r| r.key == b.record.key && r.value == b.record.value);
            let mut out: String = match r { Ok(Ok(())) => "NotForwarded".into(), Ok(Err(e)) => format!("Err:{e:?}"), Err(_) => "Panic".into() };
            for ev in evs {
                out = match vtrace::guarded_async(run_serving(&mut w.n, node.validate_and_store_record(ev))).await {
                    Ok(Ok(())) => "Ok".into(), Ok(Err(e)) => err_name(&e), Err(_) => "Panic".into() };
            }
            out
        }
        other => panic!("unknown path {other}"),
    };
    settle(&mut w.n).await;
    let after_p = w.held(&presented, slot);
    let after_d = w.held(&b.derived, slot);
    let listed_after: Vec<usize> = { let ks = w.n.all_listed(); let mut v: Vec<usize> = ks.iter().map(|k| w.kid(k)).collect(); v.sort(); v };
    let (pk, dk) = (w.kid(&presented), w.kid(&b.derived));
    let gained: Vec<usize> = listed_after.iter().cloned().filter(|k| !listed_before.contains(k)).collect();
    let lost: Vec<usize> = listed_before.iter().cloned().filter(|k| !listed_after.contains(k)).collect();
    let (got_calls, undecodable) = w.stub.take_received();
    w.stub.prescribe(None, None, None);
    let via_kad = path == "kadput+validate";
    let spec = json!({"path": if via_kad { json!("client") } else { d["path"].clone() }, "kind": d["kind"], "keyOk": st(&d["key"], "derived") == "derived", "parse": st(&d["parse"], "ok"),
        "pay": {"sigs": payx.base.sigs, "self": payx.base.self_payee, "close": payx.base.close, "fresh": payx.base.fresh, "chain": payx.base.chain, "addr": payx.base.addr,
                "mode": payx.mode, "pos": payx.pos, "selfIdx": payx.self_idx, "shape": payx.shape, "edge": payx.edge, "none": !d["pay"].is_object()},
        "pad": {"c": uz(&d["c"]).max(1), "sig": st(&d["sig"], "ok"), "content": uz(&d["content"])},
        "txs": d["txs"].as_array().map(|a| a.iter().map(|t| json!({"id": uz(&t["id"]), "ok": st(&t["sig"], "ok") == "ok" && st(&t["owner"], "same") == "same" && !st(&t["variant"], "plain").starts_with("tamper")})).collect::<Vec<_>>()).unwrap_or_default(),
        "ops": d["ops"].as_array().map(|a| a.iter().map(|o| json!({"id": uz(&o["id"]), "ok": st(&o["sig"], "ok") == "ok"})).collect::<Vec<_>>()).unwrap_or_default()});
    let mut spec = spec;
    spec["heldIdx"] = before_d["listed"].clone();
    t.emit(json!({"ev":"Deliver","d":spec,"aBeforeD":abs(&before_d),"aAfterD":abs(&after_d),"aBeforeP":abs(&before_p),"aAfterP":abs(&after_p),
        "gained":gained,"lost":lost,"derivedOK":derived_ok(&after_d, dk) && derived_ok(&after_p, pk),"contentOK":content_ok(&after_d) && content_ok(&after_p),
        "spec":d,"res":res,"presentedKey":pk,"derivedKey":dk,"size":b.size,
        "beforeP":before_p,"beforeD":before_d,"afterP":after_p,"afterD":after_d,
        "listedBefore":listed_before,"listedAfter":listed_after,"contractCalls":w.stub.calls()-calls0,"unverified":unverified,"unvSame":unv_same,"viaKad":via_kad,
        "exp":triples_json(&b.exp),"calls":got_calls.iter().map(|c| triples_json(c)).collect::<Vec<_>>(),"undecodable":undecodable,
        "callsFull": if got_calls.iter().all(|c| *c == b.exp) { json!("") } else { json!({"exp": triples_full(&b.exp), "calls": got_calls.iter().map(|c| triples_full(c)).collect::<Vec<_>>()}) },"selfAt":b.self_at.map(|i| i as i64).unwrap_or(-1),"src":src}));
}

/// Two replicated deliveries for one address processed concurrently, in the prescribed interleaving.
/// Token h = next section of handler h: first its read section (up to and including the serving of its
/// GetLocalRecord command), then its write section (to completion).
async fn concurrent(w: &mut World, t: &mut Trace, s: &Value) {
    use ant_networking::verif_hooks::LocalSwarmCmd;
    use std::task::Poll;
    let fam = st(&s["family"], "pad");
    // set-up: the address already holds version 1
    let setup = match fam {
        "pad" => json!({"path":"repl","kind":"Scratchpad","key":"derived","c":1,"sig":"ok","content":10}),
        "txs" => json!({"path":"repl","kind":"Transaction","key":"derived","txs":[{"id":1}]}),
        _ => json!({"path":"repl","kind":"Register","key":"derived","ops":[{"id":1}]}),
    };
    deliver(w, t, &setup, "conc-setup").await;
    let ba = build(w, &s["a"]);
    let bb = build(w, &s["b"]);
    let derived = ba.derived.clone();
    let node = w.n.node.clone();
    let node2 = w.n.node.clone();
    let mut fa = Box::pin(node.store_replicated_in_record(ba.record.clone()));
    let mut fb = Box::pin(node2.store_replicated_in_record(bb.record.clone()));
    let mut done = [false, false];
    let mut reads = [false, false];
    let mut res = [String::new(), String::new()];
    let mut executed: Vec<String> = vec![];
    for tok in s["schedule"].as_array().cloned().unwrap_or_default() {
        let h = if tok.as_str() == Some("A") { 0 } else { 1 };
        if done[h] { continue; }
        let want_read = !reads[h];
        let mut guard = 0;
        loop {
            guard += 1;
            if guard > 2000 { break; }
            let polled = if h == 0 { futures::poll!(&mut fa) } else { futures::poll!(&mut fb) };
            if let Poll::Ready(r) = polled {
                done[h] = true;
                res[h] = match r { Ok(()) => "Ok".into(), Err(e) => err_name(&e) };
            }
            // let the command senders run, then serve this handler's commands one by one
            let mut served_read = false;
            for _ in 0..4 {
                tokio::task::yield_now().await;
                while let Some(cmd) = w.n.driver.verif_try_recv_local_cmd() {
                    let is_read = matches!(cmd, LocalSwarmCmd::GetLocalRecord { .. });
                    let _ = w.n.driver.verif_handle_local_cmd(cmd);
                    if is_read { served_read = true; }
                }
            }
            if done[h] { break; }
            if want_read && served_read { reads[h] = true; break; }
        }
        executed.push(format!("{}{}", if h == 0 { "A" } else { "B" }, if want_read && !done[h] { ":read" } else { ":write" }));
    }
    // finish whatever is left (schedules always complete both) and settle the disk work
    settle(&mut w.n).await;
    let slot = 0;
    let after = w.held(&derived, slot);
    t.emit(json!({"ev":"Concurrent","family":fam,"a":s["a"],"b":s["b"],"schedule":s["schedule"],"executed":executed,
        "resA":res[0],"resB":res[1],"doneA":done[0],"doneB":done[1],"after":abs(&after),"contentOK":content_ok(&after),"src":"tlc"}));
}

async fn run() {
    let out = arg("--out").expect("--out");
    let work = PathBuf::from(arg("--work").expect("--work"));
    let seed = vtrace::seed_from_env();
    let mut t = Trace::create(&out);
    gates_install();
    let mut w = World::new(seed, work.join("node"));
    if let Some(p) = arg("--scenarios") {
        // a scenario with a payee that is not close runs twice: the payee unknown to the node, then known but far
        let mut list = vec![];
        for scn in read_ndjson(&p) {
            let not_close = scn.as_array().map(|a| a.iter().any(|s| s["pay"].is_object() && s["pay"]["close"] == json!(false))).unwrap_or(false);
            list.push((scn.clone(), false));
            if not_close { list.push((scn, true)); }
        }
        for (scn, far_known) in list {
            w.far_mode_known = far_known;
            w.run += 1;
            w.key_ids.clear();
            w.op_ids.clear();
            t.emit(json!({"ev":"Reset","run":w.run,"src":"tlc"}));
            if scn.is_object() {
                concurrent(&mut w, &mut t, &scn).await;
                continue;
            }
            let steps = scn.as_array().expect("scenario array");
            // "gated" scenarios: the disk writes of the whole sequence stay parked (the index lags behind
            // the accepted writes, as between PutLocalRecord and AddLocalRecordAsStored) until the end
            let gated = steps.first().map(|s| s["gated"] == json!(true)).unwrap_or(false);
            gates_hold(gated);
            for s in steps {
                deliver(&mut w, &mut t, s, if gated { "tlc-gated" } else { "tlc" }).await;
            }
            if gated {
                gates_hold(false);
                let released = gates_release_all();
                settle(&mut w.n).await;
                let last = steps.last().cloned().unwrap_or(json!({}));
                let b = build(&mut w, &last);
                let after = w.held(&b.derived, uz(&last["slot"]));
                t.emit(json!({"ev":"Settled","released":released,"aAfterD":abs(&after),"contentOK":content_ok(&after),"listed":after["listed"],"src":"tlc-gated"}));
            }
        }
    }
    let n = t.finish();
    println!("{}", json!({"events": n, "runs": w.run, "seed": seed}));
}

fn main() {
    if std::env::var("VERIF_LOUD").is_err() { vtrace::quiet_panics(); }
    let rt = tokio::runtime::Builder::new_current_thread().enable_all().build().expect("runtime");
    rt.block_on(run());
}
