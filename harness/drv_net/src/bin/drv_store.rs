//! C01 / C02 / C10 driver: replays TLC-generated behaviours of MCRecordStore, and seeded random
//! behaviours, on the REAL `NodeRecordStore` (created with `with_config` on a fresh directory), on a
//! current-thread runtime. The store's spawned background bodies park at the cfg-guarded gates and
//! are released in the order the behaviour prescribes; completion commands are read from the
//! harness-owned `LocalSwarmCmd` receiver and delivered to the store when the behaviour says so.
//!
//! Ids: keys by distance rank to the node (own SHA-256/XOR metric), values per key 1.., tasks by
//! (kind, key, value). One ndjson line per step with the call's result and the projected state.
use ant_evm::U256;
use ant_networking::verif_hooks::{
    self as vh, GateEvent, GateReq, LocalSwarmCmd,
};
use ant_networking::{NetworkEvent, NodeRecordStore};
use ant_protocol::storage::{RecordHeader, RecordKind, RecordType};
use libp2p::kad::store::RecordStore;
use libp2p::kad::{Record, RecordKey};
use libp2p::{identity::Keypair, PeerId};
use rand::{rngs::StdRng, seq::SliceRandom, Rng, SeedableRng};
use serde_json::{json, Value};
use sha2::{Digest, Sha256};
use std::collections::{BTreeMap, BTreeSet, HashMap};
use std::path::{Path, PathBuf};
use tokio::sync::mpsc;
use vtrace::{arg, read_ndjson, Trace};
use xor_name::XorName;

fn sha(b: &[u8]) -> [u8; 32] {
    Sha256::digest(b).into()
}
fn xor(a: &[u8; 32], b: &[u8; 32]) -> [u8; 32] {
    let mut o = [0u8; 32];
    for i in 0..32 {
        o[i] = a[i] ^ b[i];
    }
    o
}
fn uz(v: &Value) -> usize {
    v.as_u64().unwrap_or(0) as usize
}

#[derive(Clone, Debug, PartialEq)]
struct TaskId {
    kind: &'static str, // "W" "D" "F"
    k: usize,           // key id (0 for F)
    v: usize,           // value id for W, count for F
}

struct Parked {
    id: TaskId,
    tag: String,
    release: Option<tokio::sync::oneshot::Sender<()>>,
}

struct NoteItem {
    kind: &'static str, // "A" "R"
    k: usize,
    v: usize,
    key: RecordKey,
    ty: Option<RecordType>,
}

struct Cfg {
    nk: usize,
    max_records: usize,
    cache_size: usize,
    filler: usize,
}

struct World {
    cfg: Cfg,
    me: PeerId,
    dir: PathBuf,
    /// bare mode: the store created with `with_config`; node mode: the store lives inside `node`
    store: Option<NodeRecordStore>,
    /// node mode (`--via-node`): a real SwarmDriver from `NetworkBuilder::build_node`; every step goes
    /// through its real command handlers (PutLocalRecord, AddLocalRecordAsStored, ...)
    node: Option<ant_networking::SwarmDriver>,
    _net: Option<(ant_networking::Network, mpsc::Receiver<NetworkEvent>)>,
    kp: Keypair,
    cmd_rx: mpsc::Receiver<LocalSwarmCmd>,
    cmd_tx: mpsc::Sender<LocalSwarmCmd>,
    ev_tx: mpsc::Sender<NetworkEvent>,
    _ev_rx: mpsc::Receiver<NetworkEvent>,
    keys: Vec<RecordKey>,
    dists: Vec<[u8; 32]>,
    filler_keys: Vec<RecordKey>,
    values: HashMap<(usize, usize), Vec<u8>>, // (key id, value id) -> record bytes
    parked: Vec<Parked>,
    notes: Vec<NoteItem>,
    pending_w: BTreeMap<usize, Vec<usize>>, // key id -> value ids of spawned, not yet associated writes
    paid: usize,
    seed: [u8; 16],
    cut_sel: usize,
    restarts: usize,
    /// (key id, value id, extra payload bytes): the one large value of this run
    big: Option<(usize, usize, usize)>,
    /// round-robin over the concretisations of a range setting
    rv_sel: usize,
    /// NetworkAddress of every model key / filler key (to map record_addresses() back to ids)
    key_addrs: Vec<ant_protocol::NetworkAddress>,
    filler_addrs: std::collections::HashSet<ant_protocol::NetworkAddress>,
}

/// Record kind of value v of key k: both values of a key differ in kind, and all four storable kinds occur.
fn kind_of(k: usize, v: usize) -> RecordKind {
    match (k + v) % 4 {
        0 => RecordKind::Chunk,
        1 => RecordKind::Scratchpad,
        2 => RecordKind::Transaction,
        _ => RecordKind::Register,
    }
}

/// Which prefix of the ciphertext survives a torn write (selected per run).
fn torn_len(full: usize, sel: usize) -> usize {
    let cands = [0usize, 1, 2, 15, 16, 17, full / 2, full.saturating_sub(17), full.saturating_sub(16), full.saturating_sub(1)];
    if sel < cands.len() { cands[sel].min(full.saturating_sub(1)) } else { (sel - cands.len()) % full.max(1) }
}

static VIA_NODE: std::sync::atomic::AtomicBool = std::sync::atomic::AtomicBool::new(false);

fn build_node(kp: &Keypair, dir: &Path) -> (ant_networking::Network, mpsc::Receiver<NetworkEvent>, ant_networking::SwarmDriver) {
    let mut b = ant_networking::NetworkBuilder::new(kp.clone(), true);
    b.listen_addr("127.0.0.1:0".parse().expect("addr"));
    b.build_node(dir.to_path_buf()).expect("build_node")
}

fn net_err(e: &ant_networking::NetworkError) -> Value {
    let s = format!("{e:?}");
    if s.contains("MaxRecords") { json!("MaxRecords") } else { json!(format!("Err:{}", s.split(|c: char| !c.is_alphanumeric()).next().unwrap_or("Err"))) }
}

fn storage_cfg(dir: &Path, c: &Cfg, seed: [u8; 16]) -> ant_networking::verif_hooks::NodeRecordStoreConfig {
    ant_networking::verif_hooks::NodeRecordStoreConfig {
        storage_dir: dir.join("record_store"),
        historic_quote_dir: dir.to_path_buf(),
        max_records: c.max_records + c.filler,
        max_value_bytes: 1024 * 1024,
        records_cache_size: c.cache_size,
        encryption_seed: seed,
    }
}

impl World {
    async fn new(rng: &mut StdRng, dir: PathBuf, cfg: Cfg, gates: &mut mpsc::UnboundedReceiver<GateEvent>) -> Self {
        let mut kseed = [0u8; 32];
        rng.fill(&mut kseed);
        let kp = Keypair::ed25519_from_bytes(kseed).expect("seed");
        let me = PeerId::from(kp.public());
        let my = sha(&me.to_bytes());
        let mut all: Vec<(RecordKey, [u8; 32])> = (0..cfg.nk + cfg.filler)
            .map(|_| {
                let mut b = [0u8; 32];
                rng.fill(&mut b);
                let key = RecordKey::new(&b);
                let d = xor(&my, &sha(key.as_ref()));
                (key, d)
            })
            .collect();
        all.sort_by(|a, b| a.1.cmp(&b.1));
        let filler_keys: Vec<RecordKey> = all[..cfg.filler].iter().map(|x| x.0.clone()).collect();
        let keys: Vec<RecordKey> = all[cfg.filler..].iter().map(|x| x.0.clone()).collect();
        let dists = all[cfg.filler..].iter().map(|x| x.1).collect();
        std::fs::create_dir_all(dir.join("record_store")).expect("mkdir");
        let mut seed = [0u8; 16];
        rng.fill(&mut seed);
        let (cmd_tx, cmd_rx) = mpsc::channel(10_000);
        let (ev_tx, ev_rx) = mpsc::channel(10_000);
        let via_node = VIA_NODE.load(std::sync::atomic::Ordering::Relaxed);
        let (store, node, net) = if via_node {
            let (network, events, driver) = build_node(&kp, &dir);
            (None, Some(driver), Some((network, events)))
        } else {
            (Some(NodeRecordStore::with_config(me, storage_cfg(&dir, &cfg, seed), ev_tx.clone(), cmd_tx.clone())), None, None)
        };
        let mut w = World {
            cfg, me, dir, store, node, _net: net, kp, cmd_rx, cmd_tx, ev_tx, _ev_rx: ev_rx, keys, dists, filler_keys,
            values: HashMap::new(), parked: vec![], notes: vec![], pending_w: BTreeMap::new(), paid: 0, seed, cut_sel: 0, restarts: 0,
            big: None, rv_sel: 0, key_addrs: vec![], filler_addrs: Default::default(),
        };
        w.key_addrs = w.keys.iter().map(ant_protocol::NetworkAddress::from_record_key).collect();
        w.filler_addrs = w.filler_keys.iter().map(ant_protocol::NetworkAddress::from_record_key).collect();
        w.settle_constructor_flush(gates).await;
        if w.cfg.filler > 0 {
            w.load_filler(gates).await;
        }
        w
    }

    /// Padding (DESIGN.md 2): filler records closer than every model key, written and acknowledged before
    /// the behaviour starts, so that the real clean-up threshold (MAX_RECORDS_COUNT / 10 = 1638) is within
    /// reach of a handful of model keys. They are invisible in the projected state.
    async fn load_filler(&mut self, gates: &mut mpsc::UnboundedReceiver<GateEvent>) {
        let keys = self.filler_keys.clone();
        for (i, key) in keys.iter().enumerate() {
            let mut bytes = RecordHeader { kind: RecordKind::Chunk }.try_serialize().expect("header").to_vec();
            bytes.extend_from_slice(format!("filler {i}").as_bytes());
            let rec = Record { key: key.clone(), value: bytes, publisher: None, expires: None };
            vh::store_put_verified(self.st(), rec, RecordType::Chunk).expect("filler put");
            if i % 64 == 63 || i + 1 == keys.len() {
                // run the parked writes and acknowledge them
                for _ in 0..3 { tokio::task::yield_now().await; }
                while let Ok(ev) = gates.try_recv() {
                    if let GateEvent::Arrived(req) = ev { let _ = req.release.send(()); }
                }
                for _ in 0..40 {
                    tokio::task::yield_now().await;
                    while let Ok(ev) = gates.try_recv() {
                        if let GateEvent::Arrived(req) = ev { let _ = req.release.send(()); }
                    }
                    while let Ok(cmd) = self.cmd_rx.try_recv() {
                        if let LocalSwarmCmd::AddLocalRecordAsStored { key, record_type } = cmd {
                            vh::store_mark_as_stored(self.st(), key, record_type);
                        }
                    }
                }
            }
        }
        let held = vh::store_record_addresses_ref(self.st()).len();
        assert_eq!(held, self.cfg.filler, "filler records must all be acknowledged");
    }

    fn st(&mut self) -> &mut NodeRecordStore {
        match self.node.as_mut() {
            Some(d) => d.verif_node_store_mut().expect("node store"),
            None => self.store.as_mut().expect("store"),
        }
    }

    /// the constructor spawns one metrics flush: let it run at once (not part of the behaviours)
    async fn settle_constructor_flush(&mut self, gates: &mut mpsc::UnboundedReceiver<GateEvent>) {
        self.pump(gates).await;
        if let Some(pos) = self.parked.iter().position(|p| p.id.kind == "F") {
            self.release(pos, gates).await;
        }
    }

    fn value_bytes(&mut self, k: usize, v: usize) -> Vec<u8> {
        if let Some(b) = self.values.get(&(k, v)) {
            return b.clone();
        }
        // a real record: header of a chunk / scratchpad / transaction / register, then payload
        let mut bytes = RecordHeader { kind: kind_of(k, v) }.try_serialize().expect("header").to_vec();
        bytes.extend_from_slice(format!("payload key {k} value {v} ").as_bytes());
        bytes.extend(std::iter::repeat((k * 16 + v) as u8).take(40 + 7 * v));
        if let Some((bk, bv, extra)) = self.big {
            if bk == k && bv == v {
                // magnitude: one value of a few MB per run (non-constant content)
                bytes.extend((0..extra).map(|i| (i as u32).wrapping_mul(2_654_435_761).to_be_bytes()[0]));
            }
        }
        self.values.insert((k, v), bytes.clone());
        bytes
    }
    /// the type the node's PutLocalRecord handler derives from the record header (cmd.rs)
    fn type_of(&mut self, k: usize, v: usize) -> RecordType {
        match kind_of(k, v) {
            RecordKind::Chunk => RecordType::Chunk,
            RecordKind::Scratchpad => RecordType::Scratchpad,
            _ => RecordType::NonChunk(XorName::from_content(&self.value_bytes(k, v))),
        }
    }
    /// concrete range for the abstract setting rg ("distance of key rg"; nk + 1 = beyond every key).
    /// rv 0: exactly the distance of key rg (the key sits ON the bound); rv 1: strictly between key rg-1 and key rg
    /// (no key on the bound); for rg = nk + 1: rv 0 just above the farthest key, rv 1 the largest distance there is
    fn concrete_range(&self, rg: usize, rv: usize) -> U256 {
        let d = |i: usize| U256::from_be_bytes(self.dists[i]);
        let one = U256::from(1u8);
        if rg > self.cfg.nk {
            if rv == 0 { d(self.cfg.nk - 1) + one } else { U256::MAX }
        } else if rv == 0 {
            d(rg - 1)
        } else if rg == 1 {
            d(0) - one
        } else {
            let (a, b) = (d(rg - 2), d(rg - 1));
            let mid = a + (b - a) / U256::from(2u8);
            if mid > a { mid } else { b }
        }
    }
    fn key_id(&self, key: &RecordKey) -> usize {
        self.keys.iter().position(|x| x == key).map(|i| i + 1).unwrap_or(0)
    }
    fn file_of(&self, k: usize) -> PathBuf {
        self.dir.join("record_store").join(hex::encode(self.keys[k - 1].as_ref()))
    }
    fn key_of_tag(&self, tag: &str) -> usize {
        let name = Path::new(tag).file_name().and_then(|n| n.to_str()).unwrap_or("");
        match hex::decode(name) {
            Ok(b) => self.key_id(&RecordKey::from(b)),
            Err(_) => 0,
        }
    }

    /// let spawned bodies reach their gates / finish, and collect gate events and completion commands
    async fn pump(&mut self, gates: &mut mpsc::UnboundedReceiver<GateEvent>) -> Vec<(String, String)> {
        let mut done = vec![];
        for _ in 0..6 {
            tokio::task::yield_now().await;
            while let Ok(ev) = gates.try_recv() {
                match ev {
                    GateEvent::Arrived(GateReq { kind, tag, release }) => {
                        let id = match kind {
                            "write" => {
                                let k = self.key_of_tag(&tag);
                                let v = self.pending_w.get_mut(&k).and_then(|q| if q.is_empty() { None } else { Some(q.remove(0)) }).unwrap_or(0);
                                TaskId { kind: "W", k, v }
                            }
                            "delete" => TaskId { kind: "D", k: self.key_of_tag(&tag), v: 0 },
                            _ => TaskId { kind: "F", k: 0, v: self.paid },
                        };
                        self.parked.push(Parked { id, tag, release: Some(release) });
                    }
                    GateEvent::Done { kind, tag } => done.push((kind.to_string(), tag)),
                }
            }
            loop {
                let cmd = match self.node.as_mut() {
                    Some(d) => d.verif_try_recv_local_cmd(),
                    None => self.cmd_rx.try_recv().ok(),
                };
                let Some(cmd) = cmd else { break };
                match cmd {
                    LocalSwarmCmd::AddLocalRecordAsStored { key, record_type } => {
                        let k = self.key_id(&key);
                        self.notes.push(NoteItem { kind: "A", k, v: 0, key, ty: Some(record_type) });
                    }
                    LocalSwarmCmd::RemoveFailedLocalRecord { key } => {
                        let k = self.key_id(&key);
                        self.notes.push(NoteItem { kind: "R", k, v: 0, key, ty: None });
                    }
                    _ => {}
                }
            }
            if let Some(d) = self.node.as_mut() {
                while d.verif_try_recv_network_cmd().is_some() {}
            }
        }
        done
    }

    async fn release(&mut self, pos: usize, gates: &mut mpsc::UnboundedReceiver<GateEvent>) -> bool {
        let mut p = self.parked.remove(pos);
        if let Some(r) = p.release.take() {
            let _ = r.send(());
        }
        let notes_before = self.notes.len();
        let mut finished = false;
        for _ in 0..20 {
            let done = self.pump(gates).await;
            if done.iter().any(|(_, tag)| *tag == p.tag) {
                finished = true;
            }
            if finished && (p.id.kind != "W" || self.notes.len() > notes_before) {
                break;
            }
        }
        if p.id.kind == "W" && self.notes.len() > notes_before {
            let n = self.notes.len();
            self.notes[n - 1].v = p.id.v;
        }
        finished
    }

    fn filler_in(&self, keys: impl Iterator<Item = RecordKey>) -> (BTreeSet<usize>, usize) {
        let mut ids = BTreeSet::new();
        let mut filler = 0;
        for k in keys {
            let id = self.key_id(&k);
            if id != 0 { ids.insert(id); } else if self.filler_keys.contains(&k) { filler += 1; } else { ids.insert(999); }
        }
        (ids, filler)
    }

    fn value_id(&self, k: usize, bytes: &[u8]) -> i64 {
        for ((kk, v), b) in &self.values {
            if *kk == k && b.as_slice() == bytes {
                return *v as i64;
            }
        }
        -1
    }

    fn observe(&mut self) -> Value {
        let idx_keys: Vec<RecordKey> = vh::store_record_addresses_ref(self.st()).keys().cloned().collect();
        let byd_keys: Vec<RecordKey> = self.st().verif_records_by_distance();
        let cache_keys: Vec<RecordKey> = self.st().verif_cache_keys();
        let far_key = self.st().get_farthest();
        // the read-back goes the way the node reads: through its GetLocalRecord command in node mode
        let reads: Vec<Option<Vec<u8>>> = {
            let keys = self.keys.clone();
            if let Some(d) = self.node.as_mut() {
                keys.iter().map(|k| {
                    let (tx, mut rx) = tokio::sync::oneshot::channel();
                    let _ = d.verif_handle_local_cmd(LocalSwarmCmd::GetLocalRecord { key: k.clone(), sender: tx });
                    rx.try_recv().ok().flatten().map(|r| r.value)
                }).collect()
            } else {
                let st = self.st();
                keys.iter().map(|k| st.get(k).map(|r| r.value.clone())).collect()
            }
        };
        // what the store LISTS: record_addresses() (node: GetAllLocalRecordAddresses) and contains() (node: RecordStoreHasKey)
        #[allow(clippy::mutable_key_type)]
        let listing: HashMap<ant_protocol::NetworkAddress, RecordType> = if let Some(d) = self.node.as_mut() {
            let (tx, mut rx) = tokio::sync::oneshot::channel();
            let _ = d.verif_handle_local_cmd(LocalSwarmCmd::GetAllLocalRecordAddresses { sender: tx });
            rx.try_recv().unwrap_or_default()
        } else {
            vh::store_record_addresses(self.st())
        };
        let has: Vec<usize> = {
            let keys = self.keys.clone();
            let mut out = vec![];
            for (i, k) in keys.iter().enumerate() {
                let yes = if let Some(d) = self.node.as_mut() {
                    let (tx, mut rx) = tokio::sync::oneshot::channel();
                    let _ = d.verif_handle_local_cmd(LocalSwarmCmd::RecordStoreHasKey { key: k.clone(), sender: tx });
                    rx.try_recv().unwrap_or(false)
                } else {
                    vh::store_contains(self.st(), k)
                };
                if yes { out.push(i + 1); }
            }
            out
        };
        let mut addrs: BTreeSet<usize> = BTreeSet::new();
        let mut f_addrs = 0usize;
        for a in listing.keys() {
            match self.key_addrs.iter().position(|x| x == a) {
                Some(i) => { addrs.insert(i + 1); }
                None => if self.filler_addrs.contains(a) { f_addrs += 1; } else { addrs.insert(999); },
            }
        }
        // per key: the type class listed, the kind of the bytes served, and whether a listed content hash is that of the bytes served
        let mut ty: Vec<&'static str> = vec![];
        let mut rk: Vec<&'static str> = vec![];
        let mut hm: Vec<u8> = vec![];
        for i in 0..self.cfg.nk {
            let served = reads[i].as_ref();
            rk.push(match served {
                None => "-",
                Some(b) => match RecordHeader::from_record(&Record { key: self.keys[i].clone(), value: b.clone(), publisher: None, expires: None }) {
                    Ok(h) => match h.kind {
                        RecordKind::Chunk => "C",
                        RecordKind::Scratchpad => "S",
                        RecordKind::Transaction => "T",
                        RecordKind::Register => "R",
                        _ => "?",
                    },
                    Err(_) => "?",
                },
            });
            match listing.get(&self.key_addrs[i]) {
                None => { ty.push("-"); hm.push(1); }
                Some(RecordType::Chunk) => { ty.push("C"); hm.push(1); }
                Some(RecordType::Scratchpad) => { ty.push("S"); hm.push(1); }
                Some(RecordType::NonChunk(h)) => {
                    ty.push("N");
                    hm.push(match served { Some(b) if XorName::from_content(b) == *h => 1, _ => 0 });
                }
            }
        }
        let (idx, f_idx) = self.filler_in(idx_keys.into_iter());
        if f_addrs != f_idx { addrs.insert(998); }   // the listing and the index disagree about the padding records
        let (byd, f_byd) = self.filler_in(byd_keys.into_iter());
        let (cache, _) = self.filler_in(cache_keys.into_iter());
        // a filler record is the farthest one only while no model key is held (then the model's view is "none")
        let far = far_key.map(|k| { let id = self.key_id(&k); if id != 0 { id } else if self.filler_keys.contains(&k) && idx.is_empty() { 0 } else { 998 } }).unwrap_or(0);
        let files: Vec<usize> = (1..=self.cfg.nk).filter(|&k| self.file_of(k).exists()).collect();
        let rb: Vec<i64> = reads.iter().enumerate().map(|(i, r)| match r { Some(v) => self.value_id(i + 1, v), None => 0 }).collect();
        let tasks: Vec<Value> = self.parked.iter().map(|p| json!({"kind": p.id.kind, "k": p.id.k, "v": p.id.v})).collect();
        let notes: Vec<Value> = self.notes.iter().map(|n| json!({"kind": n.kind, "k": n.k, "v": n.v})).collect();
        // abstract range: "distance of key r" = one more than the number of model keys strictly inside the range
        let range = match self.st().get_responsible_distance_range() {
            None => 0,
            Some(r) => 1 + self.dists.iter().filter(|d| U256::from_be_bytes(**d) < r).count(),
        };
        json!({"idx": idx, "byDist": byd, "far": far, "cache": cache, "files": files, "rb": rb, "tasks": tasks, "notes": notes,
               "range": range, "pay": self.st().verif_received_payment_count(), "filler_idx": f_idx, "filler_byDist": f_byd,
               "has": has, "addrs": addrs, "filler_addrs": f_addrs, "ty": ty, "rk": rk, "hm": hm})
    }
}

fn find_task(w: &World, t: &Value) -> Option<usize> {
    let kind = t["kind"].as_str().unwrap_or("");
    let k = uz(&t["k"]);
    // earliest parked body of that kind for that file (the gate order is the spawn order)
    w.parked.iter().position(|p| p.id.kind == kind && (kind == "F" || p.id.k == k))
}

/// Execute one step and log it. Returns false when the step could not be executed as prescribed.
async fn step(w: &mut World, gates: &mut mpsc::UnboundedReceiver<GateEvent>, t: &mut Trace, s: &Value, src: &str) {
    let ev = s["ev"].as_str().expect("ev").to_string();
    let mut res = json!("Ok");
    let mut out = json!(0);
    let mut extra = json!({});
    match ev.as_str() {
        "PutVerified" => {
            let (k, v) = (uz(&s["k"]), uz(&s["v"]));
            let rec = Record { key: w.keys[k - 1].clone(), value: w.value_bytes(k, v), publisher: None, expires: None };
            let ty = w.type_of(k, v);
            let before = w.parked.len();
            w.pending_w.entry(k).or_default().push(v);
            res = if w.node.is_some() {
                // the node's own command: kind -> RecordType mapping, fetcher notification, range hand-over
                let _ = ty;
                let d = w.node.as_mut().expect("node");
                match vtrace::guarded(|| d.verif_handle_local_cmd(LocalSwarmCmd::PutLocalRecord { record: rec })) {
                    Ok(Ok(())) => json!("Ok"),
                    Ok(Err(e)) => net_err(&e),
                    Err(_) => json!("Panic"),
                }
            } else {
                match vtrace::guarded(|| vh::store_put_verified(w.st(), rec, ty)) {
                    Ok(Ok(())) => json!("Ok"),
                    Ok(Err(libp2p::kad::store::Error::MaxRecords)) => json!("MaxRecords"),
                    Ok(Err(e)) => json!(format!("Err:{e:?}")),
                    Err(_) => json!("Panic"),
                }
            };
            w.pump(gates).await;
            // if no write was spawned for this put, forget the pending value id
            let spawned_w = w.parked[before.min(w.parked.len())..].iter().any(|p| p.id.kind == "W" && p.id.k == k);
            if !spawned_w {
                if let Some(q) = w.pending_w.get_mut(&k) { let _ = q.pop(); }
            }
        }
        "Remove" => {
            let k = uz(&s["k"]);
            let key = w.keys[k - 1].clone();
            if vtrace::guarded(|| w.st().remove(&key)).is_err() { res = json!("Panic"); }
            w.pump(gates).await;
        }
        "RunTask" => {
            match find_task(w, &s["t"]) {
                Some(pos) => {
                    extra = json!({"t": {"kind": w.parked[pos].id.kind, "k": w.parked[pos].id.k, "v": w.parked[pos].id.v}, "i": pos + 1});
                    if !w.release(pos, gates).await { res = json!("NotFinished"); }
                }
                None => { res = json!("NoSuchTask"); extra = json!({"t": s["t"], "i": 0}); }
            }
        }
        "FailTask" => {
            // the write body meets a disk that refuses the file: the storage directory is out of reach while the
            // body runs (nothing on disk is altered), so fs::write fails and the store is told to forget the record
            match find_task(w, &s["t"]).filter(|pos| w.parked[*pos].id.kind == "W") {
                Some(pos) => {
                    extra = json!({"t": {"kind": w.parked[pos].id.kind, "k": w.parked[pos].id.k, "v": w.parked[pos].id.v}, "i": pos + 1});
                    let k = w.parked[pos].id.k;
                    let dir = w.file_of(k).parent().expect("storage dir").to_path_buf();
                    let off = dir.with_extension("off");
                    std::fs::rename(&dir, &off).expect("move storage dir away");
                    let fin = w.release(pos, gates).await;
                    std::fs::rename(&off, &dir).expect("move storage dir back");
                    if !fin { res = json!("NotFinished"); }
                }
                None => { res = json!("NoSuchTask"); extra = json!({"t": s["t"], "i": 0}); }
            }
        }
        "HandleNote" => {
            let n = &s["n"];
            let (kind, k) = (n["kind"].as_str().unwrap_or(""), uz(&n["k"]));
            let want_v = uz(&n["v"]);
            let pos = w.notes.iter().position(|x| x.kind == kind && x.k == k && (want_v == 0 || x.v == want_v))
                .or_else(|| w.notes.iter().position(|x| x.kind == kind && x.k == k));
            match pos {
                Some(p) => {
                    let note = w.notes.remove(p);
                    extra = json!({"n": {"kind": note.kind, "k": note.k, "v": note.v}, "ni": p + 1});
                    if let Some(d) = w.node.as_mut() {
                        let cmd = match note.ty {
                            Some(ty) => LocalSwarmCmd::AddLocalRecordAsStored { key: note.key, record_type: ty },
                            None => LocalSwarmCmd::RemoveFailedLocalRecord { key: note.key },
                        };
                        if vtrace::guarded(|| d.verif_handle_local_cmd(cmd)).is_err() { res = json!("Panic"); }
                    } else if vtrace::guarded(|| match note.ty {
                        Some(ty) => vh::store_mark_as_stored(w.st(), note.key, ty),
                        None => w.st().remove(&note.key),
                    }).is_err() { res = json!("Panic"); }
                    w.pump(gates).await;
                }
                None => { res = json!("NoSuchNote"); extra = json!({"n": n}); }
            }
        }
        "Get" => {
            let k = uz(&s["k"]);
            let key = w.keys[k - 1].clone();
            let got = vtrace::guarded(|| if let Some(d) = w.node.as_mut() {
                let (tx, mut rx) = tokio::sync::oneshot::channel();
                let _ = d.verif_handle_local_cmd(LocalSwarmCmd::GetLocalRecord { key, sender: tx });
                rx.try_recv().ok().flatten()
            } else {
                w.st().get(&key).map(|r| r.into_owned())
            });
            out = match got { Ok(Some(r)) => json!(w.value_id(k, &r.value)), Ok(None) => json!(0), Err(_) => { res = json!("Panic"); json!(0) } };
        }
        "SetRange" => {
            let r = uz(&s["rg"]);
            // the concretisation is prescribed (random runs) or taken round-robin (TLC behaviours)
            let rv = match s.get("rv").and_then(|x| x.as_u64()) { Some(x) => x as usize % 2, None => { w.rv_sel += 1; w.rv_sel % 2 } };
            let range = w.concrete_range(r, rv);
            if vtrace::guarded(|| vh::store_set_responsible_distance_range(w.st(), range)).is_err() { res = json!("Panic"); }
            extra = json!({"rv": rv});
        }
        "Cleanup" => {
            if let Some(d) = w.node.as_mut() {
                if vtrace::guarded(|| d.verif_handle_local_cmd(LocalSwarmCmd::TriggerIrrelevantRecordCleanup)).is_err() { res = json!("Panic"); }
            } else if vtrace::guarded(|| w.st().cleanup_irrelevant_records()).is_err() { res = json!("Panic"); }
            w.pump(gates).await;
        }
        "PaymentReceived" => {
            w.paid += 1;
            if vtrace::guarded(|| if let Some(d) = w.node.as_mut() {
                let _ = d.verif_handle_local_cmd(LocalSwarmCmd::PaymentReceived);
            } else {
                vh::store_payment_received(w.st());
            }).is_err() { res = json!("Panic"); }
            w.pump(gates).await;
        }
        "Quote" => {
            // the quote is asked for a model key (prescribed, or key 1): the answer says whether that key is already stored
            let qk = uz(&s["k"]).clamp(1, w.cfg.nk);
            let key = w.keys[qk - 1].clone();
            let answer = vtrace::guarded(|| if let Some(d) = w.node.as_mut() {
                let (tx, mut rx) = tokio::sync::oneshot::channel();
                let _ = d.verif_handle_local_cmd(LocalSwarmCmd::GetLocalQuotingMetrics { key, sender: tx });
                rx.try_recv().expect("quoting metrics answer")
            } else {
                vh::store_quoting_metrics(w.st(), &key, None)
            });
            let (qm, stored) = match answer {
                Ok(a) => a,
                Err(_) => {
                    res = json!("Panic");
                    (ant_evm::QuotingMetrics { close_records_stored: 1_000_000, max_records: 0, received_payment_count: 1_000_000, live_time: 0, network_density: None, network_size: None }, false)
                }
            };
            extra = json!({"k": qk});
            // node mode: the figures the node SIGNS into a quote -- the real GetStoreQuote query handler (ant-node
            // handle_query -> get_local_quoting_metrics -> create_quote_for_storecost) for an address not held
            let mut qm = qm;
            if w.node.is_some() {
                use ant_node::verif_hooks::VerifNode;
                use ant_protocol::messages::{Query, QueryResponse, Response};
                let net = w._net.as_ref().expect("network handle").0.clone();
                let me = w.me;
                let mut x = [0u8; 32];
                x[..8].copy_from_slice(&(w.paid as u64 + 77).to_be_bytes());
                let addr = ant_protocol::NetworkAddress::from_chunk_address(ant_protocol::storage::ChunkAddress::new(XorName(x)));
                let q = Query::GetStoreQuote { key: addr.clone(), nonce: None, difficulty: 0 };
                let fut = VerifNode::handle_query(&net, q, ant_evm::RewardsAddress::default());
                tokio::pin!(fut);
                let mut spins = 0;
                let resp = loop {
                    if let std::task::Poll::Ready(r) = futures::poll!(&mut fut) { break Some(r); }
                    tokio::task::yield_now().await;
                    spins += 1;
                    if spins > 10_000 { break None; }
                    // serve only the metrics question; completion notes keep waiting for their scheduled step
                    let mut keep = vec![];
                    while let Some(cmd) = w.node.as_mut().and_then(|d| d.verif_try_recv_local_cmd()) {
                        match cmd {
                            LocalSwarmCmd::GetLocalQuotingMetrics { .. } => { let _ = w.node.as_mut().map(|d| d.verif_handle_local_cmd(cmd)); }
                            LocalSwarmCmd::AddLocalRecordAsStored { key, record_type } => { let k = w.key_id(&key); keep.push(NoteItem { kind: "A", k, v: 0, key, ty: Some(record_type) }); }
                            LocalSwarmCmd::RemoveFailedLocalRecord { key } => { let k = w.key_id(&key); keep.push(NoteItem { kind: "R", k, v: 0, key, ty: None }); }
                            _ => {}
                        }
                    }
                    w.notes.extend(keep);
                };
                match resp {
                    Some(Response::Query(QueryResponse::GetStoreQuote { quote: Ok(quote), .. })) => {
                        // the signed figures replace the directly read ones; a quote that does not verify for this node
                        // or was made for another address reports impossible figures
                        if quote.check_is_signed_by_claimed_peer(me) && quote.content == addr.as_xorname().unwrap_or_default() {
                            qm = quote.quoting_metrics.clone();
                        } else {
                            qm.received_payment_count = usize::MAX / 2;
                        }
                    }
                    other => { let _ = other; qm.received_payment_count = usize::MAX / 2 - 1; }
                }
            }
            // node mode: the store has the shipped capacity (16384), which the model calls MaxRecords
            let max = if w.node.is_some() { if qm.max_records == 16 * 1024 { w.cfg.max_records as i64 } else { qm.max_records as i64 } } else { qm.max_records as i64 - w.cfg.filler as i64 };
            out = json!({"close": qm.close_records_stored as i64 - w.cfg.filler as i64, "max": max, "pay": qm.received_payment_count, "stored": stored});
        }
        "Restart" => {
            // crash now: parked bodies never run, undelivered notes are lost. If tk != 0 the write of tk that
            // was in progress leaves a torn file: the real body writes the full ciphertext, of which only a
            // prefix is kept.
            // torn keys: `tks` (several writes were in progress), or the single `k` of older recorded scenarios
            let mut tks: Vec<usize> = s.get("tks").and_then(|a| a.as_array()).map(|a| a.iter().map(uz).collect()).unwrap_or_default();
            if tks.is_empty() && uz(&s["k"]) != 0 { tks.push(uz(&s["k"])); }
            tks.sort();
            tks.dedup();
            let mut cuts = vec![];
            // every prescribed key must have a write as its earliest parked body
            for &tk in &tks {
                let pos = w.parked.iter().position(|p| p.id.kind != "F" && p.id.k == tk);
                if !matches!(pos, Some(p) if w.parked[p].id.kind == "W") {
                    res = json!("NoSuchTask"); extra = json!({"t": {"kind":"W","k":tk,"v":0}});
                }
            }
            if res == json!("Ok") {
                for (j, &tk) in tks.iter().enumerate() {
                    let pos = w.parked.iter().position(|p| p.id.kind != "F" && p.id.k == tk).expect("checked");
                    w.release(pos, gates).await;
                    let path = w.file_of(tk);
                    let full = std::fs::read(&path).unwrap_or_default();
                    let cut = torn_len(full.len(), w.cut_sel + 3 * j);
                    std::fs::write(&path, &full[..cut]).expect("torn write");
                    cuts.push(json!({"k": tk, "full": full.len(), "kept": cut}));
                }
            }
            // the quoting-metrics file is a file being written too (flush body, not atomic): with --tear-metrics a flush that
            // was in progress at the crash (a parked F body) leaves a prefix of the file -- any length, also none -- and a
            // process that stops in its first life before any payment may stop before its first flush ran at all (no file).
            // Only the C02 runs ask for this (what the count of payments is after such a crash is not judged there).
            let mut metrics_cut = json!(0);
            if res == json!("Ok") && std::env::args().any(|a| a == "--tear-metrics") {
                fn find(dir: &std::path::Path, out: &mut Vec<PathBuf>) {
                    if let Ok(rd) = std::fs::read_dir(dir) {
                        for e in rd.flatten() {
                            let p = e.path();
                            if p.is_dir() { find(&p, out); } else if p.file_name().and_then(|n| n.to_str()) == Some("historic_quoting_metrics") { out.push(p); }
                        }
                    }
                }
                let mut files = vec![];
                find(&w.dir, &mut files);
                let flush_parked = w.parked.iter().any(|p| p.id.kind == "F");
                for f in files {
                    let full = std::fs::read(&f).unwrap_or_default();
                    if flush_parked {
                        let cut = torn_len(full.len(), w.cut_sel + w.restarts);
                        std::fs::write(&f, &full[..cut.min(full.len())]).expect("torn metrics file");
                        metrics_cut = json!({"full": full.len(), "kept": cut.min(full.len())});
                    } else if w.restarts == 0 && w.paid == 0 && w.cut_sel % 3 == 0 {
                        let _ = std::fs::remove_file(&f);
                        metrics_cut = json!({"full": full.len(), "kept": -1});
                    }
                }
            }
            let cut_info = json!(cuts);
            let tks_json = json!(tks);
            // every other restart is a restart twice in a row (the second one with no background work left: for the
            // model the same as one restart)
            w.restarts += 1;
            let rounds = if res == json!("Ok") { if w.restarts % 2 == 0 { 2 } else { 1 } } else { 0 };
            for _round in 0..rounds {
                for p in w.parked.drain(..) { drop(p.release); }
                w.notes.clear();
                w.pending_w.clear();
                while w.cmd_rx.try_recv().is_ok() {}
                let (cmd_tx, cmd_rx) = mpsc::channel(10_000);
                let (ev_tx, ev_rx) = mpsc::channel(10_000);
                if w.node.is_some() {
                    // same identity, same root directory: the encryption seed is re-derived from the peer id
                    w.node = None;
                    w._net = None;
                    let (network, events, driver) = build_node(&w.kp, &w.dir);
                    w.node = Some(driver);
                    w._net = Some((network, events));
                } else {
                    let store = NodeRecordStore::with_config(w.me, storage_cfg(&w.dir, &w.cfg, w.seed), ev_tx.clone(), cmd_tx.clone());
                    w.store = Some(store);
                }
                w.cmd_rx = cmd_rx; w.cmd_tx = cmd_tx; w.ev_tx = ev_tx; w._ev_rx = ev_rx;
                w.paid = w.st().verif_received_payment_count();
                // bodies of the crashed process are parked for ever; their late gate events are ignored
                w.settle_constructor_flush(gates).await;
                extra = json!({"cut": cut_info, "restarted": rounds, "tks": tks_json, "k": 0, "metricsCut": metrics_cut});
            }
        }
        other => panic!("unknown step {other}"),
    }
    if res == json!("NoSuchTask") || res == json!("NoSuchNote") {
        // the behaviour prescribes a body / note that the real store does not have: the implementation
        // has left the model's path (drift); the step is skipped and the behaviour continues best-effort
        t.emit(json!({"ev": "Skipped", "what": ev, "res": res, "t": extra.get("t").cloned().unwrap_or(json!(0)), "n": extra.get("n").cloned().unwrap_or(json!(0)), "src": src}));
        return;
    }
    let obs = w.observe();
    let mut line = json!({"ev": ev, "k": uz(&s["k"]), "v": uz(&s["v"]), "rg": uz(&s["rg"]), "res": res, "out": out, "src": src});
    for (kk, vv) in obs.as_object().expect("obs") { line[kk] = vv.clone(); }
    for (kk, vv) in extra.as_object().expect("extra") { line[kk] = vv.clone(); }
    if line.get("t").is_none() { line["t"] = json!({"kind": "-", "k": 0, "v": 0}); }
    if line.get("n").is_none() { line["n"] = json!({"kind": "-", "k": 0, "v": 0}); }
    if line.get("i").is_none() { line["i"] = json!(0); }
    if line.get("ni").is_none() { line["ni"] = json!(0); }
    if line.get("tks").is_none() { line["tks"] = json!([]); }
    if let Some(e) = s.get("idx") { line["exp"] = json!({"idx": e, "rb": s["rb"], "res": s["res"], "out": s["out"]}); }
    t.emit(line);
}

async fn prefill(w: &mut World, gates: &mut mpsc::UnboundedReceiver<GateEvent>, t: &mut Trace, keys: &[usize], src: &str) {
    for &k in keys {
        step(w, gates, t, &json!({"ev":"PutVerified","k":k,"v":1}), src).await;
        step(w, gates, t, &json!({"ev":"RunTask","t":{"kind":"W","k":k,"v":1}}), src).await;
        step(w, gates, t, &json!({"ev":"HandleNote","n":{"kind":"A","k":k,"v":1}}), src).await;
    }
}

fn random_step(w: &World, rng: &mut StdRng, nv: usize) -> Value {
    loop {
        match rng.gen_range(0..100) {
            0..=34 => return json!({"ev":"PutVerified","k":rng.gen_range(1..=w.cfg.nk),"v":rng.gen_range(1..=nv)}),
            35..=39 => return json!({"ev":"Remove","k":rng.gen_range(1..=w.cfg.nk)}),
            40..=64 => {
                if w.parked.is_empty() { continue; }
                // bodies of one file run in spawn order: pick a file, take its earliest body
                let p = w.parked.choose(rng).expect("parked");
                // now and then the disk refuses a write
                let ev = if p.id.kind == "W" && rng.gen_range(0..12) == 0 { "FailTask" } else { "RunTask" };
                return json!({"ev":ev,"t":{"kind":p.id.kind,"k":p.id.k,"v":p.id.v}});
            }
            65..=84 => {
                if w.notes.is_empty() { continue; }
                let n = w.notes.choose(rng).expect("note");
                return json!({"ev":"HandleNote","n":{"kind":n.kind,"k":n.k,"v":n.v}});
            }
            85..=88 => return json!({"ev":"Get","k":rng.gen_range(1..=w.cfg.nk)}),
            // any key's distance (the key ON the bound, or the bound strictly between two keys), or beyond every key; set again at will
            89..=91 => return json!({"ev":"SetRange","rg":rng.gen_range(1..=w.cfg.nk + 1),"rv":rng.gen_range(0..2)}),
            92..=94 => return json!({"ev":"Cleanup"}),
            95..=96 => return json!({"ev":"PaymentReceived"}),
            _ => return json!({"ev":"Quote","k":rng.gen_range(1..=w.cfg.nk)}),
        }
    }
}

/// In spawn order per file: the earliest parked body of the chosen body's file.
fn earliest_same_file(w: &World, s: &Value) -> Value {
    if s["ev"] != "RunTask" && s["ev"] != "FailTask" { return s.clone(); }
    let kind = s["t"]["kind"].as_str().unwrap_or("");
    let k = uz(&s["t"]["k"]);
    let file_is_metrics = kind == "F";
    let p = w.parked.iter().find(|p| if file_is_metrics { p.id.kind == "F" } else { p.id.kind != "F" && p.id.k == k }).expect("parked");
    json!({"ev": if s["ev"] == "FailTask" && p.id.kind == "W" { "FailTask" } else { "RunTask" },"t":{"kind":p.id.kind,"k":p.id.k,"v":p.id.v}})
}

/// settle: run every parked body (spawn order), deliver every note
async fn run_all(w: &mut World, gates: &mut mpsc::UnboundedReceiver<GateEvent>, t: &mut Trace, src: &str) {
    loop {
        if !w.parked.is_empty() {
            let p = &w.parked[0];
            let s = json!({"ev":"RunTask","t":{"kind":p.id.kind,"k":p.id.k,"v":p.id.v}});
            step(w, gates, t, &s, src).await;
        } else if !w.notes.is_empty() {
            let n = &w.notes[0];
            let s = json!({"ev":"HandleNote","n":{"kind":n.kind,"k":n.k,"v":n.v}});
            step(w, gates, t, &s, src).await;
        } else {
            break;
        }
    }
}

async fn run() {
    let out = arg("--out").expect("--out");
    let work = PathBuf::from(arg("--work").expect("--work"));
    let seed = vtrace::seed_from_env();
    let nk: usize = arg("--nk").and_then(|s| s.parse().ok()).unwrap_or(3);
    let nv: usize = arg("--nv").and_then(|s| s.parse().ok()).unwrap_or(2);
    let max_records: usize = arg("--max").and_then(|s| s.parse().ok()).unwrap_or(2);
    let cache_size: usize = arg("--cache").and_then(|s| s.parse().ok()).unwrap_or(1);
    let cut_mod: usize = arg("--cuts").and_then(|s| s.parse().ok()).unwrap_or(10);
    let crash_pct: u32 = arg("--crash").and_then(|s| s.parse().ok()).unwrap_or(0);
    if std::env::args().any(|a| a == "--via-node") {
        VIA_NODE.store(true, std::sync::atomic::Ordering::Relaxed);
    }
    let mut gates = vh::install_gate_controller();
    let mut t = Trace::create(&out);
    let mut run_no = 0u64;
    if let Some(p) = arg("--scenarios") {
        for scn in read_ndjson(&p) {
            run_no += 1;
            let mut rng = StdRng::seed_from_u64(seed.wrapping_mul(1_000_003).wrapping_add(run_no));
            let dir = work.join(format!("run-{run_no}"));
            let mut w = World::new(&mut rng, dir.clone(), Cfg { nk, max_records, cache_size, filler: 0 }, &mut gates).await;
            w.cut_sel = (run_no as usize + seed as usize) % cut_mod;
            t.emit(json!({"ev":"Reset","run":run_no,"src":"tlc","nk":nk,"max":max_records,"cache":cache_size,"threshold":99}));
            for s in scn.as_array().expect("scenario array") {
                if s["ev"] == "Prefill" {
                    let keys: Vec<usize> = s["keys"].as_array().expect("keys").iter().map(uz).collect();
                    prefill(&mut w, &mut gates, &mut t, &keys, "tlc").await;
                } else {
                    step(&mut w, &mut gates, &mut t, s, "tlc").await;
                }
            }
            drop(w);
            let _ = std::fs::remove_dir_all(&dir);
        }
    }
    let n_rand: usize = arg("--random").and_then(|s| s.parse().ok()).unwrap_or(0);
    let steps: usize = arg("--steps").and_then(|s| s.parse().ok()).unwrap_or(60);
    for i in 0..n_rand {
        run_no += 1;
        let mut rng = StdRng::seed_from_u64(seed.wrapping_mul(7_919).wrapping_add(i as u64));
        let dir = work.join(format!("run-{run_no}"));
        let mut w = World::new(&mut rng, dir.clone(), Cfg { nk, max_records, cache_size, filler: 0 }, &mut gates).await;
        // magnitude: in every fourth run one value is 1-4 MB large
        if i % 4 == 1 {
            w.big = Some((rng.gen_range(1..=nk), rng.gen_range(1..=nv), rng.gen_range(1usize << 20..4usize << 20)));
        }
        t.emit(json!({"ev":"Reset","run":run_no,"src":"random","nk":nk,"max":max_records,"cache":cache_size,"threshold":99,
                      "big": w.big.map(|b| json!([b.0, b.1, b.2])).unwrap_or(json!(0))}));
        w.cut_sel = (run_no as usize + seed as usize) % cut_mod;
        let crash_at = if rng.gen_range(0..100) < crash_pct { rng.gen_range(steps / 3..steps) } else { usize::MAX };
        for n in 0..steps {
            if n == crash_at {
                // crash with or without a torn write (of a body that could be running)
                let runnable_w: Vec<usize> = (1..=w.cfg.nk).filter(|&k| w.parked.iter().find(|p| p.id.kind != "F" && p.id.k == k).map(|p| p.id.kind == "W").unwrap_or(false)).collect();
                // one, several or none of the writes that could be running leave a torn file
                let mut tks: Vec<usize> = vec![];
                if !runnable_w.is_empty() && rng.gen_bool(0.6) {
                    tks.push(*runnable_w.choose(&mut rng).expect("w"));
                    for &k in &runnable_w { if !tks.contains(&k) && rng.gen_bool(0.5) { tks.push(k); } }
                }
                step(&mut w, &mut gates, &mut t, &json!({"ev":"Restart","k":0,"tks":tks}), "random").await;
                continue;
            }
            // every third run is range-heavy: the responsible range is set again and again (narrower, wider, the same) with
            // quotes and clean-ups in between -- also while the store is at capacity (seeded/C10-9: a widened range not taken
            // up by a full store; the figures of the next quote are then counted within the stale range)
            let s0 = if i % 3 == 2 && rng.gen_range(0..100) < 24 {
                match rng.gen_range(0..5) {
                    0 | 1 => json!({"ev":"SetRange","rg":rng.gen_range(1..=w.cfg.nk + 1),"rv":rng.gen_range(0..2)}),
                    2 | 3 => json!({"ev":"Quote","k":rng.gen_range(1..=w.cfg.nk)}),
                    _ => json!({"ev":"Cleanup"}),
                }
            } else {
                random_step(&w, &mut rng, nv)
            };
            let s = earliest_same_file(&w, &s0);
            step(&mut w, &mut gates, &mut t, &s, "random").await;
        }
        // settle: run every body, deliver every note
        loop {
            if !w.parked.is_empty() {
                let p = &w.parked[0];
                let s = json!({"ev":"RunTask","t":{"kind":p.id.kind,"k":p.id.k,"v":p.id.v}});
                step(&mut w, &mut gates, &mut t, &s, "random").await;
            } else if !w.notes.is_empty() {
                let n = &w.notes[0];
                let s = json!({"ev":"HandleNote","n":{"kind":n.kind,"k":n.k,"v":n.v}});
                step(&mut w, &mut gates, &mut t, &s, "random").await;
            } else {
                break;
            }
        }
        drop(w);
        let _ = std::fs::remove_dir_all(&dir);
    }
    // clean-up runs at the real threshold: 1636 filler records + a few model keys, settled, a range, clean-up
    let n_pad: usize = arg("--padded").and_then(|s| s.parse().ok()).unwrap_or(0);
    for i in 0..n_pad {
        run_no += 1;
        let mut rng = StdRng::seed_from_u64(seed.wrapping_mul(15_485_863).wrapping_add(i as u64));
        let dir = work.join(format!("run-{run_no}"));
        let filler = if i % 4 == 3 { 1635 } else { 1636 };   // one short of the threshold in every fourth run
        let mut w = World::new(&mut rng, dir.clone(), Cfg { nk: 4, max_records: 4, cache_size: 1, filler }, &mut gates).await;
        t.emit(json!({"ev":"Reset","run":run_no,"src":"padded","nk":4,"max":4,"cache":1,"threshold":1638 - filler}));
        let mut keys: Vec<usize> = (1..=4).collect();
        keys.shuffle(&mut rng);
        let n_keys = rng.gen_range(1..=4);
        prefill(&mut w, &mut gates, &mut t, &keys[..n_keys], "padded").await;
        if rng.gen_bool(0.5) {
            // a payment whose flush has run: the count must survive the restart below
            step(&mut w, &mut gates, &mut t, &json!({"ev":"PaymentReceived"}), "padded").await;
            run_all(&mut w, &mut gates, &mut t, "padded").await;
        }
        if rng.gen_bool(0.85) {
            if rng.gen_bool(0.4) {
                // the range is set, then set again
                step(&mut w, &mut gates, &mut t, &json!({"ev":"SetRange","rg":rng.gen_range(1..=5),"rv":rng.gen_range(0..2)}), "padded").await;
            }
            step(&mut w, &mut gates, &mut t, &json!({"ev":"SetRange","rg":rng.gen_range(1..=5),"rv":rng.gen_range(0..2)}), "padded").await;
        }
        step(&mut w, &mut gates, &mut t, &json!({"ev":"Quote","k":rng.gen_range(1..=4)}), "padded").await;
        step(&mut w, &mut gates, &mut t, &json!({"ev":"Cleanup"}), "padded").await;
        // what follows the clean-up: (0) its deletes run; (1) its deletes run, then the node restarts, gets a range again and
        // cleans up again; (2) only the first delete runs before the node stops; (3) a put arrives before the deletes run
        let shape = (i / 4 + i) % 4;
        match shape {
            0 => run_all(&mut w, &mut gates, &mut t, "padded").await,
            1 => {
                run_all(&mut w, &mut gates, &mut t, "padded").await;
                step(&mut w, &mut gates, &mut t, &json!({"ev":"Restart","k":0}), "padded").await;
                for k in 1..=4 { step(&mut w, &mut gates, &mut t, &json!({"ev":"Get","k":k}), "padded").await; }
                step(&mut w, &mut gates, &mut t, &json!({"ev":"Quote","k":rng.gen_range(1..=4)}), "padded").await;
                step(&mut w, &mut gates, &mut t, &json!({"ev":"SetRange","rg":rng.gen_range(1..=5),"rv":rng.gen_range(0..2)}), "padded").await;
                step(&mut w, &mut gates, &mut t, &json!({"ev":"Cleanup"}), "padded").await;
                run_all(&mut w, &mut gates, &mut t, "padded").await;
            }
            2 => {
                if !w.parked.is_empty() {
                    let p = &w.parked[0];
                    let s = json!({"ev":"RunTask","t":{"kind":p.id.kind,"k":p.id.k,"v":p.id.v}});
                    step(&mut w, &mut gates, &mut t, &s, "padded").await;
                }
                step(&mut w, &mut gates, &mut t, &json!({"ev":"Restart","k":0}), "padded").await;
            }
            _ => {
                let k = rng.gen_range(1..=4);
                step(&mut w, &mut gates, &mut t, &json!({"ev":"PutVerified","k":k,"v":2}), "padded").await;
                run_all(&mut w, &mut gates, &mut t, "padded").await;
            }
        }
        for k in 1..=4 { step(&mut w, &mut gates, &mut t, &json!({"ev":"Get","k":k}), "padded").await; }
        step(&mut w, &mut gates, &mut t, &json!({"ev":"Quote","k":rng.gen_range(1..=4)}), "padded").await;
        drop(w);
        let _ = std::fs::remove_dir_all(&dir);
    }
    let n = t.finish();
    println!("{}", json!({"events": n, "runs": run_no, "seed": seed}));
    // keep referenced
    let _ = (&BTreeSet::<usize>::new(),);
}

fn main() {
    let rt = tokio::runtime::Builder::new_current_thread().enable_all().build().expect("runtime");
    rt.block_on(run());
}
