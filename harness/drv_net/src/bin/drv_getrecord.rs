//! C05 driver: quorum reads on the REAL `SwarmDriver` (built offline with `build_client()`, never
//! polled) and the REAL `Network::get_record_from_network`.
//!
//! Part 1 (reply accumulation): `GetNetworkRecord` commands go through `verif_handle_network_cmd`
//! (the harness keeps the callers' oneshot receivers); peers' replies and the four terminating events
//! are synthetic `kad::Event::OutboundQueryProgressed` values through `verif_handle_kad_event`. After
//! every step the harness logs what each caller's channel delivered and the pending-read view.
//! Behaviours: TLC-simulated ones (`--scenarios`) and seeded random ones over a larger universe.
//!
//! Part 2 (client side): `get_record_from_network` runs as a task; the harness reads the
//! `GetNetworkRecord` commands from the driver's command channel (`verif_try_recv_network_cmd`) and
//! answers them itself: Ok / SplitRecord{result_map} / errors. For a split case the result map is
//! rebuilt until every iteration order of its versions has been presented (HashMap order is random per
//! map instance; the order actually presented is logged).
//!
//! Contents are real records: chunks, `SignedRegister`s with BLS-signed operations (one whose base
//! register is not signed by its owner), signed `Scratchpad`s (counters 1..3, equal counters with other
//! payload, one signed by a foreign key), `Transaction` records, an undecodable one and junk; the
//! register R1 serialised to other bytes, a valid register with another base and a validly signed
//! scratchpad of a foreign owner. Every returned record is decoded back to small ids by the harness's
//! own comparison with that universe: the set of items, the items as a multiset (repeats kept), the
//! base / owner of a register / scratchpad, and a hash of the returned bytes.
//!
//! Callers may give up (`Cancel`: the harness drops that caller's receiver). That scenario class is
//! generated only with `--cancel 1` (VERIF_ENABLE_C05_CANCEL); a scenario that contains a Cancel step is
//! always executed.
use ant_networking::verif_hooks::NetworkSwarmCmd;
use ant_networking::{GetRecordCfg, GetRecordError, Network, NetworkBuilder, NetworkError, SwarmDriver};
use ant_protocol::NetworkAddress;
use ant_protocol::storage::{
    try_deserialize_record, try_serialize_record, Chunk, RecordHeader, RecordKind, RetryStrategy, Scratchpad,
    Transaction,
};
use ant_registers::{Permissions, Register, RegisterCrdt, RegisterOp, SignedRegister};
use bls::SecretKey;
use bytes::Bytes;
use libp2p::kad::{
    self, GetRecordOk, PeerRecord, ProgressStep, QueryId, QueryResult, QueryStats, Quorum, Record, RecordKey,
};
use libp2p::{identity::Keypair, PeerId};
use rand::{rngs::StdRng, seq::SliceRandom, Rng, SeedableRng};
use serde_json::{json, Value};
use std::collections::{BTreeMap, BTreeSet, HashMap, HashSet};
use std::num::NonZeroUsize;
use tokio::sync::oneshot;
use vtrace::{arg, guarded, read_ndjson, Trace};
use xor_name::XorName;

const NC: usize = 23; // contents of the universe (GetRecord.tla `Content`)
const SELF_PEER: usize = 6; // this peer id is sent as PeerRecord.peer = None
const NPEERS: usize = 8;
const UNKNOWN: usize = 99;

type Outcome = std::result::Result<Record, GetRecordError>;

fn uz(v: &Value) -> usize {
    v.as_u64().unwrap_or(0) as usize
}

// ------------------------------------------------------------------ universe of real contents
struct Universe {
    val: Vec<Vec<u8>>,       // record value bytes of content id i+1
    ops: Vec<RegisterOp>,    // register operation id i+1
    pads: Vec<(usize, Scratchpad)>, // (content id, pad)
    txs: Vec<Transaction>,   // transaction id i+1
    bases: Vec<Register>,    // base register id i+1 (1: the one the requested key addresses, 2: another one)
    owners: Vec<bls::PublicKey>, // scratchpad owner id i+1 (1: the owner the requested key addresses, 2: a foreign one)
    reg_key: RecordKey,      // the record key that addresses base register 1
    pad_key: RecordKey,      // the record key that addresses owner 1's scratchpad
}

fn ser<T: serde::Serialize>(v: &T, kind: RecordKind) -> Vec<u8> {
    try_serialize_record(v, kind).expect("serialize record").to_vec()
}

impl Universe {
    fn new() -> Self {
        let mut rng = StdRng::seed_from_u64(0xC05);
        let mut sk = || {
            let mut b = [0u8; 32];
            rng.fill(&mut b);
            // a BLS secret key from fixed randomness (any non-zero scalar will do)
            loop {
                b[0] &= 0x3f;
                if let Ok(k) = SecretKey::from_bytes(b) {
                    return k;
                }
                b[1] = b[1].wrapping_add(1);
            }
        };
        let owner = sk();
        let other = sk();
        let mut val: Vec<Vec<u8>> = Vec::new();
        // 1..3 chunks
        for i in 1..=3u8 {
            val.push(ser(&Chunk::new(Bytes::from(vec![i; 40])), RecordKind::Chunk));
        }
        // registers: one base register writable by its owner only, four operations signed by the owner
        let reg = Register::new(owner.public_key(), XorName([7u8; 32]), Permissions::new_with([owner.public_key()]));
        let good_sig = owner.sign(reg.bytes().expect("register bytes"));
        let bad_sig = other.sign(reg.bytes().expect("register bytes"));
        let mut ops: Vec<RegisterOp> = (1..=4u8)
            .map(|i| {
                let mut c = RegisterCrdt::new(*reg.address());
                let (_h, addr, node) = c.write(format!("entry{i}").into_bytes(), &BTreeSet::new()).expect("crdt write");
                RegisterOp::new(addr, node, &owner)
            })
            .collect();
        // another register: other owner, other name, writable by that owner; operation 5 belongs to it
        let reg2 = Register::new(other.public_key(), XorName([9u8; 32]), Permissions::new_with([other.public_key()]));
        let sig2 = other.sign(reg2.bytes().expect("register bytes"));
        {
            let mut c = RegisterCrdt::new(*reg2.address());
            let (_h, addr, node) = c.write(b"entry5".to_vec(), &BTreeSet::new()).expect("crdt write");
            ops.push(RegisterOp::new(addr, node, &other));
        }
        let mk = |sig: &bls::Signature, ids: &[usize]| {
            let set: BTreeSet<RegisterOp> = ids.iter().map(|i| ops[i - 1].clone()).collect();
            ser(&SignedRegister::new(reg.clone(), sig.clone(), set), RecordKind::Register)
        };
        val.push(mk(&good_sig, &[1])); // 4 R1
        val.push(mk(&good_sig, &[2])); // 5 R2
        val.push(mk(&good_sig, &[1, 3])); // 6 R3
        val.push(mk(&bad_sig, &[4])); // 7 R4 does not verify
        // scratchpads of one owner
        let mut pads = Vec::new();
        let pad = |n: usize, payload: &[u8], last_signer: &SecretKey| {
            let mut p = Scratchpad::new(owner.public_key(), 0);
            for i in 0..n {
                let signer = if i + 1 == n { last_signer } else { &owner };
                let _ = p.update_and_sign(Bytes::from(payload.to_vec()), signer);
            }
            p
        };
        let plist = vec![
            pad(1, b"pad-one", &owner),
            pad(2, b"pad-two", &owner),
            pad(3, b"pad-three", &owner),
            pad(3, b"pad-three-other", &owner),
            pad(4, b"pad-four-forged", &other),
        ];
        for (i, p) in plist.into_iter().enumerate() {
            val.push(ser(&p, RecordKind::Scratchpad));
            pads.push((8 + i, p));
        }
        // transactions
        let t1 = Transaction::new(owner.public_key(), vec![], [1u8; 32], vec![], &owner);
        let t2 = Transaction::new(owner.public_key(), vec![], [2u8; 32], vec![], &owner);
        val.push(ser(&vec![t1.clone()], RecordKind::Transaction)); // 13 T1
        val.push(ser(&vec![t2.clone()], RecordKind::Transaction)); // 14 T2
        val.push(ser(&vec![t1.clone(), t2.clone()], RecordKind::Transaction)); // 15 T3
        val.push(ser(&vec![t1.clone(), t1.clone()], RecordKind::Transaction)); // 16 T4
        let mut t5 = RecordHeader { kind: RecordKind::Transaction }.try_serialize().expect("header").to_vec();
        t5.extend_from_slice(b"\xc1 not a transaction list");
        val.push(t5); // 17 T5
        val.push(b"zz".to_vec()); // 18 J1
        // 19 R1': the same SignedRegister as R1 in another (equally decodable) MessagePack form
        {
            let set: BTreeSet<RegisterOp> = [ops[0].clone()].into_iter().collect();
            let r1 = SignedRegister::new(reg.clone(), good_sig.clone(), set);
            let mut named = RecordHeader { kind: RecordKind::Register }.try_serialize().expect("header").to_vec();
            named.extend_from_slice(&rmp_serde::to_vec_named(&r1).expect("named form"));
            let probe = Record { key: RecordKey::new(&[0u8; 32]), value: named.clone(), publisher: None, expires: None };
            let alt = if try_deserialize_record::<SignedRegister>(&probe).map(|r| r == r1).unwrap_or(false) {
                named
            } else {
                // fall back: widen the outermost array header (fixarray(3) -> array16(3))
                let compact = val[3].clone();
                let hl = RecordHeader::SIZE;
                assert_eq!(compact[hl], 0x93, "SignedRegister is a 3-element array");
                let mut v = compact[..hl].to_vec();
                v.extend_from_slice(&[0xdc, 0x00, 0x03]);
                v.extend_from_slice(&compact[hl + 1..]);
                v
            };
            val.push(alt);
        }
        // 20 R6: a valid register with another base, carrying its own operation 5
        {
            let set: BTreeSet<RegisterOp> = [ops[4].clone()].into_iter().collect();
            val.push(ser(&SignedRegister::new(reg2.clone(), sig2.clone(), set), RecordKind::Register));
        }
        // 21 P6: a validly signed scratchpad of a foreign owner, counter 5
        {
            let mut p = Scratchpad::new(other.public_key(), 0);
            for _ in 0..5 {
                let _ = p.update_and_sign(Bytes::from(b"pad-foreign".to_vec()), &other);
            }
            val.push(ser(&p, RecordKind::Scratchpad));
            pads.push((21, p));
        }
        // 22 T6 [t3], 23 T7 [t2,t3]: a third transaction, so that a split can hold more than two distinct ones
        let t3 = Transaction::new(owner.public_key(), vec![], [3u8; 32], vec![], &owner);
        val.push(ser(&vec![t3.clone()], RecordKind::Transaction));
        val.push(ser(&vec![t2.clone(), t3.clone()], RecordKind::Transaction));
        assert_eq!(val.len(), NC);
        let reg_key = NetworkAddress::from_register_address(*reg.address()).to_record_key();
        let pad_key = pads[0].1.network_address().to_record_key();
        let u = Universe {
            val,
            ops,
            pads,
            txs: vec![t1, t2, t3],
            bases: vec![reg, reg2],
            owners: vec![owner.public_key(), other.public_key()],
            reg_key,
            pad_key,
        };
        u.self_check();
        u
    }

    /// The universe must have the validity pattern GetRecord.tla's `Content` table states.
    fn self_check(&self) {
        let rec = |c: usize| Record { key: RecordKey::new(&[0u8; 32]), value: self.val[c - 1].clone(), publisher: None, expires: None };
        for c in [4, 5, 6, 7, 19, 20] {
            let r: SignedRegister = try_deserialize_record(&rec(c)).expect("register decodes");
            assert_eq!(r.verify().is_ok(), c != 7, "register validity of content {c}");
            assert_eq!(r.base_register() == &self.bases[0], c != 20, "base of register {c}");
            assert_eq!(r.base_register() == &self.bases[1], c == 20, "base of register {c}");
        }
        {
            // R1' is R1 (same base, same operations, same signature) in other bytes
            let a: SignedRegister = try_deserialize_record(&rec(4)).expect("R1");
            let b: SignedRegister = try_deserialize_record(&rec(19)).expect("R1'");
            assert!(a == b && self.val[3] != self.val[18], "R1' must decode to R1 and differ byte-wise");
            // the requested key of the register cases really addresses base register 1
            assert_eq!(NetworkAddress::from_register_address(*a.address()).to_record_key(), self.reg_key);
        }
        for (c, cnt, ok, own) in [(8, 1, true, 1), (9, 2, true, 1), (10, 3, true, 1), (11, 3, true, 1), (12, 4, false, 1), (21, 5, true, 2)] {
            let p: Scratchpad = try_deserialize_record(&rec(c)).expect("pad decodes");
            assert_eq!((p.count(), p.is_valid()), (cnt, ok), "pad {c}");
            assert_eq!(p.owner(), &self.owners[own - 1], "owner of pad {c}");
            assert_eq!(p.network_address().to_record_key() == self.pad_key, own == 1, "address of pad {c}");
        }
        for c in [13, 14, 15, 16, 22, 23] {
            assert!(try_deserialize_record::<Vec<Transaction>>(&rec(c)).is_ok());
        }
        assert!(RecordHeader::from_record(&rec(17)).is_ok());
        assert!(try_deserialize_record::<Vec<Transaction>>(&rec(17)).is_err());
        assert!(RecordHeader::from_record(&rec(18)).is_err());
        let distinct: HashSet<&Vec<u8>> = self.val.iter().collect();
        assert_eq!(distinct.len(), NC, "contents must differ byte-wise");
    }

    fn cid(&self, value: &[u8]) -> usize {
        self.val.iter().position(|v| v.as_slice() == value).map(|i| i + 1).unwrap_or(0)
    }

    /// decode a record value to (kind name, items as a MULTISET = sorted ids with repeats, base / owner id)
    /// with the harness's own comparisons
    fn decode(&self, value: &[u8]) -> (&'static str, Vec<usize>, usize) {
        let rec = Record { key: RecordKey::new(&[0u8; 32]), value: value.to_vec(), publisher: None, expires: None };
        let Ok(h) = RecordHeader::from_record(&rec) else { return ("junk", vec![], 0) };
        let sorted = |mut v: Vec<usize>| {
            v.sort();
            v
        };
        match h.kind {
            RecordKind::Chunk => {
                let c = self.cid(value);
                ("chunk", vec![if c == 0 { UNKNOWN } else { c }], 0)
            }
            RecordKind::Register => match try_deserialize_record::<SignedRegister>(&rec) {
                // (the operations of a decoded register are a set: repeats cannot be represented)
                Ok(r) => (
                    "reg",
                    sorted(r.ops().iter().map(|o| self.ops.iter().position(|k| k == o).map(|i| i + 1).unwrap_or(UNKNOWN)).collect()),
                    self.bases.iter().position(|b| b == r.base_register()).map(|i| i + 1).unwrap_or(UNKNOWN),
                ),
                Err(_) => ("reg", vec![], 0),
            },
            RecordKind::Scratchpad => match try_deserialize_record::<Scratchpad>(&rec) {
                Ok(p) => (
                    "pad",
                    vec![self.pads.iter().find(|(_, k)| *k == p).map(|(c, _)| *c).unwrap_or(UNKNOWN)],
                    self.owners.iter().position(|o| o == p.owner()).map(|i| i + 1).unwrap_or(UNKNOWN),
                ),
                Err(_) => ("pad", vec![], 0),
            },
            RecordKind::Transaction => match try_deserialize_record::<Vec<Transaction>>(&rec) {
                Ok(ts) => ("txn", sorted(ts.iter().map(|t| self.txs.iter().position(|k| k == t).map(|i| i + 1).unwrap_or(UNKNOWN)).collect()), 0),
                Err(_) => ("txn", vec![], 0),
            },
            _ => ("other", vec![], 0),
        }
    }

    /// hash of returned bytes (16 hex digits of SHA-256)
    fn hash(value: &[u8]) -> String {
        use sha2::{Digest, Sha256};
        hex::encode(&Sha256::digest(value)[..8])
    }
}

// ------------------------------------------------------------------ one run on a fresh SwarmDriver
struct CallerSlot {
    rx: oneshot::Receiver<Outcome>,
    done: bool,
}

struct World<'a> {
    u: &'a Universe,
    net: Network,
    drv: SwarmDriver,
    keys: Vec<RecordKey>,
    peers: Vec<PeerId>,
    callers: BTreeMap<usize, CallerSlot>,
    qids: Vec<QueryId>,        // index i = query i+1 (order of first appearance)
    found_count: HashMap<usize, usize>,
}

fn quorum_of(s: &str) -> Quorum {
    match s {
        "One" => Quorum::One,
        "N2" => Quorum::N(NonZeroUsize::new(2).expect("2")),
        "N4" => Quorum::N(NonZeroUsize::new(4).expect("4")),
        "Maj" => Quorum::Majority,
        "All" => Quorum::All,
        other => panic!("unknown quorum {other}"),
    }
}

impl<'a> World<'a> {
    fn new(u: &'a Universe, rng: &mut StdRng) -> Self {
        let mut seed = [0u8; 32];
        rng.fill(&mut seed);
        let kp = Keypair::ed25519_from_bytes(seed).expect("ed25519 seed");
        let (net, _events, drv) = NetworkBuilder::new(kp, true).build_client().expect("build_client");
        let keys = (0..3)
            .map(|_| {
                let mut b = [0u8; 32];
                rng.fill(&mut b);
                RecordKey::new(&b)
            })
            .collect();
        let peers = (0..NPEERS)
            .map(|_| {
                let mut b = [0u8; 32];
                rng.fill(&mut b);
                PeerId::from(Keypair::ed25519_from_bytes(b).expect("seed").public())
            })
            .collect();
        World { u, net, drv, keys, peers, callers: BTreeMap::new(), qids: vec![], found_count: HashMap::new() }
    }
    fn key_id(&self, k: &RecordKey) -> usize {
        self.keys.iter().position(|x| x == k).map(|i| i + 1).unwrap_or(UNKNOWN)
    }
    fn record(&self, c: usize, k: usize) -> Record {
        Record { key: self.keys[k - 1].clone(), value: self.u.val[c - 1].clone(), publisher: None, expires: None }
    }
    /// expected holders: 0 none, 1 = peers {1,2} (the peers that usually reply first), 2 = peers {7,8}
    fn holders(&self, eh: usize) -> HashSet<PeerId> {
        match eh {
            1 => [self.peers[0], self.peers[1]].into_iter().collect(),
            2 => [self.peers[6], self.peers[7]].into_iter().collect(),
            _ => HashSet::new(),
        }
    }
    fn cfg(&self, quorum: &str, target: usize, key: usize, retry: Option<RetryStrategy>, isreg: bool, eh: usize) -> GetRecordCfg {
        GetRecordCfg {
            get_quorum: quorum_of(quorum),
            retry_strategy: retry,
            target_record: if target == 0 { None } else { Some(self.record(target, key)) },
            expected_holders: self.holders(eh),
            is_register: isreg,
        }
    }
    fn ok_outcome(&self, r: &Record) -> Value {
        let (vk, vm, vb) = self.u.decode(&r.value);
        let vs: Vec<usize> = vm.iter().cloned().collect::<BTreeSet<usize>>().into_iter().collect();
        json!({"kind":"Ok","e":"","cid":self.u.cid(&r.value),"k":self.key_id(&r.key),"vk":vk,"vs":vs,"vb":vb,"vm":vm,
               "h":Universe::hash(&r.value)})
    }
    fn split_outcome(&self, m: &HashMap<XorName, (Record, HashSet<PeerId>)>) -> Value {
        let mut vs = BTreeSet::new();
        let mut ks = BTreeSet::new();
        for (r, _) in m.values() {
            let c = self.u.cid(&r.value);
            vs.insert(if c == 0 { UNKNOWN } else { c });
            ks.insert(self.key_id(&r.key));
        }
        let k = if ks.len() == 1 { *ks.iter().next().expect("one") } else { 0 };
        json!({"kind":"Split","e":"","cid":0,"k":k,"vk":"","vs":vs.into_iter().collect::<Vec<_>>(),"vb":0,"vm":[],"h":""})
    }
    fn err_outcome(&self, e: &GetRecordError) -> Value {
        let name = match e {
            GetRecordError::NotEnoughCopies { .. } => "NotEnoughCopies",
            GetRecordError::QueryTimeout => "QueryTimeout",
            GetRecordError::RecordDoesNotMatch(_) => "RecordDoesNotMatch",
            GetRecordError::RecordKindMismatch => "RecordKindMismatch",
            GetRecordError::RecordNotFound => "RecordNotFound",
            GetRecordError::SplitRecord { result_map } => return self.split_outcome(result_map),
        };
        json!({"kind":"Err","e":name,"cid":0,"k":0,"vk":"","vs":[],"vb":0,"vm":[],"h":""})
    }
    fn outcome(&self, o: &Outcome) -> Value {
        match o {
            Ok(r) => self.ok_outcome(r),
            Err(e) => self.err_outcome(e),
        }
    }
    fn dropped() -> Value {
        json!({"kind":"Dropped","e":"","cid":0,"k":0,"vk":"","vs":[],"vb":0,"vm":[],"h":""})
    }

    /// the pending reads, with queries numbered in the order they first appeared
    fn pending(&mut self) -> Vec<(usize, usize, usize, usize)> {
        let view = self.drv.verif_pending_get_record();
        for (q, ..) in &view {
            if !self.qids.contains(q) {
                self.qids.push(*q);
            }
        }
        let mut out: Vec<(usize, usize, usize, usize)> = view
            .iter()
            .map(|(q, k, n, v)| (self.qids.iter().position(|x| x == q).expect("numbered") + 1, self.key_id(k), *n, *v))
            .collect();
        out.sort();
        out
    }

    /// what the callers' channels delivered since the last poll
    fn poll_callers(&mut self) -> Vec<Value> {
        let mut dl = vec![];
        let ids: Vec<usize> = self.callers.keys().cloned().collect();
        for id in ids {
            let slot = self.callers.get_mut(&id).expect("slot");
            if slot.done {
                continue;
            }
            match slot.rx.try_recv() {
                Ok(o) => {
                    slot.done = true;
                    let v = self.outcome(&o);
                    dl.push(json!({"caller": id, "o": v}));
                }
                Err(oneshot::error::TryRecvError::Empty) => {}
                Err(oneshot::error::TryRecvError::Closed) => {
                    slot.done = true;
                    dl.push(json!({"caller": id, "o": Self::dropped()}));
                }
            }
        }
        dl
    }

    fn kad_event(&mut self, qid: QueryId, q: usize, result: kad::GetRecordResult, last: bool) -> kad::Event {
        let n = self.found_count.entry(q).or_insert(0);
        *n += 1;
        kad::Event::OutboundQueryProgressed {
            id: qid,
            result: QueryResult::GetRecord(result),
            stats: QueryStats::empty(),
            step: ProgressStep { count: NonZeroUsize::new(*n).expect("count"), last },
        }
    }

    /// Execute one reply-accumulation step and log it.
    fn step(&mut self, t: &mut Trace, s: &Value, src: &str) {
        let ev = s["ev"].as_str().expect("ev").to_string();
        let (caller, key, target, q, p, c, k) =
            (uz(&s["caller"]), uz(&s["key"]), uz(&s["target"]), uz(&s["q"]), uz(&s["p"]), uz(&s["c"]), uz(&s["k"]));
        let quorum = s["quorum"].as_str().unwrap_or("One").to_string();
        let isreg = s["isreg"].as_bool().unwrap_or(false);
        let eh = uz(&s["eh"]);
        let mut att = 0usize;
        // a panic of the code under test is data ("Panic"), not a tool failure
        let res: Result<Result<(), NetworkError>, String>;
        if ev == "Call" {
            let before = self.pending();
            let (tx, rx) = oneshot::channel();
            let cfg = self.cfg(&quorum, target, key, None, isreg, eh);
            let cmd = NetworkSwarmCmd::GetNetworkRecord { key: self.keys[key - 1].clone(), sender: tx, cfg };
            let drv = &mut self.drv;
            res = guarded(move || drv.verif_handle_network_cmd(cmd));
            self.callers.insert(caller, CallerSlot { rx, done: false });
            let after = self.pending();
            for (qa, _, na, _) in &after {
                match before.iter().find(|(qb, ..)| qb == qa) {
                    None => att = *qa,
                    Some((_, _, nb, _)) if na > nb => att = *qa,
                    _ => {}
                }
            }
        } else if ev == "Cancel" {
            // the caller gives up: its receiving end is dropped (nothing is told to the SwarmDriver).
            // Whatever was already in its channel is looked at first, so that nothing delivered goes unseen.
            let early = self.poll_callers();
            assert!(early.is_empty(), "outcomes are polled after every step");
            if let Some(slot) = self.callers.get(&caller) {
                if !slot.done {
                    let _ = self.callers.remove(&caller); // drops the oneshot::Receiver
                }
            }
            res = Ok(Ok(()));
        } else {
            let Some(qid) = self.qids.get(q.wrapping_sub(1)).cloned() else {
                // the behaviour addresses a query the real driver never started: drift, nothing to execute
                t.emit(json!({"ev":"Skipped","what":format!("{ev} for query {q} which does not exist"),"src":src}));
                return;
            };
            let rk = self.keys.get(k.wrapping_sub(1)).cloned().unwrap_or_else(|| self.keys[0].clone());
            let qkey = self.keys[0].clone(); // libp2p's errors carry the key of the query; the handlers only log it
            let event = match ev.as_str() {
                "Found" => {
                    let peer = if p == SELF_PEER { None } else { Some(self.peers[p - 1]) };
                    let record = Record { key: rk, value: self.u.val[c - 1].clone(), publisher: None, expires: None };
                    self.kad_event(qid, q, Ok(GetRecordOk::FoundRecord(PeerRecord { peer, record })), false)
                }
                "Finished" => self.kad_event(qid, q, Ok(GetRecordOk::FinishedWithNoAdditionalRecord { cache_candidates: BTreeMap::new() }), true),
                "NotFound" => self.kad_event(qid, q, Err(kad::GetRecordError::NotFound { key: qkey, closest_peers: vec![] }), true),
                "QuorumFailed" => self.kad_event(
                    qid,
                    q,
                    Err(kad::GetRecordError::QuorumFailed { key: qkey, records: vec![], quorum: NonZeroUsize::new(1).expect("1") }),
                    true,
                ),
                "Timeout" => self.kad_event(qid, q, Err(kad::GetRecordError::Timeout { key: qkey }), true),
                other => panic!("unknown step {other}"),
            };
            let drv = &mut self.drv;
            res = guarded(move || drv.verif_handle_kad_event(event));
        }
        let dl = self.poll_callers();
        let pend = self.pending();
        let pq: Vec<usize> = pend.iter().map(|x| x.0).collect();
        t.emit(json!({
            "ev": ev, "caller": caller, "key": key, "quorum": quorum, "target": target, "isreg": isreg, "eh": eh,
            "q": q, "p": p, "c": c, "k": k,
            "att": att, "res": match &res { Ok(Ok(())) => "Ok", Ok(Err(_)) => "Err", Err(_) => "Panic" }, "dl": dl, "pq": pq,
            "pend": pend.iter().map(|(q, k, n, v)| json!({"q": q, "key": k, "n": n, "v": v})).collect::<Vec<_>>(),
            "src": src,
        }));
    }

    // -------------------------------------------------------------- client side
    /// a result map over `vs` (peers arbitrary) whose iteration order is not yet in `seen`, if one turns up
    fn split_map(&self, vs: &[usize], key: usize, want: Option<&[usize]>, seen: &HashSet<Vec<usize>>, rng: &mut StdRng)
        -> Option<(HashMap<XorName, (Record, HashSet<PeerId>)>, Vec<usize>)> {
        for _ in 0..400 {
            let mut order = vs.to_vec();
            order.shuffle(rng);
            let mut m: HashMap<XorName, (Record, HashSet<PeerId>)> = HashMap::new();
            for (i, c) in order.iter().enumerate() {
                let r = self.record(*c, key);
                let mut hs = HashSet::new();
                hs.insert(self.peers[i % NPEERS]);
                m.insert(XorName::from_content(&r.value), (r, hs));
            }
            let it: Vec<usize> = m.values().map(|(r, _)| self.u.cid(&r.value)).collect();
            let ok = match want {
                Some(w) => it.as_slice() == w,
                None => !seen.contains(&it),
            };
            if ok {
                return Some((m, it));
            }
        }
        None
    }

    fn net_outcome(&self, r: &Result<Record, NetworkError>) -> Value {
        match r {
            Ok(rec) => self.ok_outcome(rec),
            Err(NetworkError::GetRecordError(e)) => self.err_outcome(e),
            Err(NetworkError::InternalMsgChannelDropped) => Self::dropped(),
            Err(other) => json!({"kind":"Err","e":format!("Other:{other:?}").chars().take(60).collect::<String>(),"cid":0,"k":0,"vk":"","vs":[],"vb":0,"vm":[],"h":""}),
        }
    }

    /// wait (by yielding only) for the next GetNetworkRecord command the client task sends
    async fn next_cmd(&mut self, budget: usize) -> Option<(RecordKey, oneshot::Sender<Outcome>)> {
        for _ in 0..budget {
            if let Some(cmd) = self.drv.verif_try_recv_network_cmd() {
                if let NetworkSwarmCmd::GetNetworkRecord { key, sender, .. } = cmd {
                    return Some((key, sender));
                }
                continue;
            }
            tokio::task::yield_now().await;
        }
        None
    }

    /// one split case: get_record_from_network (no retries) answered with SplitRecord{result_map} once per
    /// iteration order of the map
    async fn split_case(&mut self, t: &mut Trace, case: &Value, rng: &mut StdRng, max_orders: usize, txnbytes: bool) {
        let vs: Vec<usize> = case["vs"].as_array().expect("vs").iter().map(uz).collect();
        let target = uz(&case["target"]);
        let key = 1usize;
        // the requested key (key 1 of this case) is the key that really addresses base register 1 when a
        // version of that register is among the versions, else the key of owner 1's scratchpad when one of
        // its versions is, else an arbitrary key
        let is = |c: &usize, lo: usize, hi: usize| (lo..=hi).contains(c);
        let genuine = if vs.iter().any(|c| is(c, 4, 7) || *c == 19) {
            Some(self.u.reg_key.clone())
        } else if vs.iter().any(|c| is(c, 8, 12)) {
            Some(self.u.pad_key.clone())
        } else {
            None
        };
        let arbitrary = self.keys[0].clone();
        if let Some(k) = genuine {
            self.keys[0] = k;
        }
        let fact: usize = (1..=vs.len()).product();
        let orders = fact.min(max_orders);
        let mut seen: HashSet<Vec<usize>> = HashSet::new();
        let mut runs = vec![];
        // at least 4 presentations per case (fresh map each), and every order where that is feasible
        let mut presented = 0usize;
        while seen.len() < orders || presented < 4 {
            let pick = if seen.len() < orders { self.split_map(&vs, key, None, &seen, rng) } else { None };
            let (m, it) = match pick {
                Some(x) => x,
                None => match self.split_map(&vs, key, None, &HashSet::new(), rng) {
                    Some(x) => x,
                    None => break,
                },
            };
            seen.insert(it.clone());
            presented += 1;
            let cfg = self.cfg("Maj", target, key, Some(RetryStrategy::None), false, 0);
            let net = self.net.clone();
            let k = self.keys[key - 1].clone();
            let h = tokio::spawn(async move { net.get_record_from_network(k, &cfg).await });
            let o = match self.next_cmd(10_000).await {
                Some((_k, sender)) => {
                    let _ = sender.send(Err(GetRecordError::SplitRecord { result_map: m }));
                    match h.await {
                        Ok(r) => self.net_outcome(&r),
                        Err(_) => json!({"kind":"Dropped","e":"Panic","cid":0,"k":0,"vk":"","vs":[],"vb":0,"vm":[],"h":""}),
                    }
                }
                None => {
                    h.abort();
                    json!({"kind":"Err","e":"NoCommand","cid":0,"k":0,"vk":"","vs":[],"vb":0,"vm":[],"h":""})
                }
            };
            runs.push(json!({"it": it, "o": o}));
            if presented > 64 {
                break;
            }
        }
        t.emit(json!({"ev":"SplitCase","key":key,"target":target,"vs":vs,"runs":runs,"txnbytes":txnbytes,
                      "src":case["src"].as_str().unwrap_or("tlc")}));
        self.keys[0] = arbitrary;
    }
}

/// All retry cases at once (their back-off sleeps overlap): one key per case, answers scripted.
async fn retry_cases(u: &Universe, t: &mut Trace, cases: &[Value], rng: &mut StdRng) {
    if cases.is_empty() {
        return;
    }
    let mut w = World::new(u, rng);
    struct Job {
        key: RecordKey,
        ans: Vec<Value>,
        natt: usize,
        used: usize,
        handle: Option<tokio::task::JoinHandle<Result<Record, NetworkError>>>,
        result: Option<Value>,
    }
    let mut jobs: Vec<Job> = vec![];
    w.keys.clear();
    for c in cases {
        let mut b = [0u8; 32];
        rng.fill(&mut b);
        let key = RecordKey::new(&b);
        w.keys.push(key.clone());
        jobs.push(Job { key, ans: c["ans"].as_array().expect("ans").clone(), natt: uz(&c["natt"]), used: 0, handle: None, result: None });
    }
    for j in jobs.iter_mut() {
        let cfg = GetRecordCfg {
            get_quorum: Quorum::Majority,
            retry_strategy: Some(if j.natt <= 1 { RetryStrategy::None } else { RetryStrategy::N(NonZeroUsize::new(j.natt).expect("natt")) }),
            target_record: None,
            expected_holders: HashSet::new(),
            is_register: false,
        };
        let net = w.net.clone();
        let k = j.key.clone();
        j.handle = Some(tokio::spawn(async move { net.get_record_from_network(k, &cfg).await }));
    }
    // serve commands until every client task has returned; waiting is done by yielding (the only real
    // time that passes is the back-off sleep inside the code under test)
    let empty = HashSet::new();
    loop {
        let mut progressed = false;
        while let Some(cmd) = w.drv.verif_try_recv_network_cmd() {
            progressed = true;
            let NetworkSwarmCmd::GetNetworkRecord { key, sender, .. } = cmd else { continue };
            let Some(ji) = jobs.iter().position(|j| j.key == key) else { continue };
            let kid = ji + 1;
            jobs[ji].used += 1;
            let a = jobs[ji].ans.get(jobs[ji].used - 1).cloned();
            let reply: Outcome = match a {
                None => Err(GetRecordError::RecordNotFound),
                Some(a) => match a["a"].as_str().expect("a") {
                    "Ok" => Ok(w.record(uz(&a["c"]), kid)),
                    "Split" => {
                        let it: Vec<usize> = a["it"].as_array().expect("it").iter().map(uz).collect();
                        match w.split_map(&it, kid, Some(&it), &empty, rng) {
                            Some((m, _)) => Err(GetRecordError::SplitRecord { result_map: m }),
                            None => panic!("could not build a result map iterating as {it:?}"),
                        }
                    }
                    _ => match a["e"].as_str().expect("e") {
                        "QueryTimeout" => Err(GetRecordError::QueryTimeout),
                        "RecordNotFound" => Err(GetRecordError::RecordNotFound),
                        "NotEnoughCopies" => Err(GetRecordError::NotEnoughCopies { record: w.record(1, kid), expected: 3, got: 1 }),
                        "RecordDoesNotMatch" => Err(GetRecordError::RecordDoesNotMatch(w.record(2, kid))),
                        other => panic!("unknown scripted error {other}"),
                    },
                },
            };
            let _ = sender.send(reply);
        }
        let mut all = true;
        for j in jobs.iter_mut() {
            if j.result.is_some() {
                continue;
            }
            let fin = j.handle.as_ref().map(|h| h.is_finished()).unwrap_or(false);
            if fin {
                j.result = Some(match j.handle.take().expect("handle").await {
                    Ok(r) => w.net_outcome(&r),
                    Err(_) => json!({"kind":"Dropped","e":"Panic","cid":0,"k":0,"vk":"","vs":[],"vb":0,"vm":[],"h":""}),
                });
                progressed = true;
            } else {
                all = false;
            }
        }
        if all {
            break;
        }
        if !progressed {
            std::thread::yield_now();
        }
        tokio::task::yield_now().await;
    }
    for (i, j) in jobs.iter().enumerate() {
        let mut o = j.result.clone().expect("result");
        // every job has its own key: report it as key 1 of its own little world
        if uz(&o["k"]) == i + 1 {
            o["k"] = json!(1);
        } else if uz(&o["k"]) != 0 {
            o["k"] = json!(UNKNOWN);
        }
        t.emit(json!({"ev":"ClientRetry","key":1,"ans":j.ans,"natt":j.natt,"used":j.used,"o":o,"src":"tlc"}));
    }
}

// ------------------------------------------------------------------ driver-generated behaviours
fn random_run(w: &mut World, t: &mut Trace, rng: &mut StdRng, cancel: bool) {
    let quorums = ["One", "N2", "Maj", "All", "N4"];
    // a few contents in play, so that agreement and splits both happen; one run in five is about one
    // register in several serialisations / versions (expected values compared as registers)
    let reg_run = rng.gen_bool(0.2);
    let pool: Vec<usize> = if reg_run {
        let all = [4usize, 19, 6, 5, 20, 7];
        let n = rng.gen_range(2..=4);
        let mut v = vec![4usize, 19];
        v.extend(all.choose_multiple(rng, n).cloned());
        v.sort();
        v.dedup();
        v
    } else {
        let all: Vec<usize> = (1..=NC).collect();
        let n = rng.gen_range(1..=4);
        all.choose_multiple(rng, n).cloned().collect()
    };
    let base_ir = if reg_run { rng.gen_bool(0.7) } else { rng.gen_bool(0.1) };
    let base_eh = if rng.gen_bool(0.3) { rng.gen_range(1..=2) } else { 0 };
    let mut waiting: Vec<usize> = vec![];
    let ncallers = rng.gen_range(1..=4);
    let nkeys = if rng.gen_bool(0.3) { 2 } else { 1 };
    let mut called = 0usize;
    let base_q = *quorums.choose(rng).expect("q");
    let base_t = if rng.gen_bool(0.4) { *pool.choose(rng).expect("c") } else { 0 };
    let len = rng.gen_range(4..=22);
    for _ in 0..len {
        let r = rng.gen_range(0..100);
        let queries = w.qids.len();
        if called == 0 || queries == 0 || (called < ncallers && r < 12) {
            if called >= ncallers {
                break;
            }
            called += 1;
            let same = rng.gen_bool(0.5);
            let quorum = if same { base_q } else { *quorums.choose(rng).expect("q") };
            let target = if same { base_t } else if rng.gen_bool(0.5) { *pool.choose(rng).expect("c") } else { 0 };
            let key = if called == 1 { 1 } else { rng.gen_range(1..=nkeys) };
            let isreg = if same || rng.gen_bool(0.5) { base_ir } else { !base_ir };
            let eh = if rng.gen_bool(0.7) { base_eh } else { rng.gen_range(0..=2) };
            w.step(t, &json!({"ev":"Call","caller":called,"key":key,"quorum":quorum,"target":target,"isreg":isreg,"eh":eh}), "random");
            waiting.push(called);
        } else if cancel && r < 24 && !waiting.is_empty() {
            // a caller that is still waiting gives up
            waiting.retain(|c| w.callers.get(c).map(|s| !s.done).unwrap_or(false));
            if let Some(c) = waiting.choose(rng).cloned() {
                waiting.retain(|x| *x != c);
                w.step(t, &json!({"ev":"Cancel","caller":c}), "random");
            }
        } else if r < 88 {
            let q = rng.gen_range(1..=queries);
            let hi = if rng.gen_bool(0.7) { 4 } else { NPEERS };
            let p = rng.gen_range(1..=hi);
            let c = *pool.choose(rng).expect("c");
            let k = if rng.gen_bool(0.9) { 1 } else { 2 };
            w.step(t, &json!({"ev":"Found","q":q,"p":p,"c":c,"k":k}), "random");
        } else {
            let q = rng.gen_range(1..=queries);
            let ev = *["Finished", "NotFound", "QuorumFailed", "Timeout"].choose(rng).expect("ev");
            w.step(t, &json!({"ev":ev,"q":q}), "random");
        }
    }
    // end every query that is still pending
    let live: Vec<usize> = w.pending().iter().map(|x| x.0).collect();
    for q in live {
        let ev = *["Finished", "Finished", "NotFound", "QuorumFailed", "Timeout", "Timeout"].choose(rng).expect("ev");
        w.step(t, &json!({"ev":ev,"q":q}), "random");
    }
}

/// Boundary behaviours (systematic): a first caller, a second caller that asks the same / with another
/// quorum / another expected value / another key and joins after j replies, then replies by distinct (or
/// repeating) peers that agree or alternate between two contents, delivered to every pending query, and a
/// terminating event for whatever is still pending.
fn directed_runs(u: &Universe, t: &mut Trace, seed: u64, run_no: &mut u64) {
    let quorums = ["One", "N2", "Maj", "All", "N4"];
    let pairs: [(usize, usize); 3] = [(1, 2), (13, 14), (4, 9)];
    let mut n = 0u64;
    for (qi, q1) in quorums.iter().enumerate() {
        for t1i in 0..2usize {
            // second caller variants: (quorum, target selector, key); target selector 0 none, 1 = c1, 2 = c2
            let mut variants: Vec<(&str, usize, usize)> = vec![(q1, t1i, 1), (q1, t1i, 2), (q1, if t1i == 0 { 1 } else { 0 }, 1), (q1, 2, 1)];
            for q2 in quorums.iter().filter(|q| *q != q1) {
                variants.push((q2, t1i, 1));
            }
            for (vi, (q2, t2i, key2)) in variants.iter().enumerate() {
                for j in 0..3usize {
                    for pattern in 0..3usize {
                        for ending in ["Finished", "Timeout"] {
                            n += 1;
                            let (c1, c2) = pairs[((qi + vi + j + pattern) as usize) % pairs.len()];
                            let sel = |i: usize| match i {
                                0 => 0,
                                1 => c1,
                                _ => c2,
                            };
                            *run_no += 1;
                            let mut rng = StdRng::seed_from_u64(seed.wrapping_mul(15_485_863).wrapping_add(n));
                            let mut w = World::new(u, &mut rng);
                            t.emit(json!({"ev":"Reset","run":*run_no,"src":"class"}));
                            let reply = |i: usize| -> (usize, usize) {
                                match pattern {
                                    0 => (i + 1, c1),                            // distinct peers agree
                                    1 => (i / 2 + 1, c1),                        // every peer answers twice
                                    _ => (i + 1, if i % 2 == 0 { c1 } else { c2 }), // two versions alternate
                                }
                            };
                            w.step(t, &json!({"ev":"Call","caller":1,"key":1,"quorum":q1,"target":sel(t1i)}), "class");
                            for i in 0..6usize {
                                if i == j {
                                    w.step(t, &json!({"ev":"Call","caller":2,"key":key2,"quorum":q2,"target":sel(*t2i)}), "class");
                                }
                                let live = w.pending();
                                if live.is_empty() {
                                    break;
                                }
                                let (p, c) = reply(i);
                                for (q, key, _, _) in live {
                                    w.step(t, &json!({"ev":"Found","q":q,"p":p,"c":c,"k":key}), "class");
                                }
                            }
                            let live: Vec<usize> = w.pending().iter().map(|x| x.0).collect();
                            for q in live {
                                w.step(t, &json!({"ev":ending,"q":q}), "class");
                            }
                        }
                    }
                }
            }
        }
    }
}

/// Expected values compared as registers (GetRecordCfg.is_register) and expected holders (systematic):
/// the first caller expects R1 / R1' / R3 / the register of another base / a chunk, compared as a register
/// or byte-wise; a second caller asks the same except for is_register, or except for the expected holders;
/// peers return R1, its other serialisation R1', R3 (same base, other operations), R6 (other base), or
/// alternate between two of them; expected holders are none / contain / do not contain the replying peers.
fn register_runs(u: &Universe, t: &mut Trace, seed: u64, run_no: &mut u64) {
    let targets = [4usize, 19, 6, 20, 1, 0];
    let replies: [(usize, usize); 7] = [(4, 4), (19, 19), (6, 6), (20, 20), (4, 19), (4, 6), (4, 20)];
    let mut n = 0u64;
    for quorum in ["One", "N2", "Maj"] {
        for tg in targets {
            for isreg in [true, false] {
                for (ri, (c1, c2)) in replies.iter().enumerate() {
                    // second caller: 0 none, 1 same cfg, 2 differs in is_register only, 3 differs in the holders only
                    for second in 0..4usize {
                        for ending in ["Finished", "Timeout"] {
                            n += 1;
                            // thin out: every combination of (target, isreg, replies) is run; quorum x second x ending rotate
                            if (n as usize + ri) % 3 != 0 && !(quorum == "N2" && second == 2) {
                                continue;
                            }
                            *run_no += 1;
                            let mut rng = StdRng::seed_from_u64(seed.wrapping_mul(32_452_843).wrapping_add(n));
                            let mut w = World::new(u, &mut rng);
                            t.emit(json!({"ev":"Reset","run":*run_no,"src":"class"}));
                            let eh1 = (n as usize) % 3;
                            w.step(t, &json!({"ev":"Call","caller":1,"key":1,"quorum":quorum,"target":tg,"isreg":isreg,"eh":eh1}), "class");
                            for i in 0..5usize {
                                if i == 1 && second > 0 {
                                    let (ir2, eh2) = match second {
                                        1 => (isreg, eh1),
                                        2 => (!isreg, eh1),
                                        _ => (isreg, (eh1 + 1) % 3),
                                    };
                                    w.step(t, &json!({"ev":"Call","caller":2,"key":1,"quorum":quorum,"target":tg,"isreg":ir2,"eh":eh2}), "class");
                                }
                                let live = w.pending();
                                if live.is_empty() {
                                    break;
                                }
                                let c = if i % 2 == 0 { *c1 } else { *c2 };
                                for (q, key, _, _) in live {
                                    w.step(t, &json!({"ev":"Found","q":q,"p":i + 1,"c":c,"k":key}), "class");
                                }
                            }
                            let live: Vec<usize> = w.pending().iter().map(|x| x.0).collect();
                            for q in live {
                                w.step(t, &json!({"ev":ending,"q":q}), "class");
                            }
                        }
                    }
                }
            }
        }
    }
}

/// Callers that give up (systematic; scenario class VERIF_ENABLE_C05_CANCEL): 2 or 3 callers share one
/// query (same cfg); one or two of them drop their receivers right before the step that ends the query --
/// the quorum-reaching reply (one version / transactions accumulated / split) or a terminating event
/// (finished with none / one short / one enough / several versions, not found, quorum failed, timeout with
/// none / enough / mismatch / several versions) -- or before a later caller joins. Every caller that did
/// not give up is owed its one outcome.
fn cancel_runs(u: &Universe, t: &mut Trace, seed: u64, run_no: &mut u64) {
    // (name, quorum, target, replies before the cancellation [(peer, content)], the ending step)
    // ending: ("Found", p, c) the quorum-reaching reply | (terminating event, 0, 0)
    let paths: Vec<(&str, &str, usize, Vec<(usize, usize)>, (&str, usize, usize))> = vec![
        ("quorum-one-version", "N2", 0, vec![(1, 1)], ("Found", 2, 1)),
        ("quorum-target-mismatch", "N2", 2, vec![(1, 1)], ("Found", 2, 1)),
        ("quorum-split-transactions", "N2", 0, vec![(1, 13), (2, 14)], ("Found", 3, 13)),
        ("quorum-split", "N2", 0, vec![(1, 1), (2, 2)], ("Found", 3, 1)),
        ("finished-several-versions", "Maj", 0, vec![(1, 1), (2, 2)], ("Finished", 0, 0)),
        ("finished-none", "Maj", 0, vec![], ("Finished", 0, 0)),
        ("finished-not-enough", "Maj", 0, vec![(1, 1)], ("Finished", 0, 0)),
        ("not-found", "Maj", 0, vec![(1, 1)], ("NotFound", 0, 0)),
        ("quorum-failed", "Maj", 0, vec![], ("QuorumFailed", 0, 0)),
        ("timeout-several-versions", "Maj", 0, vec![(1, 1), (2, 2)], ("Timeout", 0, 0)),
        ("timeout-not-enough", "Maj", 0, vec![(1, 1)], ("Timeout", 0, 0)),
        ("timeout-none", "All", 0, vec![], ("Timeout", 0, 0)),
    ];
    // who gives up (callers are numbered in the order they asked, which is the order the code keeps their senders)
    let patterns: Vec<(usize, Vec<usize>)> =
        vec![(2, vec![1]), (2, vec![2]), (3, vec![1]), (3, vec![2]), (3, vec![3]), (3, vec![1, 2]), (3, vec![2, 3])];
    let mut n = 0u64;
    for (name, quorum, target, before, ending) in &paths {
        for (ncallers, gone) in &patterns {
            // late = the last caller joins AFTER the cancellation (it attaches to a query whose other senders are dead)
            for late in [false, true] {
                if late && gone.contains(ncallers) {
                    continue;
                }
                n += 1;
                *run_no += 1;
                let mut rng = StdRng::seed_from_u64(seed.wrapping_mul(49_979_687).wrapping_add(n));
                let mut w = World::new(u, &mut rng);
                t.emit(json!({"ev":"Reset","run":*run_no,"src":"class","what":format!("cancel:{name}")}));
                let first = if late { *ncallers - 1 } else { *ncallers };
                for c in 1..=first {
                    w.step(t, &json!({"ev":"Call","caller":c,"key":1,"quorum":quorum,"target":target}), "class");
                }
                for (p, c) in before {
                    w.step(t, &json!({"ev":"Found","q":1,"p":p,"c":c,"k":1}), "class");
                }
                for c in gone {
                    w.step(t, &json!({"ev":"Cancel","caller":c}), "class");
                }
                if late {
                    w.step(t, &json!({"ev":"Call","caller":*ncallers,"key":1,"quorum":quorum,"target":target}), "class");
                }
                let (ev, p, c) = ending;
                if *ev == "Found" {
                    w.step(t, &json!({"ev":"Found","q":1,"p":p,"c":c,"k":1}), "class");
                } else {
                    w.step(t, &json!({"ev":ev,"q":1}), "class");
                }
                // whatever is still pending ends too
                let live: Vec<usize> = w.pending().iter().map(|x| x.0).collect();
                for q in live {
                    w.step(t, &json!({"ev":"Finished","q":q}), "class");
                }
            }
        }
    }
}

async fn run() {
    let out = arg("--out").expect("--out");
    let seed = vtrace::seed_from_env();
    let mut t = Trace::create(&out);
    let u = Universe::new();
    let mut run_no = 0u64;
    if let Some(p) = arg("--scenarios") {
        for scn in read_ndjson(&p) {
            run_no += 1;
            let mut rng = StdRng::seed_from_u64(seed.wrapping_mul(1_000_003).wrapping_add(run_no));
            let mut w = World::new(&u, &mut rng);
            t.emit(json!({"ev":"Reset","run":run_no,"src":"tlc"}));
            for s in scn.as_array().expect("scenario array") {
                w.step(&mut t, s, "tlc");
            }
        }
    }
    let cancel = arg("--cancel").map(|s| s == "1").unwrap_or(false);
    let n_rand: usize = arg("--random").and_then(|s| s.parse().ok()).unwrap_or(0);
    for i in 0..n_rand {
        run_no += 1;
        let mut rng = StdRng::seed_from_u64(seed.wrapping_mul(7_919).wrapping_add(i as u64));
        let mut w = World::new(&u, &mut rng);
        t.emit(json!({"ev":"Reset","run":run_no,"src":"random"}));
        random_run(&mut w, &mut t, &mut rng, cancel);
    }
    if arg("--directed").is_some() {
        directed_runs(&u, &mut t, seed, &mut run_no);
        register_runs(&u, &mut t, seed, &mut run_no);
        if cancel {
            cancel_runs(&u, &mut t, seed, &mut run_no);
        }
    }
    if let Some(p) = arg("--cases") {
        let cases = read_ndjson(&p);
        let max_orders: usize = arg("--orders").and_then(|s| s.parse().ok()).unwrap_or(6);
        let txnbytes = arg("--txnbytes").map(|s| s == "1").unwrap_or(false);
        let mut rng = StdRng::seed_from_u64(seed.wrapping_mul(104_729));
        run_no += 1;
        t.emit(json!({"ev":"Reset","run":run_no,"src":"tlc"}));
        let mut w = World::new(&u, &mut rng);
        for c in cases.iter().filter(|c| c["kind"] == "split") {
            w.split_case(&mut t, c, &mut rng, max_orders, txnbytes).await;
        }
        drop(w);
        let retry: Vec<Value> = cases.iter().filter(|c| c["kind"] == "retry").cloned().collect();
        retry_cases(&u, &mut t, &retry, &mut rng).await;
    }
    let n = t.finish();
    println!("{}", json!({"events": n, "runs": run_no, "seed": seed}));
}

fn main() {
    let rt = tokio::runtime::Builder::new_current_thread().enable_all().build().expect("runtime");
    rt.block_on(run());
}
