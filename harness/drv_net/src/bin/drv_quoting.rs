//! Quote-collection driver (specs/quoting): the REAL `Network::get_store_quote_from_network` on a client built by
//! `build_client()`, with the harness owning the command receivers of the `SwarmDriver` the `Network` handle belongs to
//! (the driver is never run).  The harness answers the close-peers lookup
//! (`GetClosestPeersToAddressFromNetwork`) and every `SendRequest` as the scenario prescribes.
//!
//! Every simulated peer has a real ed25519 keypair; quotes are real `PaymentQuote`s signed the way a node signs them
//! (`PaymentQuote::bytes_for_signing` + `Keypair::sign`, public key = `encode_protobuf`).  Peers are numbered by their
//! closeness to the address (1 = closest) with the harness's own ranking (XOR of SHA-256 digests).
//!
//! What a returned (peer, quote) pair is, is established by the harness itself, never by the code under test:
//!   key    rank of the peer whose generated public key bytes the quote carries (0 = nobody's)
//!   sigok  the signature verifies under that generated key over the bytes recomputed here from the quote's fields
//!          (content ++ timestamp secs u64 LE ++ msgpack(metrics) ++ rewards address)
//!   addr   the quote's content is the requested address
//!   from   rank of the peer that was made to answer with exactly this quote (0 = nobody)
//!
//! All calls run concurrently on one current-thread runtime, each under its own address (commands are attributed to
//! calls by address).  One `Quote` line per finished call.
use ant_evm::{PaymentQuote, QuotingMetrics, RewardsAddress};
use ant_networking::verif_hooks::NetworkSwarmCmd;
use ant_networking::{Network, NetworkBuilder, NetworkError, NetworkEvent, SwarmDriver};
use ant_protocol::messages::{Query, QueryResponse, Request, Response};
use ant_protocol::storage::ChunkAddress;
use ant_protocol::{NetworkAddress, PrettyPrintRecordKey};
use libp2p::kad::RecordKey;
use libp2p::{identity::Keypair, PeerId};
use rand::{rngs::StdRng, seq::SliceRandom, Rng, SeedableRng};
use serde_json::{json, Value};
use sha2::{Digest, Sha256};
use std::collections::HashMap;
use std::time::{Duration, Instant, SystemTime};
use tokio::sync::{mpsc, oneshot};
use vtrace::{arg, read_ndjson, Trace};
use xor_name::XorName;

type QuoteResult = Result<Vec<(PeerId, PaymentQuote)>, NetworkError>;

const CLASSES: [&str; 8] = ["GoodQuote", "ForgedSig", "OtherPeersQuote", "WrongContent", "Exists", "Error", "Unexpected", "Silent"];

fn sha(b: &[u8]) -> [u8; 32] {
    let mut h = Sha256::new();
    h.update(b);
    h.finalize().into()
}
/// the harness's own distance: XOR of the SHA-256 digests, compared as big-endian numbers
fn dist(a: &[u8], b: &[u8]) -> [u8; 32] {
    let (x, y) = (sha(a), sha(b));
    let mut d = [0u8; 32];
    for i in 0..32 {
        d[i] = x[i] ^ y[i];
    }
    d
}

fn keypair(rng: &mut StdRng) -> Keypair {
    let mut b = [0u8; 32];
    rng.fill(&mut b);
    Keypair::ed25519_from_bytes(b).expect("seed")
}

fn metrics(i: u64) -> QuotingMetrics {
    QuotingMetrics {
        close_records_stored: (3 + 11 * i) as usize,
        max_records: 16384,
        received_payment_count: (5 + 17 * i) as usize,
        live_time: 1000 + 19 * i,
        network_density: if i % 3 == 2 { None } else { Some(sha(format!("density {i}").as_bytes())) },
        network_size: if i % 4 == 3 { None } else { Some(100_000 + 23 * i) },
    }
}
fn rewards(i: u64) -> RewardsAddress {
    RewardsAddress::from_slice(&sha(format!("rewards address {i}").as_bytes())[..20])
}

/// a quote as a node makes it: signer signs the fields, the quote carries `carried`'s public key
fn signed_quote(signer: &Keypair, carried: &Keypair, content: XorName, i: u64) -> PaymentQuote {
    let ts = SystemTime::now() - Duration::from_secs(i % 50);
    let m = metrics(i);
    let r = rewards(i);
    let bytes = PaymentQuote::bytes_for_signing(content, ts, &m, &r);
    PaymentQuote { content, timestamp: ts, quoting_metrics: m, rewards_address: r, pub_key: carried.public().encode_protobuf(), signature: signer.sign(&bytes).expect("sign") }
}

/// the harness's own computation of the signed bytes of a quote
fn own_bytes(q: &PaymentQuote) -> Vec<u8> {
    let mut b: Vec<u8> = q.content.0.to_vec();
    let secs = q.timestamp.duration_since(SystemTime::UNIX_EPOCH).map(|d| d.as_secs()).unwrap_or(0);
    b.extend_from_slice(&secs.to_le_bytes());
    b.extend_from_slice(&rmp_serde::to_vec(&q.quoting_metrics).unwrap_or_default());
    b.extend_from_slice(q.rewards_address.as_slice());
    b
}

struct Case {
    scn: usize,
    src: &'static str,
    nfound: usize,
    selfin: bool,
    ign: Vec<usize>,
    resp: Vec<String>,
    x: XorName,
    other_x: XorName,
    addr: NetworkAddress,
    kps: Vec<Keypair>,          // by rank - 1
    ids: Vec<PeerId>,           // by rank - 1
    ignore_ids: Vec<PeerId>,
    sent: Vec<Option<PaymentQuote>>,   // the quote peer (rank - 1) answered with
    asked: Vec<(usize, usize)>, // (rank, requests), in order of the first request
    lookups: usize,
    badreq: usize,
    t0: Instant,
    handle: Option<tokio::task::JoinHandle<QuoteResult>>,
    result: Option<Value>,
    ms: u128,
}

fn rank_of(c: &Case, p: &PeerId) -> usize {
    c.ids.iter().position(|x| x == p).map(|i| i + 1).unwrap_or(0)
}

fn new_case(rng: &mut StdRng, scn: usize, src: &'static str, s: &Value) -> Case {
    let scn = s["scn"].as_u64().map(|v| v as usize).unwrap_or(scn);     // (a replayed scenario keeps its number: it selects the forgery variant)
    let nfound = s["nfound"].as_u64().unwrap_or(0) as usize;
    let selfin = s["selfin"].as_bool().unwrap_or(false);
    let ign: Vec<usize> = s["ign"].as_array().map(|a| a.iter().map(|v| v.as_u64().unwrap_or(0) as usize).collect()).unwrap_or_default();
    let resp: Vec<String> = s["resp"].as_array().map(|a| a.iter().map(|v| v.as_str().unwrap_or("Silent").to_string()).collect()).unwrap_or_default();
    assert_eq!(resp.len(), nfound, "scenario {scn}: one answer class per found peer");
    let x = XorName(rng.gen::<[u8; 32]>());
    let other_x = XorName(rng.gen::<[u8; 32]>());
    let addr = NetworkAddress::from_chunk_address(ChunkAddress::new(x));
    let mut kps: Vec<Keypair> = (0..nfound).map(|_| keypair(rng)).collect();
    // rank = closeness to the address by the harness's own metric
    let target = addr.as_bytes();
    kps.sort_by_key(|k| dist(&target, &PeerId::from(k.public()).to_bytes()));
    let ids: Vec<PeerId> = kps.iter().map(|k| PeerId::from(k.public())).collect();
    // ignored ranks beyond the found peers are peers nobody knows
    let ignore_ids: Vec<PeerId> = ign.iter().map(|r| if *r >= 1 && *r <= nfound { ids[*r - 1] } else { PeerId::from(keypair(rng).public()) }).collect();
    Case {
        scn, src, nfound, selfin, ign, resp, x, other_x, addr, kps, ids, ignore_ids, sent: vec![None; nfound], asked: vec![], lookups: 0, badreq: 0,
        t0: Instant::now(), handle: None, result: None, ms: 0,
    }
}

/// the answer of peer `rank` to a GetStoreQuote request
fn answer(c: &mut Case, rank: usize, sender: oneshot::Sender<Result<Response, NetworkError>>) {
    let i = rank - 1;
    let class = c.resp[i].clone();
    let me = c.kps[i].clone();
    let tag = (c.scn * 31 + rank) as u64;
    let peer_address = NetworkAddress::from_peer(c.ids[i]);
    let reply = |quote| Ok(Response::Query(QueryResponse::GetStoreQuote { quote, peer_address: peer_address.clone(), storage_proofs: vec![] }));
    let quote = match class.as_str() {
        "GoodQuote" => Some(signed_quote(&me, &me, c.x, tag)),
        "ForgedSig" => {
            let mut q = signed_quote(&me, &me, c.x, tag);
            match tag % 5 {
                0 => q.signature[7] ^= 0x10,                                      // one bit of the signature
                1 => q.rewards_address = rewards(tag + 1),                         // a signed field altered after signing
                2 => q.timestamp += Duration::from_secs(1),                        // the signed time altered
                3 => {
                    let o = c.kps[rank % c.nfound].clone();                        // signed by another node, this peer's key carried
                    q = signed_quote(&o, &me, c.x, tag);
                }
                _ => q.signature = vec![],
            }
            Some(q)
        }
        "OtherPeersQuote" => {
            let o = c.kps[rank % c.nfound].clone();
            Some(signed_quote(&o, &o, c.x, tag))
        }
        "WrongContent" => Some(signed_quote(&me, &me, c.other_x, tag)),
        _ => None,
    };
    if let Some(q) = quote {
        c.sent[i] = Some(q.clone());
        let _ = sender.send(reply(Ok(q)));
        return;
    }
    match class.as_str() {
        "Exists" => {
            let key = PrettyPrintRecordKey::from(&c.addr.to_record_key()).into_owned();
            let _ = sender.send(reply(Err(ant_protocol::error::Error::RecordExists(key))));
        }
        "Error" => {
            let e = match tag % 3 {
                0 => NetworkError::InternalMsgChannelDropped,
                1 => NetworkError::NoStoreCostResponses,
                _ => NetworkError::BehaviourErr("verif: request failed".to_string()),
            };
            let _ = sender.send(Err(e));
        }
        "Unexpected" => {
            let r = match tag % 3 {
                0 => reply(Err(ant_protocol::error::Error::GetStoreQuoteFailed)),
                1 => reply(Err(ant_protocol::error::Error::QuoteGenerationFailed)),
                _ => Ok(Response::Query(QueryResponse::GetChunkExistenceProof(vec![]))),
            };
            let _ = sender.send(r);
        }
        _ => drop(sender),
    }
}

fn classify(c: &Case, r: Result<QuoteResult, tokio::task::JoinError>) -> Value {
    let r = match r {
        Ok(r) => r,
        Err(_) => return json!({"kind":"Panic","e":"Panic","quotes":[]}),
    };
    match r {
        Ok(list) => {
            let quotes: Vec<Value> = list
                .iter()
                .map(|(peer, q)| {
                    let key = c.kps.iter().position(|k| k.public().encode_protobuf() == q.pub_key).map(|i| i + 1).unwrap_or(0);
                    let sigok = key > 0 && c.kps[key - 1].public().verify(&own_bytes(q), &q.signature);
                    let from = c.sent.iter().position(|s| s.as_ref() == Some(q)).map(|i| i + 1).unwrap_or(0);
                    json!({"p": rank_of(c, peer), "key": key, "sigok": sigok, "addr": q.content == c.x, "from": from})
                })
                .collect();
            json!({"kind":"Ok","e":"","quotes":quotes})
        }
        Err(NetworkError::NotEnoughPeers { .. }) => json!({"kind":"Err","e":"NotEnoughPeers","quotes":[]}),
        Err(NetworkError::NoStoreCostResponses) => json!({"kind":"Err","e":"NoStoreCostResponses","quotes":[]}),
        Err(NetworkError::SenderDropped(_)) | Err(NetworkError::InternalMsgChannelDropped) => json!({"kind":"Err","e":"ChannelDropped","quotes":[]}),
        Err(other) => json!({"kind":"Err","e":format!("Other:{}", format!("{other:?}").chars().take(40).collect::<String>()),"quotes":[]}),
    }
}

fn emit(t: &mut Trace, c: &Case) {
    let asked: Vec<Value> = c.asked.iter().map(|(p, n)| json!({"p": p, "n": n})).collect();
    t.emit(json!({"ev":"Quote","scn":c.scn,"nfound":c.nfound,"selfin":c.selfin,"ign":c.ign,"resp":c.resp,"asked":asked,
                  "res":c.result.clone().expect("result"),"lookups":c.lookups,"badreq":c.badreq,"ms":c.ms as u64,"src":c.src}));
}

fn random_scenario(rng: &mut StdRng) -> Value {
    let nfound = match rng.gen_range(0..10) {
        0 => rng.gen_range(0..5),
        1..=3 => 5,
        _ => rng.gen_range(5..11),
    };
    let resp: Vec<&str> = if rng.gen_bool(0.3) {
        // mostly RecordExists / good quotes: the already-paid threshold
        (0..nfound).map(|_| *["GoodQuote", "Exists", "Exists", "Error"].choose(rng).expect("class")).collect()
    } else {
        (0..nfound).map(|_| *CLASSES.choose(rng).expect("class")).collect()
    };
    let mut ign: Vec<usize> = vec![];
    let pr = *[0.0, 0.0, 0.15, 0.4, 0.9].choose(rng).expect("p");
    for r in 1..=(nfound + 2) {
        if rng.gen_bool(pr) {
            ign.push(r);
        }
    }
    json!({"nfound": nfound, "selfin": rng.gen_bool(0.5), "ign": ign, "resp": resp})
}

struct World {
    net: Network,
    drv: SwarmDriver,
    _events: mpsc::Receiver<NetworkEvent>,
}

async fn run() {
    let out = arg("--out").expect("--out");
    let seed = vtrace::seed_from_env();
    let nrandom: usize = arg("--random").and_then(|s| s.parse().ok()).unwrap_or(0);
    let mut t = Trace::create(&out);
    let scns = arg("--scenarios").map(|p| read_ndjson(&p)).unwrap_or_default();
    let mut rng = StdRng::seed_from_u64(seed.wrapping_mul(715_827).wrapping_add(13));
    let kp = keypair(&mut rng);
    let (net, events, drv) = NetworkBuilder::new(kp.clone(), true).build_client().expect("build_client");
    let mut w = World { net, drv, _events: events };
    let me = w.net.peer_id();
    let mut cases: Vec<Case> = vec![];
    for (si, s) in scns.iter().enumerate() {
        cases.push(new_case(&mut rng, si + 1, "tlc", s));
    }
    for i in 0..nrandom {
        let s = random_scenario(&mut rng);
        cases.push(new_case(&mut rng, scns.len() + i + 1, "random", &s));
    }
    let by_key: HashMap<RecordKey, usize> = cases.iter().enumerate().map(|(i, c)| (c.addr.to_record_key(), i)).collect();
    // from here on a panic is one of the code under test: data
    vtrace::quiet_panics();
    for c in cases.iter_mut() {
        let net = w.net.clone();
        let addr = c.addr.clone();
        let ignore = c.ignore_ids.clone();
        c.t0 = Instant::now();
        c.handle = Some(tokio::spawn(async move { net.get_store_quote_from_network(addr, ignore).await }));
    }
    t.emit(json!({"ev":"Reset","run":1,"src":"tlc","cases":cases.len(),"seed":seed}));
    let started = Instant::now();
    let mut last_progress = Instant::now();
    loop {
        let mut progressed = false;
        while let Some(_local) = w.drv.verif_try_recv_local_cmd() {
            progressed = true;
        }
        while let Some(cmd) = w.drv.verif_try_recv_network_cmd() {
            progressed = true;
            match cmd {
                NetworkSwarmCmd::GetClosestPeersToAddressFromNetwork { key, sender } => {
                    if let Some(ci) = by_key.get(&key.to_record_key()).cloned() {
                        let c = &mut cases[ci];
                        c.lookups += 1;
                        // delivered in no particular order, the caller itself among them when the scenario says so
                        let mut found = c.ids.clone();
                        if c.selfin {
                            found.push(me);
                        }
                        found.shuffle(&mut rng);
                        let _ = sender.send(found);
                    }
                }
                NetworkSwarmCmd::SendRequest { req, peer, sender } => {
                    let key = match &req {
                        Request::Query(Query::GetStoreQuote { key, .. }) => Some(key.clone()),
                        _ => None,
                    };
                    if let (Some(key), Some(sender)) = (key, sender) {
                        if let Some(ci) = by_key.get(&key.to_record_key()).cloned() {
                            let c = &mut cases[ci];
                            let plain = matches!(&req, Request::Query(Query::GetStoreQuote { nonce: None, difficulty: 0, .. }));
                            if !plain {
                                c.badreq += 1;
                            }
                            let rank = rank_of(c, &peer);
                            match c.asked.iter_mut().find(|(p, _)| *p == rank) {
                                Some(a) => a.1 += 1,
                                None => c.asked.push((rank, 1)),
                            }
                            if rank == 0 {
                                // a peer the lookup never delivered (the caller itself, an ignored stranger): no answer
                                drop(sender);
                            } else {
                                answer(c, rank, sender);
                            }
                        }
                    }
                }
                _ => {}
            }
        }
        let mut all = true;
        for ci in 0..cases.len() {
            if cases[ci].result.is_some() {
                continue;
            }
            if cases[ci].handle.as_ref().map(|h| h.is_finished()).unwrap_or(false) {
                let h = cases[ci].handle.take().expect("handle");
                let r = h.await;
                let c = &mut cases[ci];
                c.ms = c.t0.elapsed().as_millis();
                let v = classify(c, r);
                c.result = Some(v);
                progressed = true;
            } else {
                all = false;
            }
        }
        if all {
            break;
        }
        if progressed {
            last_progress = Instant::now();
            tokio::task::yield_now().await;
        } else if last_progress.elapsed().as_secs() > 30 {
            // the code under test does not sleep on this path: these calls hang
            for c in cases.iter_mut().filter(|c| c.result.is_none()) {
                if let Some(h) = c.handle.take() {
                    h.abort();
                }
                c.ms = c.t0.elapsed().as_millis();
                c.result = Some(json!({"kind":"Panic","e":"Hung","quotes":[]}));
            }
            break;
        } else {
            tokio::time::sleep(Duration::from_millis(1)).await;
        }
    }
    for c in cases.iter() {
        emit(&mut t, c);
    }
    let n = t.finish();
    println!("{}", json!({"events": n, "cases": cases.len(), "seed": seed, "wall_ms": started.elapsed().as_millis() as u64}));
}

fn main() {
    let rt = tokio::runtime::Builder::new_current_thread().enable_all().build().expect("runtime");
    rt.block_on(run());
}
